#!/usr/bin/env python3
"""Writes MANIFEST.json from the table below (kept in one place so it stays valid)."""
import json, os
HERE = os.path.dirname(os.path.abspath(__file__))
TB = ("Lean 4.33.0 kernel (axioms: propext, Classical.choice, Quot.sound only; audited per theorem); "
      "hand-written Lean model tied to the code by an in-process differential correspondence run (go build -overlay harness) on every run; ")
CHECKS = {
 "C15": dict(text="Lean theorems over the atomic-step model of the diagnostics pipeline (handlers, file worker, dispatcher with rate limiter, workspace worker): inv_step / inv_reachable and converges (for EVERY history and interleaving: whenever both queues are empty nothing published is stale), rate_limit_safe, drain_measure, merge_by_rule_disjoint (SetFileDiagnosticsForRules never clobbers a disjoint rule set); delete_leaves_stale_aggregate proves the defect of the code before its repair. Tie: the REAL LanguageServer (all workers, in-memory jsonrpc2) driven with generated event histories incl. bursts; published diagnostics at quiescence vs a fresh server on the final contents.",
             note=TB + "protocol-level model ('stale' flags, atomic worker steps); verdict contents come from the kernel (C01/C02/C09); idleness detected by polling; finding C15-parse-error-keeps-stale-aggregates is open", ref="5/C15",
             technique="Lean 4 proof (invariant by induction over events/worker steps) + end-to-end differential oracle on the real server"),
 "C17": dict(text="PARTIAL. Proved (Lean): in the pipeline model no worker step is ever blocked and the queues drain (worker_never_blocked, idle_reached), and the didSave CRLF branch dereferences the config only when one is loaded (didSave_guard_sound; didSave_nil_deref_witness for the code as it was). NOT proved, explored: no panic / no unanswered request / idle again for random message sequences over all handled methods on opened, unknown, ignored, deleted URIs, broken documents, CRLF, config file appearing/disappearing, against the real server (thorough: -race).",
             note=TB + "panic/race freedom of ~25 Go handlers over OPA ASTs is not a model we can state: exploration only (evidence.assumption_sampling)", ref="5/C17",
             technique="Lean 4 proof of the queue/guard models + message-sequence exploration of the real server"),
 "C03": dict(text="PARTIAL. Proved (Lean, any number of workers, every interleaving): the wait/error protocol of lintWithRegoRules has no deadlock, a returned report contains every file's merge, an evaluation error is never dropped (select_no_lost_error, proto_complete, proto_no_deadlock, proto_progress; lost_error_witness for the code before its repair), tied by go/ast facts and the forced lost-error schedule. Pinned: the inventory of places in the bundle where OPA can raise a runtime conflict. NOT proved, only sampled (evidence.assumption_sampling): that no rule errors, panics or hangs on a parseable module (Env.Total) — all rules over repository, OPA-conformance and generated modules, alone and in batches.",
             note=TB + "Env.Total is a hypothesis about ~95 Rego rules x OPA's evaluator: sampling, not proof", ref="5/C03",
             technique="Lean 4 proof of the protocol model + fact extraction; corpus sampling for the Env-side hypothesis"),
 "C07": dict(text="PARTIAL. Proved (Lean): result.location / to_location_object keep a well-formed location (start, end, text = the reported line, file), ranged locations and the LSP range are ordered, and the routing kernel commutes with shifting a file down by k rows when the rule packages do (kernel_shift_equivariant, ignored_shift). Tied function-level through the real OPA. NOT proved, only sampled: every rule hands a well-formed node to the helpers and moves with the text — all rules over corpora: bounds, end >= start, text equality, and k in {1,3,10,100} blank-line shifts.",
             note=TB + "per-rule well-formedness and parser equivariance are Env side: sampling; file-length and opa-fmt excluded from the shift oracle by definition", ref="5/C07",
             technique="Lean 4 proof over the location/kernel model + differential correspondence; corpus sampling for the Env-side hypotheses"),
 "C11": dict(text="Lean theorems over the three text fixes (rune-indexed, as repaired): useAssign_spec / noWs_spec (the only possible change is the documented single-character insertion at the reported column, guarded by the character found there), fixAt_local / fixAt_guard (no other line, no change when the guard fails), closingQuote_spec (no index escapes the line), nonRaw_pattern_preserved (raw string has the value of the interpreted string for \\\\-only patterns), noWs_progress. Tie: exhaustive function-level runs of the real Fix methods vs the model; generated modules through the real Fixer with an OPA-AST oracle (parses; AST equal up to '=' -> ':='; comments equal up to one space).",
             note=TB + "that the reported column is the operator/comment/literal is the rules' (Env) business: sampled, not proved; OPA formatter trusted", ref="5/C11",
             technique="Lean 4 proof over text-fix models + exhaustive differential correspondence + AST-equality oracle"),
 "C12": dict(text="Lean theorems over the abstract fix loop (any linter, any fixes): loop_idempotent and loop_post unconditionally, loop_terminates under the explicit progress hypothesis (each successful fix decreases a measure); eq_in_head_loops_forever proves non-termination of the rule as it was before its repair. Tie: generated workspaces x subsets of the six fixable rules through the real Fixer (watchdog): terminates, nothing fixable left on re-lint, second run is a no-op, fix succeeds whenever lint accepted.",
             note=TB + "progress hypothesis is Env side (a correct fix removes its violation): sampled", ref="5/C12",
             technique="Lean 4 proof (fuel/measure induction over the loop model) + end-to-end oracle on the real fixer"),
 "C18": dict(text="Lean theorems findUpwards_nearest and findConfig_spec (chains of any depth: a returned config sits in the closest directory that has a .regal directory or .regal.yaml; both kinds there is the conflict error), fallback_chain (no config: user-level file, else defaults), merge_keeps_defaults / merge_only_overrides / merge_ignore; deviations proved on the model and replayed (conflict_swallowed, empty_regal_dir_shadows: known findings). Tie: exhaustive placements on depth <= 4 through the real FindConfig on temp directories; the real `regal lint` binary with a fake $HOME revealing which config file was applied; merge of generated user configs over the real defaults (every default rule and option kept unless written) and YAML dump/reload.",
             note=TB + "mergo and yaml.v3 are sampled, not modelled beyond levels/ignore; capabilities round trip is a known finding", ref="5/C18",
             technique="Lean 4 proof (induction on the directory chain) + exhaustive differential correspondence + end-to-end oracle"),
 "C16": dict(text="Lean model of splitLines / shortestEditSequence / backtrack / operations / ComputeEdits function by function (V as a total function Int->Int, index bounds a separate theorem) and theorems for ALL documents of any length: computeEdits_correct (whatever ComputeEdits returns, an LSP client applying the whole-line edits to `before` gets exactly `after`), operations_correct (operations are ordered, non-overlapping and render a into b), proved through the forward invariant of the Myers trace (Lemmas/DiffForward), the backward pass (Lemmas/DiffBack: backtrack yields a good snake chain), the walk (Lemmas/DiffWalk) and edits = operations under the client semantics (Lemmas/DiffEdits); index_in_bounds and line_indices_nonneg show the totalised V and slide hide no Go index panic. Not proved: totality (the search reaches (M,N) within M+N rounds, i.e. ComputeEdits does not panic) - needs Myers' furthest-reaching lemma; a panic would show as a crash in the correspondence run. Tie: the operation list (field by field, so tie-breaking must match), the edits and the applied result are compared with the real ComputeEdits on 12 000 (quick) / all 131 769 (thorough) pairs over the line alphabet {a,b,empty}<=4 lines with/without final newline plus random realistic pairs; an independent LSP-client applyTextEdits checks 'after' and ordering/bounds.",
             note=TB + "LSP client semantics as implemented by the harness; totality of the search is not proved (see Props/C16.lean)", ref="5/C16",
             technique="Lean 4 proof (induction over the snake walk) + exhaustive differential correspondence"),
 "C13": dict(text="Lean theorems rename_no_overwrite, contents_bijection (after any sequence of Put/Rename the provider's files correspond one-to-one to the originals, paths distinct), rename_candidate_injective_iter + handleRename_terminates_fresh (pigeonhole: a free name within |files|+1 candidates), closest_root_is_ancestor (whole components), writeout_untouched / writeout_written (deletes before writes; untouched paths keep their bytes). Tie: real InMemoryFileProvider op sequences, renameCandidate over a name grammar, FindClosestMatchingRoot exhaustively over sibling-prefix roots, DirCleanUpPaths on temp trees, and the real `regal fix --force` binary (both conflict modes, dry-run) with id-tagged files and a one-to-one oracle.",
             note=TB + "renameCandidate counters below MaxInt64; OS file operations; OPA format preserves comments", ref="5/C13",
             technique="Lean 4 proof (state-machine invariant by induction over operations, pigeonhole) + differential correspondence + end-to-end oracle"),
 "C14": dict(text="Lean theorems guard_refuses_outside_repo, guard_protects_dirty (a write without --force touches no file with a git status entry, modified or deleted/moved), refusal_leaves_disk, dryrun_noop, dirty_untouched (disk model: deletes then writes), findRepo_spec/findRepo_none; guard_never_fired_old (the repaired defect: relative keys vs absolute paths are disjoint for every input). Tie: the full state matrix as real git repositories, real `regal fix` binary, tree snapshots before/after; exit status vs the guard model.",
             note=TB + "go-git status semantics, os file operations; ignored files are outside the statement", ref="5/C14",
             technique="Lean 4 proof over the decision/disk model + exhaustive scenario correspondence on real git repositories"),
 "C10": dict(text="Lean theorems exit_code_spec (total case analysis over any list of levels), exit_monotone, records_perm_junit (grouping by a de-duplicated sorted file list presents every violation exactly once, any sort function) and records_perm_linear; junit_old_witness (the repaired n^2 defect). Tie: every real reporter renders random reports and the output is parsed back (JSON, XML, SARIF, line formats) into records compared with the model and with the report; the real `regal lint` binary's exit status on generated workspaces for both fail levels and failing runs.",
             note=TB + "encoders/escaping are trusted libraries sampled by parse-back; pretty level column needs NO_COLOR", ref="5/C10",
             technique="Lean 4 proof (case analysis; partition-by-key permutation) + differential correspondence with parse-back"),
 "C20": dict(text="Lean theorems match_iff_component_prefix (for all clean paths of any depth a configured directory matches iff it is an ancestor-or-self by path components: a sibling sharing a name prefix is never captured), lookup_is_deepest_ancestor and lookup_default_when_outside (for every map iteration order), deepest_unique, and the key-precedence facts of AllRegoVersions. Tie: exhaustive lookups over small key/dir universes through the real RegoVersionFromVersionsMap (repeated to expose map-order dependence) and real temp trees (config roots, .manifest files, relative and absolute spelling) through AllRegoVersions + InputFromPaths.",
             note=TB + "OPA parser decides what parses under v0/v1; clean configured directories; LSP/fix path forms not covered", ref="5/C20",
             technique="Lean 4 proof (string-prefix = component-prefix lemma, fold invariant) + exhaustive differential correspondence"),
 "C02": dict(text="Lean theorems walk_spec (every tree, any depth: the walk returns exactly the .rego files with no skipped directory between argument and file; a missing argument fails the run), filter_sound_complete (C05), per_file_compose / single_file_run (non-aggregate violations of a batch = concatenation of the single-file runs, for all Env), summary_consistent, scanned_eq; error propagation from SelectProto. Tie: real temp trees through FilterIgnoredPaths vs the Walk model; batch-vs-single lints through the real linter vs the kernel.",
             note=TB + "WalkDir visits entries in lexical order; Env.OpsIrrelevant sampled", ref="5/C02",
             technique="Lean 4 proof (mutual structural induction on trees, fold closed forms) + differential correspondence"),
 "C06": dict(text="Lean theorems ignored_iff (suppressed iff a directive naming the rule is on the same row or the row above), suppress_exact and add_directive_removes_exactly (a directive removes precisely those violations, nothing else; built-in and custom branches), aggregate_same, keys_roundtrip, no_row_never_ignored. Tie: whole-report prediction of the real linter on marker workspaces, and an oracle that inserts directives (4 placements x 4 spellings) at reported violations and compares with base-minus-named (rows shifted).",
             note=TB + "Env boundary: comment locations from OPA's parser; two-phase pipeline excluded (C09-directives)", ref="5/C06",
             technique="Lean 4 proof over the routing model + differential correspondence with directive-insertion oracle"),
 "C09": dict(text="Lean theorems collect_partition_perm (every partition into collect runs, every merge order: each rule gets the same bag of aggregate entries, keys incl. empty markers present iff present one-shot), two_phase_eq_one_shot (given AggPermInvariant and equal directives), two_phase_triggers_same; negation two_phase_directives_witness (known finding). Tie: real Linter API two-phase pipeline over all set partitions (<=4 files) and random merge orders vs one-shot and vs the model.",
             note=TB + "AggPermInvariant of real aggregate rules sampled; LSP cache layer is covered under C15", ref="5/C09",
             technique="Lean 4 proof (assoc-map normal forms, permutation of contributions) + differential correspondence"),
 "C19": dict(text="Lean theorems noticed_rule_silent / gated_rule_reports_nothing (a rule with a notice contributes no violation, all Env), notices_only_from_running_rules, skipped_count_spec, skipped_independent_of_files, caps_plus_minus. Tie: real linter over marker workspaces with strings.count removed, every (sampled; thorough: all 113) embedded OPA capabilities version with one and three files, capability plus/minus through the real config unmarshalling.",
             note=TB + "per-rule notice conditions and embedded capability files are Env side; checked on the implementation's own reports", ref="5/C19",
             technique="Lean 4 proof over the routing model + differential correspondence"),
 "C01": dict(text="Lean theorem lint_order_independent: for every Env with AggPermInvariant, every config/flags/options and any number of files, every completion order of the per-file workers (= permutation of the atomic merge blocks) and every order of the input list gives the same bag of violations, set of notices, summary and per-key aggregates; SelectProto theorems (Props/C03): no evaluation error is ever dropped, no deadlock. Model (main.rego, config.rego, exclusion.rego, Lint merge) tied to the real linter by whole-report prediction on marker workspaces with the completion order FORCED through schedule gates, under GOMAXPROCS 1/2/16 and concurrent Lint calls, plus go/ast facts on the lock discipline and the final select.",
             note=TB + "Env boundary (rule packages, OPA parser/evaluator) is a parameter; AggPermInvariant of real aggregate rules sampled; Go mutex atomicity", ref="5/C01",
             technique="Lean 4 proof (permutation invariance of the merge fold) + forced-schedule differential correspondence"),
 "C04": dict(text="Lean theorems rego_precedence_exact / go_level_chain / enabled_list_exact: ignored_rule+level_for_rule equal the README chain for all flag lists and levels, the Go level merge equals rule>category>global>built-in for rules with a built-in default; negations proved for custom rules (known findings). Tie: exhaustive function-level runs of the real config.rego (all 2^6 override patterns x levels) and of LoadConfigWithDefaultsFromBundle (all level/default combinations), sampled end-to-end lints with DetermineEnabledRules.",
             note=TB + "mergo (library) sampled exhaustively on levels; category/global defaults carry a level", ref="5/C04",
             technique="Lean 4 proof (case analysis over all flag/level valuations) + exhaustive differential correspondence"),
 "C05": dict(text="Lean theorems (all patterns, all files, any glob matcher): Go excludeFile and Rego _pattern_compiler/_exclude produce the same pattern set and the same verdict; filterPaths keeps exactly the unmatched files in order; CLI list replaces config list identically. Model tied to pkg/config/filter.go and exclusion.rego/main.rego by function-level differential runs through the real OPA and the real gobwas matcher.",
             note=TB + "gobwas/glob abstract; prefix non-empty and not ending in '/' or empty with relative names", ref="5/C05",
             technique="Lean 4 proof over hand model + differential correspondence"),
}
NA = {
 "C08": "about the concrete verdict of ~95 Rego rule programs on concrete documents and their re-layouts: the only executable model that expresses it is a formal semantics of Rego + OPA built-ins + each rule; with the rules behind the Env boundary the statement is vacuous, and running the examples through the linter is testing, which this task's technique may not substitute for a theorem (DESIGN section 6)",
}
ALL = ["C%02d" % i for i in range(1, 21)]
PENDING = "not yet built in this round (framework in progress); see DESIGN.md"

def main():
    checks = []
    for pid in sorted(CHECKS):
        c = CHECKS[pid]
        checks.append({
            "property_id": pid,
            "quick_cmd": "./check %s --tier quick" % pid,
            "thorough_cmd": "./check %s --tier thorough" % pid,
            "evidence_file": "/verif/evidence/%s.json" % pid,
            "replay_cmd_template": "./check %s --replay {path}" % pid,
            "engine": "lean-proof+correspondence",
            "level_claimed": {"category": c.get("category", "proof"), "text": c["text"], "design_ref": c["ref"]},
            "level_note": c["note"],
            "technique": c["technique"],
        })
    na = [{"property_id": p, "reason": NA.get(p, PENDING)} for p in ALL if p not in CHECKS]
    m = {
        "version": 1,
        "setup_cmd": "./setup.sh",
        "hooks": {"guard": "verif-overlay", "enable": "go build -overlay (generated by vlib/core.py) injects /verif/harness into internal/verifharness and zz_verif_*.go export files; no source commit carries hooks",
                  "baseline_off_cmd": "cd /repo && GOFLAGS=-mod=mod GOPROXY=off go test -vet=off -count=1 -timeout 25m ./...",
                  "source_commits": [], "add_only": True},
        "engines": [{"name": "lean-proof+correspondence", "path": "/verif/check",
                     "serves_properties": sorted(CHECKS),
                     "kind_free_text": "Lean 4 theorems over executable models (lean/RegalModel) + Go oracle harness running the real code (harness/) + Python orchestration (vlib/)"}],
        "checks": checks,
        "not_applicable": na,
        "notes": "See DESIGN.md. Known findings: known-findings.json.",
    }
    json.dump(m, open(os.path.join(HERE, "MANIFEST.json"), "w"), indent=1)

main()
