#!/usr/bin/env python3
"""Handling of seeded property-breaking changes (never committed to /repo).

  seedtool.py confirm <mutdir>            apply patch.diff in a scratch worktree, build, run the pinned test
                                          suite, build the binary (/tmp/seed-confirm/regal-mut); worktree is left
                                          patched at /tmp/seed-confirm/wt for running the demonstration
  seedtool.py done                        remove the scratch worktree and binaries
  seedtool.py check <mutdir|seeded-id> Cxx [Cyy…] [--tier thorough]
                                          apply to /repo, run the checks, undo; prints VIOLATION lines
  seedtool.py keep <mutdir> <seeded-id> <json-meta>   copy into /verif/seeded/<seeded-id>/
"""
import json, os, shutil, subprocess, sys, time

ENV = dict(os.environ, GOFLAGS="-mod=mod", GOPROXY="off")
WT = "/tmp/seed-confirm/wt"
BIN = "/tmp/seed-confirm"

def sh(cmd, cwd=None, env=ENV, timeout=3600):
    p = subprocess.run(cmd, shell=True, cwd=cwd, env=env, capture_output=True, text=True, timeout=timeout)
    return p.returncode, p.stdout + p.stderr

def patch_of(arg):
    if os.path.isdir(arg):
        return os.path.join(arg, "patch.diff")
    return os.path.join("/verif/seeded", arg, "patch.diff")

def confirm(mutdir):
    os.makedirs(BIN, exist_ok=True)
    if not os.path.isdir(WT):
        rc, out = sh(f"git -C /repo worktree add --detach {WT} HEAD")
        assert rc == 0, out
    sh("git checkout -- . && git clean -fdq", cwd=WT)
    if not os.path.exists(f"{BIN}/regal-base"):
        rc, out = sh(f"go build -o {BIN}/regal-base .", cwd=WT)
        assert rc == 0, out
    rc, out = sh(f"git apply {patch_of(mutdir)}", cwd=WT)
    print("apply rc", rc, out)
    if rc: return 1
    t = time.time()
    rc, out = sh("go build ./... && go vet ./cmd/... >/dev/null 2>&1; go build -o %s/regal-mut ." % BIN, cwd=WT)
    print("build rc", rc, out[-2000:], f"{time.time()-t:.0f}s")
    if rc: return 1
    t = time.time()
    rc, out = sh("go test -vet=off -count=1 -timeout 25m ./... 2>&1 | grep -v '^ok\\|no test files'", cwd=WT)
    print("tests: non-ok lines:", out.strip() or "(none)", f"{time.time()-t:.0f}s")
    # e2e module, if any
    return 0

def demogo(mutdir, testfile, pkgdir):
    """worktree must be in the patched state left by confirm: run the Go demo with, then without, the patch"""
    import re
    src = os.path.join(mutdir, testfile)
    names = re.findall(r"^func (Test\w+)\(", open(src).read(), re.M)
    dst = os.path.join(WT, pkgdir, "zz_" + testfile)
    shutil.copy(src, dst)
    pat = "^(" + "|".join(names) + ")$"
    rc1, out1 = sh(f"go test -vet=off -count=1 -run '{pat}' ./{pkgdir}/", cwd=WT)
    print("with patch: rc", rc1, out1.strip().splitlines()[-1][:200] if out1.strip() else "")
    rc, out = sh(f"git apply -R {patch_of(mutdir)}", cwd=WT)
    assert rc == 0, out
    rc2, out2 = sh(f"go test -vet=off -count=1 -run '{pat}' ./{pkgdir}/", cwd=WT)
    print("without patch: rc", rc2, out2.strip().splitlines()[-1][:200] if out2.strip() else "")
    os.remove(dst)
    print("DEMO", "CONFIRMED" if rc1 != 0 and rc2 == 0 else "NOT CONFIRMED")

def done():
    sh(f"git -C /repo worktree remove --force {WT}")
    shutil.rmtree(BIN, ignore_errors=True)
    sh("git -C /repo worktree prune")

def check(arg, props, tier=None):
    rc, out = sh("git -C /repo status --porcelain")
    assert out.strip() == "", "/repo not clean: " + out
    rc, out = sh(f"git -C /repo apply {patch_of(arg)}")
    assert rc == 0, out
    res = {}
    # the checks rewrite evidence/<id>.json on every run: keep the evidence of the unchanged tree
    saved = {p: open(f"/verif/evidence/{p}.json").read() for p in props if os.path.exists(f"/verif/evidence/{p}.json")}
    try:
        for p in props:
            env = dict(ENV)
            if tier: env["VERIF_TIER"] = tier
            t = time.time()
            rc, out = sh(f"./check {p}" + (" --tier thorough" if tier == "thorough" else ""), cwd="/verif", env=env, timeout=7200)
            lines = [l for l in out.splitlines() if l.startswith(("VIOLATION", "KNOWN-FINDING", "[done]"))]
            print(f"== {p} rc={rc} {time.time()-t:.0f}s")
            for l in lines: print("   ", l)
            res[p] = (rc, lines)
    finally:
        rc, out = sh("git -C /repo checkout -- . && git -C /repo status --porcelain")
        if out.strip():
            print("WARNING: /repo left with:", out)
        for p, text in saved.items():
            with open(f"/verif/evidence/{p}.json", "w") as fh:
                fh.write(text)
    return res

def keep(mutdir, sid, meta):
    dst = os.path.join("/verif/seeded", sid)
    os.makedirs(dst, exist_ok=True)
    for f in os.listdir(mutdir):
        src = os.path.join(mutdir, f)
        if os.path.isfile(src) and os.path.getsize(src) < 400_000 and not f.startswith("regal"):
            shutil.copy(src, os.path.join(dst, f))
        elif os.path.isdir(src) and f in ("demo", "demo_test", "testdata"):
            shutil.copytree(src, os.path.join(dst, f), dirs_exist_ok=True)
    json.dump(meta, open(os.path.join(dst, "meta.json"), "w"), indent=1)
    print("kept", dst)

if __name__ == "__main__":
    a = sys.argv[1:]
    if a[0] == "confirm": sys.exit(confirm(a[1]))
    elif a[0] == "done": done()
    elif a[0] == "demogo": demogo(a[1], a[2], a[3])
    elif a[0] == "check":
        tier = None
        if "--tier" in a:
            i = a.index("--tier"); tier = a[i+1]; a = a[:i] + a[i+2:]
        check(a[1], a[2:], tier)
    elif a[0] == "keep": keep(a[1], a[2], json.loads(a[3]))
