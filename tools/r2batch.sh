#!/bin/bash
# usage: tools/r2batch.sh <mutdir> <props...>   — confirm in scratch worktree, run demo with/without patch, run checks
d=$1; shift
echo "=================== $d"
python3 /verif/tools/seedtool.py confirm $d || exit 1
demo=$(ls $d/demo.sh $d/demo_cli.sh $d/cli_demo.sh 2>/dev/null | head -1)
tf=$(cd $d && ls *_test.go 2>/dev/null | head -1)
if [ -n "$demo" ]; then
  extra=""
  grep -q "capabilities dir" $demo 2>/dev/null && extra=$(ls -d /root/go/pkg/mod/github.com/open-policy-agent/opa@*/capabilities | head -1)
  bash $demo /tmp/seed-confirm/regal-mut $extra >/tmp/r2demo-mut.txt 2>&1; a=$?
  bash $demo /tmp/seed-confirm/regal-base $extra >/tmp/r2demo-base.txt 2>&1; b=$?
  echo "demo($demo) mut rc=$a base rc=$b  $([ $a -ne 0 ] && [ $b -eq 0 ] && echo DEMO CONFIRMED || echo DEMO NOT CONFIRMED)"
elif [ -n "$tf" ]; then
  pkg=$(grep -o 'internal/lsp/cache\|internal/lsp\|pkg/linter\|pkg/fixer/fixes\|pkg/fixer\|pkg/config\|pkg/rules\|pkg/reporter\|internal/util\|cmd' $d/notes.md | head -1)
  hdr=$(grep -m1 "^package" $d/$tf | awk '{print $2}')
  echo "go demo $tf (package $hdr) -> $pkg"
  python3 /verif/tools/seedtool.py demogo $d $tf $pkg
fi
python3 /verif/tools/seedtool.py check $d "$@" 2>&1 | grep -v KNOWN | grep "VIOLATION\|done\]\|rc="
