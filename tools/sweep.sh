#!/bin/sh
# background sweep on the unchanged tree: thorough tier, then quick tier with other seeds
# usage (from a vp run snapshot): tools/sweep.sh thorough | seeds "2 3 4"
cd "$(dirname "$0")/.."
[ -n "$VP_RUN_REPO" ] && export VERIF_REPO="$VP_RUN_REPO"
./setup.sh >/dev/null 2>&1 || { echo setup failed; exit 2; }
[ -n "$SWEEP_PROPS" ] && PROPS="$SWEEP_PROPS" || PROPS="C02 C03 C04 C05 C06 C07 C10 C13 C14 C16 C18 C19 C20 C11 C12 C09 C01 C17 C15"
if [ "$1" = "thorough" ]; then
  for p in $PROPS; do
    s=$(date +%s); ./check $p --tier thorough > log-$p-thorough.txt 2>&1; rc=$?
    echo "$p thorough rc=$rc $(( $(date +%s) - s ))s $(grep -c '^VIOLATION' log-$p-thorough.txt) $(tail -1 log-$p-thorough.txt)"
    grep '^VIOLATION' log-$p-thorough.txt | head -3
  done
else
  for seed in $2; do
    for p in $PROPS; do
      s=$(date +%s); VERIF_SEED=$seed ./check $p > log-$p-seed$seed.txt 2>&1; rc=$?
      echo "$p seed=$seed rc=$rc $(( $(date +%s) - s ))s $(tail -1 log-$p-seed$seed.txt)"
      grep '^VIOLATION' log-$p-seed$seed.txt | head -3
    done
  done
fi
