#!/bin/sh
# Offline setup: build the Lean project (models, theorems, driver) and warm the Go build cache.
set -e
cd "$(dirname "$0")"
(cd lean && lake build RegalModel driver)
python3 - <<'PY'
import sys
sys.path.insert(0, '.')
from vlib import core
core.build_oracle()
PY
echo setup-ok
