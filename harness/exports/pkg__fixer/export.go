package fixer

func VerifRenameCandidate(oldName string) string { return renameCandidate(oldName) }
