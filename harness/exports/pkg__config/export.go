package config

// Thin exported wrappers added by the verification overlay (never committed to the tree).

func VerifExcludeFile(pattern, filename, pathPrefix string) (bool, error) {
	return excludeFile(pattern, filename, pathPrefix)
}

func VerifFilterPaths(policyPaths []string, ignore []string, pathPrefix string) ([]string, error) {
	return filterPaths(policyPaths, ignore, pathPrefix)
}
