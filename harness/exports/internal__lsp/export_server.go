package lsp

// state peeks for the verification harness (overlay only)

func (l *LanguageServer) VerifQueueLens() (int, int) {
	return len(l.lintFileJobs), len(l.lintWorkspaceJobs)
}

func (l *LanguageServer) VerifWorkspaceRoot() string { return l.workspaceRootURI }

func (l *LanguageServer) VerifCachedFiles() []string {
	out := []string{}
	for k := range l.cache.GetAllFiles() {
		out = append(out, k)
	}
	return out
}

func (l *LanguageServer) VerifFileContents(uri string) (string, bool) {
	return l.cache.GetFileContents(uri)
}

func (l *LanguageServer) VerifHasConfig() bool { return l.getLoadedConfig() != nil }
