package lsp

import "github.com/styrainc/regal/pkg/report"

// VerifRegoVersionForURI: the Rego version the server would parse the document with
func (l *LanguageServer) VerifRegoVersionForURI(fileURI string) string {
	return l.regoVersionForURI(fileURI).String()
}

func (l *LanguageServer) VerifClient() int { return int(l.clientIdentifier) }

// VerifRangeForViolation: the LSP range the server publishes for a violation location
func VerifRangeForViolation(row, col int, end *[2]int, text *string) [4]uint {
	v := report.Violation{Location: report.Location{Row: row, Column: col, Text: text}}
	if end != nil {
		v.Location.End = &report.Position{Row: end[0], Column: end[1]}
	}
	r := getRangeForViolation(v)
	return [4]uint{r.Start.Line, r.Start.Character, r.End.Line, r.End.Character}
}

// VerifCacheOrphans: URIs for which the cache holds a module or aggregate data although the file's contents are not
// cached (the invariant `Clean` of the LspCache model)
func (l *LanguageServer) VerifCacheOrphans() (modules []string, aggregates []string) {
	files := l.cache.GetAllFiles()
	modules, aggregates = []string{}, []string{}
	for k := range l.cache.GetAllModules() {
		if _, ok := files[k]; !ok {
			modules = append(modules, k)
		}
	}
	seen := map[string]bool{}
	for _, as := range l.cache.GetFileAggregates() {
		for _, a := range as {
			f := a.SourceFile()
			if _, ok := files[f]; !ok && !seen[f] {
				seen[f] = true
				aggregates = append(aggregates, f)
			}
		}
	}
	return modules, aggregates
}

// VerifAggregateFiles: the source files that have aggregate data in the cache
func (l *LanguageServer) VerifAggregateFiles() []string {
	seen := map[string]bool{}
	out := []string{}
	for _, as := range l.cache.GetFileAggregates() {
		for _, a := range as {
			if f := a.SourceFile(); !seen[f] {
				seen[f] = true
				out = append(out, f)
			}
		}
	}
	return out
}

// VerifAggregateCounts: number of aggregate entries cached per file
func (l *LanguageServer) VerifAggregateCounts() map[string]int {
	out := map[string]int{}
	for f := range l.cache.GetAllFiles() {
		n := 0
		for _, as := range l.cache.GetFileAggregates(f) {
			n += len(as)
		}
		out[f] = n
	}
	return out
}

// VerifAggregateKeys: the index keys (category/title) cached per file
func (l *LanguageServer) VerifAggregateKeys() map[string][]string {
	out := map[string][]string{}
	for f := range l.cache.GetAllFiles() {
		for k := range l.cache.GetFileAggregates(f) {
			out[f] = append(out[f], k)
		}
	}
	return out
}
