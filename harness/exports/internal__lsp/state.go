package lsp

// VerifRegoVersionForURI: the Rego version the server would parse the document with
func (l *LanguageServer) VerifRegoVersionForURI(fileURI string) string {
	return l.regoVersionForURI(fileURI).String()
}

func (l *LanguageServer) VerifClient() int { return int(l.clientIdentifier) }
