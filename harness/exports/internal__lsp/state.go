package lsp

import "github.com/styrainc/regal/pkg/report"

// VerifRegoVersionForURI: the Rego version the server would parse the document with
func (l *LanguageServer) VerifRegoVersionForURI(fileURI string) string {
	return l.regoVersionForURI(fileURI).String()
}

func (l *LanguageServer) VerifClient() int { return int(l.clientIdentifier) }

// VerifRangeForViolation: the LSP range the server publishes for a violation location
func VerifRangeForViolation(row, col int, end *[2]int, text *string) [4]uint {
	v := report.Violation{Location: report.Location{Row: row, Column: col, Text: text}}
	if end != nil {
		v.Location.End = &report.Position{Row: end[0], Column: end[1]}
	}
	r := getRangeForViolation(v)
	return [4]uint{r.Start.Line, r.Start.Character, r.End.Line, r.End.Character}
}
