package lsp

// Exported views of unexported functions for the verification harness (overlay only).

type VerifOp struct {
	Kind    int      `json:"kind"`
	I1      uint     `json:"i1"`
	I2      uint     `json:"i2"`
	J1      uint     `json:"j1"`
	Content []string `json:"content"`
}

func VerifSplitLines(s string) []string { return splitLines(s) }

func VerifOperations(a, b []string) []VerifOp {
	ops := operations(a, b)
	out := make([]VerifOp, 0, len(ops))
	for _, o := range ops {
		c := o.Content
		if c == nil {
			c = []string{}
		}
		out = append(out, VerifOp{Kind: int(o.Kind), I1: o.I1, I2: o.I2, J1: o.J1, Content: c})
	}
	return out
}
