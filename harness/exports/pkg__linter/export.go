package linter

// Schedule gates used by the verification harness.  They are called from an overlay COPY of
// linter.go (two inserted lines, produced from the current file on every run); the tree itself
// is never edited.  With the hooks nil they do nothing.

var (
	VerifGate     func(name string) // called by a per-file worker right before it takes the report mutex
	VerifGateDone func(name string) // called when the worker has merged its result (before the mutex is released)
	VerifBeforeSelect func()        // called by lintWithRegoRules right before the final select
)

func verifGate(name string) {
	if f := VerifGate; f != nil {
		f(name)
	}
}

func verifGateDone(name string) {
	if f := VerifGateDone; f != nil {
		f(name)
	}
}

func verifBeforeSelect() {
	if f := VerifBeforeSelect; f != nil {
		f()
	}
}
