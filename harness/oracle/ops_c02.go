package main

import (
	"os"
	"path/filepath"
	"strings"

	"github.com/styrainc/regal/pkg/config"
)

func mkTree(dir string, node map[string]any) error {
	name, _ := node["name"].(string)
	p := filepath.Join(dir, name)
	if kids, ok := node["children"].([]any); ok {
		if err := os.MkdirAll(p, 0o755); err != nil {
			return err
		}
		for _, k := range kids {
			if err := mkTree(p, k.(map[string]any)); err != nil {
				return err
			}
		}
		return nil
	}
	return os.WriteFile(p, []byte("package x\n"), 0o600)
}

func init() {
	// file discovery on a real temporary tree: FilterIgnoredPaths(checkFileExists = true)
	register("c02.walk", func(req map[string]any) (any, error) {
		root, err := os.MkdirTemp("", "verif-walk-")
		if err != nil {
			return nil, err
		}
		defer os.RemoveAll(root)
		for _, t := range toAnySlice(req["roots"]) {
			if err := mkTree(root, t.(map[string]any)); err != nil {
				return nil, err
			}
		}
		args := []string{}
		for _, a := range strs(req, "args") {
			args = append(args, filepath.Join(root, a))
		}
		got, err := config.FilterIgnoredPaths(args, strs(req, "ignore"), true, "")
		if err != nil {
			return "error", nil
		}
		out := []string{}
		for _, g := range got {
			out = append(out, strings.TrimPrefix(g, root+"/"))
		}
		return out, nil
	})
}
