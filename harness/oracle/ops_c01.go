package main

import (
	"context"
	"fmt"
	"os"
	"path/filepath"
	"sort"

	"github.com/open-policy-agent/opa/v1/ast"

	"github.com/styrainc/regal/pkg/linter"
	"github.com/styrainc/regal/pkg/rules"
)

func init() {
	// a mixed-version project on disk, loaded through rules.InputFromPaths (the concurrent parser of the CLI path):
	// which Rego version was each file parsed with, and what does a lint of the loaded input report
	register("c01.paths", func(req map[string]any) (any, error) {
		root, err := os.MkdirTemp("", "verif-c01-")
		if err != nil {
			return nil, err
		}
		defer os.RemoveAll(root)
		root, _ = filepath.EvalSymlinks(root)
		n := num(req, "n")
		paths := []string{}
		for i := 0; i < n; i++ {
			v0 := filepath.Join(root, "legacy", fmt.Sprintf("p%03d.rego", i))
			v1 := filepath.Join(root, "modern", fmt.Sprintf("p%03d.rego", i))
			for _, p := range []string{v0, v1} {
				if err := os.MkdirAll(filepath.Dir(p), 0o755); err != nil {
					return nil, err
				}
			}
			// valid in both versions, so a file parsed with the wrong version is visible in RegoVersion() only
			src := fmt.Sprintf("package p%d\n\nallow := %d\n", i, i)
			if err := os.WriteFile(v0, []byte(src), 0o600); err != nil {
				return nil, err
			}
			if err := os.WriteFile(v1, []byte(src), 0o600); err != nil {
				return nil, err
			}
			paths = append(paths, v0, v1)
		}
		vm := map[string]ast.RegoVersion{"legacy": ast.RegoV0, "modern": ast.RegoV1}
		in, err := rules.InputFromPaths(paths, root, vm)
		if err != nil {
			return map[string]any{"error": err.Error()}, nil
		}
		wrong := []string{}
		for name, m := range in.Modules {
			want := ast.RegoV1
			if filepath.Base(filepath.Dir(name)) == "legacy" {
				want = ast.RegoV0
			}
			if m.RegoVersion() != want {
				wrong = append(wrong, fmt.Sprintf("%s parsed as %s", name[len(root):], verName(m.RegoVersion())))
			}
		}
		sort.Strings(wrong)
		out := map[string]any{"files": len(in.Modules), "wrongVersion": wrong}
		if boolv(req, "lint") {
			l := linter.NewLinter().WithDisableAll(true).WithEnabledRules("use-rego-v1", "unresolved-import").
				WithPathPrefix(root).WithInputModules(&in)
			rep, err := l.Lint(context.Background())
			if err != nil {
				return map[string]any{"error": err.Error()}, nil
			}
			out["numViolations"] = rep.Summary.NumViolations
		}
		return out, nil
	})
}
