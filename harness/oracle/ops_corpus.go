package main

import (
	"github.com/styrainc/regal/internal/lsp"
	"context"
	"fmt"
	"sort"
	"strings"
	"time"

	"github.com/open-policy-agent/opa/v1/ast"
	"github.com/open-policy-agent/opa/v1/bundle"

	rbundle "github.com/styrainc/regal/bundle"
	"github.com/styrainc/regal/pkg/linter"
)

// all built-in rules over arbitrary (parseable) modules: sampling of the Env-side hypotheses of C03 / C07
func init() {
	register("corpus.lint", func(req map[string]any) (any, error) {
		var c kCase
		if err := decodeCase(req, &c); err != nil {
			return nil, err
		}
		in, err := inputOf(c.Files)
		if err != nil {
			return map[string]any{"status": "parse-error", "err": err.Error()}, nil
		}
		l := linter.NewLinter().WithEnableAll(true).WithInputModules(&in)
		type res struct {
			out map[string]any
		}
		ch := make(chan map[string]any, 1)
		go func() {
			defer func() {
				if r := recover(); r != nil {
					ch <- map[string]any{"status": "panic", "err": fmt.Sprint(r)}
				}
			}()
			rep, err := l.Lint(context.Background())
			if err != nil {
				ch <- map[string]any{"status": "error", "err": err.Error()}
				return
			}
			vs := [][]any{}
			for _, v := range rep.Violations {
				var er, ec any
				if v.Location.End != nil {
					er, ec = v.Location.End.Row, v.Location.End.Column
				}
				var text any
				if v.Location.Text != nil {
					text = *v.Location.Text
				}
				vs = append(vs, []any{v.Title, v.Category, v.Level, v.Location.File, v.Location.Row, v.Location.Column, er, ec, text, v.IsAggregate})
			}
			sort.Slice(vs, func(i, j int) bool { return fmt.Sprint(vs[i]) < fmt.Sprint(vs[j]) })
			ch <- map[string]any{"status": "ok", "violations": vs, "scanned": rep.Summary.FilesScanned}
		}()
		select {
		case o := <-ch:
			return o, nil
		case <-time.After(60 * time.Second):
			return map[string]any{"status": "timeout"}, nil
		}
	})
	// inventory of the places in the bundle where OPA can raise a runtime conflict error at all:
	// complete rules / functions with more than one (non-else) definition
	register("c03.sites", func(req map[string]any) (any, error) {
		return conflictSites(&rbundle.LoadedBundle), nil
	})
}

func conflictSites(b *bundle.Bundle) []string {
	count := map[string]int{}
	for _, mf := range b.Modules {
		if strings.Contains(mf.Path, "_test.rego") {
			continue
		}
		m := mf.Parsed
		for _, r := range m.Rules {
			if r.Default {
				continue
			}
			// partial sets (contains) never conflict; partial objects and complete rules / functions can
			if r.Head.Key != nil && r.Head.Value == nil {
				continue
			}
			key := m.Package.Path.String() + "." + r.Head.Ref().String()
			kind := "rule"
			if len(r.Head.Args) > 0 {
				kind = fmt.Sprintf("func/%d", len(r.Head.Args))
			}
			if r.Head.Key != nil {
				kind = "partial-object"
			}
			count[kind+" "+key]++
			_ = ast.RegoV1
		}
	}
	out := []string{}
	for k, n := range count {
		if n > 1 || strings.HasPrefix(k, "partial-object") {
			out = append(out, fmt.Sprintf("%s x%d", k, n))
		}
	}
	sort.Strings(out)
	return out
}

func init() {
	// internal/lsp getRangeForViolation on a violation location
	register("c07.lsprange", func(req map[string]any) (any, error) {
		var end *[2]int
		if e, ok := req["end"].([]any); ok && len(e) == 2 {
			end = &[2]int{int(e[0].(float64)), int(e[1].(float64))}
		}
		var text *string
		if t, ok := req["text"].(string); ok {
			text = &t
		}
		r := lsp.VerifRangeForViolation(num(req, "row"), num(req, "col"), end, text)
		return []uint{r[0], r[1], r[2], r[3]}, nil
	})
	// the shared location helpers through the real OPA: result.location on a node with a location string
	register("c07.loc", func(req map[string]any) (any, error) {
		lines := []any{}
		for _, l := range strs(req, "lines") {
			lines = append(lines, l)
		}
		in := map[string]any{
			"regal": map[string]any{"file": map[string]any{"name": str(req, "file"), "lines": lines}},
			"node":  map[string]any{"location": str(req, "loc")},
		}
		v, ok, err := evalRego(`x := data.regal.result.location(input.node)`, "", nil, in)
		if err != nil {
			return map[string]any{"error": err.Error()}, nil
		}
		if !ok {
			return map[string]any{"undefined": true}, nil
		}
		return v, nil
	})
}
