package main

import (
	"context"
	"encoding/json"
	"fmt"
	"io"
	"net"
	"os"
	"path/filepath"
	"sort"
	"strings"
	"sync"
	"time"

	"github.com/sourcegraph/jsonrpc2"

	"github.com/styrainc/regal/internal/lsp"
	"github.com/styrainc/regal/internal/lsp/log"
	"github.com/styrainc/regal/internal/lsp/types"
)

type lspClient struct {
	mu        sync.Mutex
	published map[string][]string // uri -> sorted "code@line" (last notification)
	lastPub   time.Time
	nPub      int
	requests  []string
}

func (c *lspClient) handle(_ context.Context, _ *jsonrpc2.Conn, req *jsonrpc2.Request) (any, error) {
	c.mu.Lock()
	defer c.mu.Unlock()
	switch req.Method {
	case "textDocument/publishDiagnostics":
		var fd types.FileDiagnostics
		if req.Params != nil {
			_ = json.Unmarshal(*req.Params, &fd)
		}
		items := []string{}
		for _, d := range fd.Items {
			items = append(items, fmt.Sprintf("%s@%d", d.Code, d.Range.Start.Line))
		}
		sort.Strings(items)
		c.published[fd.URI] = items
		c.lastPub = time.Now()
		c.nPub++
		if os.Getenv("VERIF_LSP_TRACE") != "" {
			fmt.Fprintf(os.Stderr, "[pub %s] %s %v\n", time.Now().Format("15:04:05.000"), fd.URI[len(fd.URI)-12:], items)
		}
		return struct{}{}, nil
	case "workspace/applyEdit":
		c.requests = append(c.requests, req.Method)
		return map[string]any{"applied": true}, nil
	default:
		c.requests = append(c.requests, req.Method)
		return struct{}{}, nil
	}
}

type lspSession struct {
	ls     *lsp.LanguageServer
	conn   *jsonrpc2.Conn
	client *lspClient
	cancel context.CancelFunc
	root   string
}

func startLSP(root string, clientName ...string) (*lspSession, error) {
	cname := "verif"
	if len(clientName) > 0 && clientName[0] != "" {
		cname = clientName[0]
	}
	ctx, cancel := context.WithCancel(context.Background())
	opts := &lsp.LanguageServerOptions{LogWriter: io.Discard, LogLevel: log.LevelOff}
	if os.Getenv("VERIF_LSP_TRACE") != "" {
		opts = &lsp.LanguageServerOptions{LogWriter: os.Stderr, LogLevel: log.LevelDebug}
	}
	ls := lsp.NewLanguageServer(ctx, opts)
	go ls.StartDiagnosticsWorker(ctx)
	go ls.StartHoverWorker(ctx)
	go ls.StartCommandWorker(ctx)
	go ls.StartConfigWorker(ctx)
	go ls.StartWorkspaceStateWorker(ctx)
	go ls.StartTemplateWorker(ctx)
	sConn, cConn := net.Pipe()
	client := &lspClient{published: map[string][]string{}, lastPub: time.Now()}
	connServer := jsonrpc2.NewConn(ctx, jsonrpc2.NewBufferedStream(sConn, jsonrpc2.VSCodeObjectCodec{}), jsonrpc2.HandlerWithError(ls.Handle))
	connClient := jsonrpc2.NewConn(ctx, jsonrpc2.NewBufferedStream(cConn, jsonrpc2.VSCodeObjectCodec{}), jsonrpc2.HandlerWithError(client.handle))
	go func() {
		<-ctx.Done()
		_ = cConn.Close()
		_ = sConn.Close()
	}()
	ls.SetConn(connServer)
	s := &lspSession{ls: ls, conn: connClient, client: client, cancel: cancel, root: root}
	cctx, c2 := context.WithTimeout(ctx, 20*time.Second)
	defer c2()
	var resp types.InitializeResult
	if err := connClient.Call(cctx, "initialize", types.InitializeParams{RootURI: "file://" + root, ClientInfo: types.Client{Name: cname}}, &resp); err != nil {
		cancel()
		return nil, fmt.Errorf("initialize: %w", err)
	}
	if err := connClient.Call(cctx, "initialized", struct{}{}, nil); err != nil {
		cancel()
		return nil, fmt.Errorf("initialized: %w", err)
	}
	return s, nil
}

// idle: both job queues empty and no publishDiagnostics for `quiet`, twice in a row
func (s *lspSession) waitIdle(quiet, deadline time.Duration) bool {
	return s.waitIdleMin(quiet, deadline, 0)
}

// minPubs: do not consider the server idle before it has published at least that many notifications
// (the initial workspace lint is started asynchronously by the config worker)
func (s *lspSession) waitIdleMin(quiet, deadline time.Duration, minPubs int) bool {
	end := time.Now().Add(deadline)
	ok := 0
	for time.Now().Before(end) {
		a, b := s.ls.VerifQueueLens()
		s.client.mu.Lock()
		since := time.Since(s.client.lastPub)
		n := s.client.nPub
		s.client.mu.Unlock()
		if a == 0 && b == 0 && since > quiet && n >= minPubs {
			ok++
			if ok >= 2 {
				return true
			}
		} else {
			ok = 0
		}
		time.Sleep(quiet / 2)
	}
	return false
}

func (s *lspSession) snapshot() map[string][]string {
	s.client.mu.Lock()
	defer s.client.mu.Unlock()
	out := map[string][]string{}
	for k, v := range s.client.published {
		rel := strings.TrimPrefix(k, "file://"+s.root)
		cp := append([]string{}, v...)
		out[rel] = cp
	}
	return out
}

func writeTree(root string, files map[string]string) error {
	for rel, c := range files {
		p := filepath.Join(root, rel)
		if err := os.MkdirAll(filepath.Dir(p), 0o755); err != nil {
			return err
		}
		if err := os.WriteFile(p, []byte(c), 0o600); err != nil {
			return err
		}
	}
	return nil
}

func toStrMap(v any) map[string]string {
	out := map[string]string{}
	m, _ := v.(map[string]any)
	for k, x := range m {
		s, _ := x.(string)
		out[k] = s
	}
	return out
}

// call with a deadline; returns "ok", "error:<msg>" or "timeout"
func (s *lspSession) call(method string, params any, d time.Duration) string {
	// the request is WRITTEN to a synchronous in-memory pipe: when the server's read loop is stuck the write
	// itself blocks and no context can interrupt it, so the call runs in its own goroutine under a hard deadline
	done := make(chan string, 1)
	go func() {
		ctx, cancel := context.WithTimeout(context.Background(), d)
		defer cancel()
		var raw json.RawMessage
		err := s.conn.Call(ctx, method, params, &raw)
		switch {
		case err == nil:
			done <- "ok"
		case ctx.Err() != nil:
			done <- "timeout"
		default:
			done <- "error:" + err.Error()
		}
	}()
	select {
	case r := <-done:
		return r
	case <-time.After(d + 2*time.Second):
		return "timeout"
	}
}

func init() {
	// C15: a history of editor events against the REAL server, then the published diagnostics at
	// quiescence vs those of a fresh server started on the same final contents
	register("lsp.history", func(req map[string]any) (any, error) {
		base, err := os.MkdirTemp("", "verif-lsp-")
		if err != nil {
			return nil, err
		}
		defer os.RemoveAll(base)
		base, _ = filepath.EvalSymlinks(base)
		root := filepath.Join(base, "w")
		files := toStrMap(req["files"])
		if err := writeTree(root, files); err != nil {
			return nil, err
		}
		s, err := startLSP(root)
		if err != nil {
			return map[string]any{"error": err.Error()}, nil
		}
		defer s.cancel()
		nRego := 0
		for k := range files {
			if strings.HasSuffix(k, ".rego") {
				nRego++
			}
		}
		time.Sleep(800 * time.Millisecond)
		if !s.waitIdleMin(1500*time.Millisecond, 30*time.Second, nRego) {
			return map[string]any{"error": "server did not become idle after initialize"}, nil
		}
		if os.Getenv("VERIF_LSP_TRACE") != "" {
			af := s.ls.VerifAggregateFiles()
			sort.Strings(af)
			fmt.Fprintf(os.Stderr, "[agg after startup] %v files=%v counts=%v keys=%v\n", af, s.ls.VerifCachedFiles(), s.ls.VerifAggregateCounts(), s.ls.VerifAggregateKeys())
		}
		uri := func(rel string) string { return "file://" + filepath.Join(root, rel) }
		contents := map[string]string{} // what the workspace contains now (editor view)
		for k, v := range files {
			if strings.HasSuffix(k, ".rego") {
				contents[k] = v
			}
		}
		results := []string{}
		for _, e := range toAnySlice(req["events"]) {
			ev := e.(map[string]any)
			f := str(ev, "file")
			var r string
			switch str(ev, "kind") {
			case "open":
				if c, ok := contents[f]; ok {
					r = s.call("textDocument/didOpen", types.TextDocumentDidOpenParams{TextDocument: types.TextDocumentItem{URI: uri(f), Text: c}}, 10*time.Second)
				}
			case "change":
				if _, ok := contents[f]; ok {
					contents[f] = str(ev, "text")
					_ = os.WriteFile(filepath.Join(root, f), []byte(str(ev, "text")), 0o600) // the editor saves too
					r = s.call("textDocument/didChange", types.TextDocumentDidChangeParams{
						TextDocument:   types.TextDocumentIdentifier{URI: uri(f)},
						ContentChanges: []types.TextDocumentContentChangeEvent{{Text: str(ev, "text")}}}, 10*time.Second)
				}
			case "create":
				contents[f] = str(ev, "text")
				_ = writeTree(root, map[string]string{f: str(ev, "text")})
				r = s.call("workspace/didCreateFiles", types.WorkspaceDidCreateFilesParams{Files: []types.WorkspaceDidCreateFilesParamsCreatedFile{{URI: uri(f)}}}, 10*time.Second)
			case "delete":
				if _, ok := contents[f]; ok {
					delete(contents, f)
					_ = os.Remove(filepath.Join(root, f))
					r = s.call("workspace/didDeleteFiles", types.WorkspaceDidDeleteFilesParams{Files: []types.WorkspaceDidDeleteFilesParamsDeletedFile{{URI: uri(f)}}}, 10*time.Second)
				}
			case "rename":
				to := str(ev, "to")
				if c, ok := contents[f]; ok {
					if _, exists := contents[to]; !exists {
						delete(contents, f)
						contents[to] = c
						_ = os.MkdirAll(filepath.Dir(filepath.Join(root, to)), 0o755)
						_ = os.Rename(filepath.Join(root, f), filepath.Join(root, to))
						r = s.call("workspace/didRenameFiles", types.WorkspaceDidRenameFilesParams{Files: []types.WorkspaceDidRenameFilesParamsFileRename{{OldURI: uri(f), NewURI: uri(to)}}}, 10*time.Second)
					}
				}
			case "config":
				_ = writeTree(root, map[string]string{".regal/config.yaml": str(ev, "text")})
				time.Sleep(150 * time.Millisecond) // fsnotify
			case "sleep":
				time.Sleep(time.Duration(num(ev, "ms")) * time.Millisecond)
			}
			results = append(results, r)
			if os.Getenv("VERIF_LSP_TRACE") != "" {
				af := s.ls.VerifAggregateFiles()
				sort.Strings(af)
				fmt.Fprintf(os.Stderr, "[agg after %s %s] %v\n", str(ev, "kind"), f, af)
			}
			if d := num(ev, "pauseMs"); d > 0 {
				time.Sleep(time.Duration(d) * time.Millisecond)
			}
		}
		// queue lengths do not show work in flight (a lint takes ~0.7 s): settle first, then require a long quiet period
		time.Sleep(1200 * time.Millisecond)
		idle := s.waitIdle(1800*time.Millisecond, 45*time.Second)
		got := s.snapshot()
		orphanMods, orphanAggs := s.ls.VerifCacheOrphans()
		aggFiles := s.ls.VerifAggregateFiles()
		sort.Strings(aggFiles)
		sort.Strings(orphanMods)
		sort.Strings(orphanAggs)
		// fresh server on the same final contents
		root2 := filepath.Join(base, "fresh", "w")
		cfg, _ := os.ReadFile(filepath.Join(root, ".regal", "config.yaml"))
		fresh := map[string]string{}
		for k, v := range contents {
			fresh[k] = v
		}
		if len(cfg) > 0 {
			fresh[".regal/config.yaml"] = string(cfg)
		}
		if err := writeTree(root2, fresh); err != nil {
			return nil, err
		}
		s2, err := startLSP(root2)
		if err != nil {
			return map[string]any{"error": "fresh: " + err.Error()}, nil
		}
		defer s2.cancel()
		time.Sleep(1200 * time.Millisecond)
		linted := 0
		for k := range contents {
			if strings.HasSuffix(k, ".rego") && !strings.HasPrefix(k, "ignored/") {
				linted++
			}
		}
		idle2 := s2.waitIdleMin(1800*time.Millisecond, 45*time.Second, linted)
		want := s2.snapshot()
		names := []string{}
		for k := range contents {
			names = append(names, "/"+k)
		}
		sort.Strings(names)
		return map[string]any{"idle": idle, "freshIdle": idle2, "published": got, "fresh": want, "files": names, "results": results,
			"orphanModules": orphanMods, "orphanAggregates": orphanAggs, "aggregateFiles": aggFiles}, nil
	})
}

func init() {
	// C17: an arbitrary sequence of client messages; every request must be answered, the server must stay alive
	// and become idle again.  A panic in a handler or worker kills this process: the runner reports the crash.
	register("lsp.fuzz", func(req map[string]any) (any, error) {
		base, err := os.MkdirTemp("", "verif-lspf-")
		if err != nil {
			return nil, err
		}
		defer os.RemoveAll(base)
		base, _ = filepath.EvalSymlinks(base)
		root := filepath.Join(base, "w")
		if err := writeTree(root, toStrMap(req["files"])); err != nil {
			return nil, err
		}
		s, err := startLSP(root, str(req, "client"))
		if err != nil {
			return map[string]any{"error": err.Error()}, nil
		}
		defer s.cancel()
		time.Sleep(500 * time.Millisecond)
		results := []string{}
		for _, m := range toAnySlice(req["messages"]) {
			msg := m.(map[string]any)
			switch str(msg, "fs") {
			case "write":
				_ = writeTree(root, map[string]string{str(msg, "file"): str(msg, "text")})
				if !boolv(msg, "noPause") {
					time.Sleep(120 * time.Millisecond)
				}
				results = append(results, "fs")
				continue
			case "remove":
				_ = os.Remove(filepath.Join(root, str(msg, "file")))
				time.Sleep(120 * time.Millisecond)
				results = append(results, "fs")
				continue
			}
			raw, _ := json.Marshal(msg["params"])
			text := strings.ReplaceAll(string(raw), "$ROOT", "file://"+root)
			var params any
			_ = json.Unmarshal([]byte(text), &params)
			if boolv(msg, "notify") {
				// a true notification: the client does not wait, the next message follows at once
				nd := make(chan error, 1)
				go func() {
					nctx, ncancel := context.WithTimeout(context.Background(), 10*time.Second)
					defer ncancel()
					nd <- s.conn.Notify(nctx, str(msg, "method"), params)
				}()
				var nerr error
				select {
				case nerr = <-nd:
				case <-time.After(12 * time.Second):
					nerr = context.DeadlineExceeded
				}
				if nerr != nil {
					results = append(results, "timeout")
					break
				}
				results = append(results, "ok")
				continue
			}
			r := s.call(str(msg, "method"), params, 10*time.Second)
			if strings.HasPrefix(r, "error:") {
				r = "error" // a JSON-RPC error response is a response
			}
			results = append(results, r)
			if r == "timeout" {
				// the server stopped answering: every further message would cost another full timeout
				break
			}
			if d := num(msg, "pauseMs"); d > 0 {
				time.Sleep(time.Duration(d) * time.Millisecond)
			}
		}
		if len(results) > 0 && results[len(results)-1] == "timeout" {
			alive := s.call("workspace/symbol", map[string]any{"query": ""}, 5*time.Second)
			return map[string]any{"results": results, "idle": false, "alive": alive}, nil
		}
		time.Sleep(800 * time.Millisecond)
		idle := s.waitIdle(1500*time.Millisecond, 40*time.Second)
		alive := s.call("workspace/symbol", map[string]any{"query": ""}, 10*time.Second)
		return map[string]any{"results": results, "idle": idle, "alive": alive}, nil
	})
}
