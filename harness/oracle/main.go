// Oracle server of the verification harness: runs the REAL regal code in-process.
// JSON lines in (one operation per line), JSON lines out.  Injected into the repository
// with `go build -overlay` as package internal/verifharness; nothing is committed to the tree.
package main

import (
	"bufio"
	"encoding/json"
	"fmt"
	"os"
	"runtime/debug"
	"strings"
)

type opFunc func(req map[string]any) (any, error)

var ops = map[string]opFunc{}

func register(name string, f opFunc) { ops[name] = f }

func str(req map[string]any, k string) string {
	v, _ := req[k].(string)
	return v
}

func boolv(req map[string]any, k string) bool {
	v, _ := req[k].(bool)
	return v
}

func num(req map[string]any, k string) int {
	v, _ := req[k].(float64)
	return int(v)
}

func strs(req map[string]any, k string) []string {
	a, _ := req[k].([]any)
	out := make([]string, 0, len(a))
	for _, x := range a {
		s, _ := x.(string)
		out = append(out, s)
	}
	return out
}

func run(f opFunc, req map[string]any) (out any, err error, panicked string) {
	defer func() {
		if r := recover(); r != nil {
			st := string(debug.Stack())
			if len(st) > 1500 {
				st = st[:1500]
			}
			panicked = fmt.Sprintf("%v\n%s", r, st)
		}
	}()
	out, err = f(req)
	return
}

func main() {
	in := bufio.NewReaderSize(os.Stdin, 1<<20)
	w := bufio.NewWriter(os.Stdout)
	defer w.Flush()
	enc := json.NewEncoder(w)
	enc.SetEscapeHTML(false)
	for {
		line, err := in.ReadString('\n')
		if strings.TrimSpace(line) != "" {
			var req map[string]any
			if e := json.Unmarshal([]byte(line), &req); e != nil {
				_ = enc.Encode(map[string]any{"err": "parse: " + e.Error()})
			} else {
				op, _ := req["op"].(string)
				f, ok := ops[op]
				res := map[string]any{"id": req["id"]}
				if !ok {
					res["err"] = "unknown op " + op
				} else {
					out, e, p := run(f, req)
					switch {
					case p != "":
						res["panic"] = p
					case e != nil:
						res["err"] = e.Error()
					default:
						res["out"] = out
					}
				}
				_ = enc.Encode(res)
			}
			w.Flush()
		}
		if err != nil {
			return
		}
	}
}
