package main

import (
	"context"
	"encoding/json"
	"fmt"
	"regexp"
	"sort"
	"strings"
	"time"

	"github.com/open-policy-agent/opa/v1/ast"

	"github.com/styrainc/regal/internal/parse"
	"github.com/styrainc/regal/pkg/fixer"
	"github.com/styrainc/regal/pkg/fixer/fileprovider"
	"github.com/styrainc/regal/pkg/fixer/fixes"
	"github.com/styrainc/regal/pkg/linter"
	"github.com/styrainc/regal/pkg/report"
	"github.com/styrainc/regal/pkg/rules"
)

var idRe = regexp.MustCompile(`# ?id:(\d+)`)

type fixOutcome struct {
	files  map[string]string
	status string
	err    string
	fixes  int
}

func runFixer(files map[string]string, enable []string, root string) fixOutcome {
	cp := map[string]string{}
	for k, v := range files {
		cp[k] = v
	}
	fp := fileprovider.NewInMemoryFileProvider(cp)
	l := linter.NewLinter().WithDisableAll(true).WithEnabledRules(enable...)
	f := fixer.NewFixer()
	f.RegisterFixes(fixes.NewDefaultFixes()...)
	f.RegisterRoots(root)
	f.SetOnConflictOperation(fixer.OnConflictRename)
	type res struct {
		rep *fixer.Report
		err error
	}
	ch := make(chan res, 1)
	go func() {
		defer func() {
			if r := recover(); r != nil {
				ch <- res{nil, fmt.Errorf("panic: %v", r)}
			}
		}()
		rep, err := f.Fix(context.Background(), &l, fp)
		ch <- res{rep, err}
	}()
	select {
	case r := <-ch:
		out := fixOutcome{files: map[string]string{}}
		names, _ := fp.List()
		for _, n := range names {
			c, _ := fp.Get(n)
			out.files[n] = c
		}
		if r.err != nil {
			out.status, out.err = "error", r.err.Error()
			if strings.HasPrefix(r.err.Error(), "panic:") {
				out.status = "panic"
			}
			return out
		}
		out.status = "ok"
		out.fixes = int(r.rep.TotalFixes())
		return out
	case <-time.After(12 * time.Second):
		return fixOutcome{status: "timeout", files: map[string]string{}}
	}
}

func normModule(m *ast.Module) {
	ast.WalkRules(m, func(r *ast.Rule) bool {
		r.Head.Assign = true
		return false
	})
}

func commentTexts(m *ast.Module) []string {
	out := []string{}
	for _, c := range m.Comments {
		out = append(out, strings.TrimPrefix(string(c.Text), " "))
	}
	return out
}

func lintFixable(files map[string]string, enable []string) ([]string, error) {
	in, err := inputOfMap(files)
	if err != nil {
		return nil, err
	}
	l := linter.NewLinter().WithDisableAll(true).WithEnabledRules(enable...).WithInputModules(&in)
	rep, err := l.Lint(context.Background())
	if err != nil {
		return nil, err
	}
	out := []string{}
	for _, v := range rep.Violations {
		out = append(out, fmt.Sprintf("%s@%s:%d:%d", v.Title, v.Location.File, v.Location.Row, v.Location.Column))
	}
	sort.Strings(out)
	return out, nil
}

func inputOfMap(files map[string]string) (rules.Input, error) {
	fs := []kFile{}
	for k, v := range files {
		fs = append(fs, kFile{Name: k, Content: v})
	}
	sort.Slice(fs, func(i, j int) bool { return fs[i].Name < fs[j].Name })
	return inputOf(fs)
}

func init() {
	// the three text fixes, function level
	register("c11.textfix", func(req map[string]any) (any, error) {
		var fx fixes.Fix
		switch str(req, "fix") {
		case "useAssign":
			fx = &fixes.UseAssignmentOperator{}
		case "noWs":
			fx = &fixes.NoWhitespaceComment{}
		case "nonRaw":
			fx = &fixes.NonRawRegexPattern{}
		}
		loc := report.Location{Row: num(req, "row"), Column: num(req, "col"),
			End: &report.Position{Row: num(req, "row"), Column: num(req, "endCol")}}
		res, err := fx.Fix(&fixes.FixCandidate{Filename: "p.rego", Contents: str(req, "contents")},
			&fixes.RuntimeOptions{Locations: []report.Location{loc}})
		if err != nil {
			return map[string]any{"error": err.Error()}, nil
		}
		if len(res) == 0 {
			return map[string]any{"changed": false}, nil
		}
		return map[string]any{"changed": true, "contents": res[0].Contents}, nil
	})
	// whole fixer runs on in-memory workspaces, with the semantic oracle evaluated here (needs OPA's AST)
	register("c11.fix", func(req map[string]any) (any, error) {
		files := map[string]string{}
		fm, _ := req["files"].(map[string]any)
		for k, v := range fm {
			files[k] = v.(string)
		}
		enable := strs(req, "enable")
		root := str(req, "root")
		before, lerr := lintFixable(files, enable)
		if lerr != nil {
			return map[string]any{"status": "lint-rejects-input", "err": lerr.Error()}, nil
		}
		o := runFixer(files, enable, root)
		out := map[string]any{"status": o.status, "err": o.err, "fixes": o.fixes, "violationsBefore": before}
		if o.status != "ok" {
			return out, nil
		}
		out["files"] = o.files
		// --- C11: every file parses, AST equal modulo the documented effects
		byID := func(fs map[string]string) map[string][2]string {
			m := map[string][2]string{}
			for n, c := range fs {
				if mm := idRe.FindStringSubmatch(c); mm != nil {
					m[mm[1]] = [2]string{n, c}
				}
			}
			return m
		}
		b, a := byID(files), byID(o.files)
		problems := []string{}
		for id, bf := range b {
			af, ok := a[id]
			if !ok {
				problems = append(problems, "file id "+id+" missing after fix")
				continue
			}
			mb, err := parse.Module(bf[0], bf[1])
			if err != nil {
				continue
			}
			ma, err := parse.Module(af[0], af[1])
			if err != nil {
				problems = append(problems, fmt.Sprintf("id %s: does not parse after fix: %v", id, err))
				continue
			}
			normModule(mb)
			normModule(ma)
			if !mb.Equal(ma) {
				problems = append(problems, fmt.Sprintf("id %s: AST differs beyond '=' -> ':='", id))
			}
			cb, ca := commentTexts(mb), commentTexts(ma)
			if strings.Join(cb, "\x00") != strings.Join(ca, "\x00") {
				problems = append(problems, fmt.Sprintf("id %s: comments changed: %q -> %q", id, cb, ca))
			}
		}
		sort.Strings(problems)
		out["problems"] = problems
		// --- C12: nothing fixable left, second run is a no-op
		after, lerr := lintFixable(o.files, enable)
		if lerr != nil {
			out["relintError"] = lerr.Error()
		}
		out["violationsAfter"] = after
		o2 := runFixer(o.files, enable, root)
		out["secondStatus"] = o2.status
		same := o2.status == "ok" && len(o2.files) == len(o.files)
		if same {
			for k, v := range o.files {
				if o2.files[k] != v {
					same = false
				}
			}
		}
		out["secondRunNoop"] = same
		return out, nil
	})
}

var _ = json.Marshal
