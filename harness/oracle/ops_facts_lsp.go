package main

import (
	"fmt"
	"go/ast"
	"go/parser"
	"go/token"
	"os"
	"path/filepath"
	"sort"
	"strings"
)

// facts.lsp: every assignment to a field of the LanguageServer receiver in internal/lsp (non-test files), with the
// function it occurs in and whether it is lexically under a mutex (a `<x>.Lock()` call earlier in the same function
// with either a deferred Unlock or an Unlock call after the assignment). The C17 model treats the server's shared
// state as accessed atomically; the reviewed baseline (facts/c17_field_writes.json) lists the writes that exist.
func init() {
	register("facts.lsp", func(req map[string]any) (any, error) {
		dir := filepath.Join(repoDir(), "internal", "lsp")
		ents, err := os.ReadDir(dir)
		if err != nil {
			return nil, err
		}
		out := []string{}
		fset := token.NewFileSet()
		for _, e := range ents {
			if e.IsDir() || !strings.HasSuffix(e.Name(), ".go") || strings.HasSuffix(e.Name(), "_test.go") {
				continue
			}
			f, err := parser.ParseFile(fset, filepath.Join(dir, e.Name()), nil, 0)
			if err != nil {
				return nil, err
			}
			for _, d := range f.Decls {
				fd, ok := d.(*ast.FuncDecl)
				if !ok || fd.Recv == nil || len(fd.Recv.List) != 1 || fd.Body == nil {
					continue
				}
				star, ok := fd.Recv.List[0].Type.(*ast.StarExpr)
				if !ok {
					continue
				}
				id, ok := star.X.(*ast.Ident)
				if !ok || id.Name != "LanguageServer" || len(fd.Recv.List[0].Names) == 0 {
					continue
				}
				recv := fd.Recv.List[0].Names[0].Name
				// positions of Lock / Unlock calls and deferred unlocks in this function
				var locks, unlocks []token.Pos
				deferred := false
				ast.Inspect(fd.Body, func(n ast.Node) bool {
					switch x := n.(type) {
					case *ast.DeferStmt:
						if sel, ok := x.Call.Fun.(*ast.SelectorExpr); ok && (sel.Sel.Name == "Unlock" || sel.Sel.Name == "RUnlock") {
							deferred = true
						}
					case *ast.CallExpr:
						if sel, ok := x.Fun.(*ast.SelectorExpr); ok {
							switch sel.Sel.Name {
							case "Lock":
								locks = append(locks, x.Pos())
							case "Unlock":
								unlocks = append(unlocks, x.Pos())
							}
						}
					}
					return true
				})
				ast.Inspect(fd.Body, func(n ast.Node) bool {
					as, ok := n.(*ast.AssignStmt)
					if !ok {
						return true
					}
					for _, lhs := range as.Lhs {
						sel, ok := lhs.(*ast.SelectorExpr)
						if !ok {
							continue
						}
						x, ok := sel.X.(*ast.Ident)
						if !ok || x.Name != recv {
							continue
						}
						guarded := false
						for _, lp := range locks {
							if lp < as.Pos() {
								if deferred {
									guarded = true
								}
								for _, up := range unlocks {
									if up > as.Pos() {
										guarded = true
									}
								}
							}
						}
						g := "unguarded"
						if guarded {
							g = "under-lock"
						}
						out = append(out, fmt.Sprintf("%s.%s %s", fd.Name.Name, sel.Sel.Name, g))
					}
					return true
				})
			}
		}
		sort.Strings(out)
		// collapse duplicates with counts
		res := []string{}
		for i := 0; i < len(out); {
			j := i
			for j < len(out) && out[j] == out[i] {
				j++
			}
			res = append(res, fmt.Sprintf("%s x%d", out[i], j-i))
			i = j
		}
		return res, nil
	})
}
