package main

import (
	"fmt"
	"go/ast"
	"go/parser"
	"go/token"
	"os"
	"path/filepath"
	"sort"
	"strings"
)

// facts.lsp: every assignment to a field of the LanguageServer receiver in internal/lsp (non-test files), with the
// function it occurs in and whether it is lexically under a mutex (a `<x>.Lock()` call earlier in the same function
// with either a deferred Unlock or an Unlock call after the assignment). The C17 model treats the server's shared
// state as accessed atomically; the reviewed baseline (facts/c17_field_writes.json) lists the writes that exist.
func init() {
	register("facts.lsp", func(req map[string]any) (any, error) {
		dir := filepath.Join(repoDir(), "internal", "lsp")
		ents, err := os.ReadDir(dir)
		if err != nil {
			return nil, err
		}
		out := []string{}
		fset := token.NewFileSet()
		for _, e := range ents {
			if e.IsDir() || !strings.HasSuffix(e.Name(), ".go") || strings.HasSuffix(e.Name(), "_test.go") {
				continue
			}
			f, err := parser.ParseFile(fset, filepath.Join(dir, e.Name()), nil, 0)
			if err != nil {
				return nil, err
			}
			for _, d := range f.Decls {
				fd, ok := d.(*ast.FuncDecl)
				if !ok || fd.Recv == nil || len(fd.Recv.List) != 1 || fd.Body == nil {
					continue
				}
				star, ok := fd.Recv.List[0].Type.(*ast.StarExpr)
				if !ok {
					continue
				}
				id, ok := star.X.(*ast.Ident)
				if !ok || id.Name != "LanguageServer" || len(fd.Recv.List[0].Names) == 0 {
					continue
				}
				recv := fd.Recv.List[0].Names[0].Name
				// positions of Lock / Unlock calls and deferred unlocks in this function
				var locks, unlocks []token.Pos
				deferred := false
				ast.Inspect(fd.Body, func(n ast.Node) bool {
					switch x := n.(type) {
					case *ast.DeferStmt:
						if sel, ok := x.Call.Fun.(*ast.SelectorExpr); ok && (sel.Sel.Name == "Unlock" || sel.Sel.Name == "RUnlock") {
							deferred = true
						}
					case *ast.CallExpr:
						if sel, ok := x.Fun.(*ast.SelectorExpr); ok {
							switch sel.Sel.Name {
							case "Lock":
								locks = append(locks, x.Pos())
							case "Unlock":
								unlocks = append(unlocks, x.Pos())
							}
						}
					}
					return true
				})
				ast.Inspect(fd.Body, func(n ast.Node) bool {
					as, ok := n.(*ast.AssignStmt)
					if !ok {
						return true
					}
					for _, lhs := range as.Lhs {
						sel, ok := lhs.(*ast.SelectorExpr)
						if !ok {
							continue
						}
						x, ok := sel.X.(*ast.Ident)
						if !ok || x.Name != recv {
							continue
						}
						guarded := false
						for _, lp := range locks {
							if lp < as.Pos() {
								if deferred {
									guarded = true
								}
								for _, up := range unlocks {
									if up > as.Pos() {
										guarded = true
									}
								}
							}
						}
						g := "unguarded"
						if guarded {
							g = "under-lock"
						}
						out = append(out, fmt.Sprintf("%s.%s %s", fd.Name.Name, sel.Sel.Name, g))
					}
					return true
				})
			}
		}
		sort.Strings(out)
		// collapse duplicates with counts
		res := []string{}
		for i := 0; i < len(out); {
			j := i
			for j < len(out) && out[j] == out[i] {
				j++
			}
			res = append(res, fmt.Sprintf("%s x%d", out[i], j-i))
			i = j
		}
		return res, nil
	})
}

// facts.goroutines: for the named function of a file, every variable that a `go func` literal captures from the
// enclosing function and WRITES (assignment, field/index assignment, ++/--, append to it) before the first
// `<x>.Lock()` of the literal — i.e. shared state written without the lock. The kernel model treats parsing /
// evaluating one file as a pure function of that file; the expectation is the empty list.
func capturedWritesOutsideLock(path, fn string) ([]string, error) {
	fset := token.NewFileSet()
	f, err := parser.ParseFile(fset, path, nil, 0)
	if err != nil {
		return nil, err
	}
	out := []string{}
	for _, d := range f.Decls {
		fd, ok := d.(*ast.FuncDecl)
		if !ok || fd.Name.Name != fn || fd.Body == nil {
			continue
		}
		ast.Inspect(fd.Body, func(n ast.Node) bool {
			gs, ok := n.(*ast.GoStmt)
			if !ok {
				return true
			}
			lit, ok := gs.Call.Fun.(*ast.FuncLit)
			if !ok {
				return true
			}
			// names declared inside the literal (params, :=, var)
			local := map[string]bool{}
			for _, p := range lit.Type.Params.List {
				for _, nm := range p.Names {
					local[nm.Name] = true
				}
			}
			var lockPos token.Pos
			ast.Inspect(lit.Body, func(x ast.Node) bool {
				switch y := x.(type) {
				case *ast.AssignStmt:
					if y.Tok == token.DEFINE {
						for _, l := range y.Lhs {
							if id, ok := l.(*ast.Ident); ok {
								local[id.Name] = true
							}
						}
					}
				case *ast.ValueSpec:
					for _, nm := range y.Names {
						local[nm.Name] = true
					}
				case *ast.RangeStmt:
					if y.Tok == token.DEFINE {
						for _, e := range []ast.Expr{y.Key, y.Value} {
							if id, ok := e.(*ast.Ident); ok {
								local[id.Name] = true
							}
						}
					}
				case *ast.CallExpr:
					if sel, ok := y.Fun.(*ast.SelectorExpr); ok && sel.Sel.Name == "Lock" && lockPos == 0 {
						lockPos = y.Pos()
					}
				}
				return true
			})
			root := func(e ast.Expr) string {
				for {
					switch y := e.(type) {
					case *ast.Ident:
						return y.Name
					case *ast.SelectorExpr:
						e = y.X
					case *ast.IndexExpr:
						e = y.X
					case *ast.StarExpr:
						e = y.X
					case *ast.ParenExpr:
						e = y.X
					default:
						return ""
					}
				}
			}
			ast.Inspect(lit.Body, func(x ast.Node) bool {
				var targets []ast.Expr
				var pos token.Pos
				switch y := x.(type) {
				case *ast.AssignStmt:
					if y.Tok != token.DEFINE {
						targets, pos = y.Lhs, y.Pos()
					}
				case *ast.IncDecStmt:
					targets, pos = []ast.Expr{y.X}, y.Pos()
				}
				for _, t := range targets {
					r := root(t)
					if r == "" || r == "_" || local[r] {
						continue
					}
					if lockPos != 0 && pos > lockPos {
						continue
					}
					out = append(out, fmt.Sprintf("%s:%d %s", filepath.Base(path), fset.Position(pos).Line, r))
				}
				return true
			})
			return true
		})
	}
	sort.Strings(out)
	return out, nil
}

func init() {
	register("facts.goroutines", func(req map[string]any) (any, error) {
		res := map[string]any{}
		for _, t := range [][2]string{{"pkg/rules/rules.go", "InputFromPaths"}, {"pkg/linter/linter.go", "lintWithRegoRules"}} {
			l, err := capturedWritesOutsideLock(filepath.Join(repoDir(), t[0]), t[1])
			if err != nil {
				return nil, err
			}
			res[t[0]+":"+t[1]] = l
		}
		return res, nil
	})
}

// facts.lspstores: the tie of the LspCache model's ONE-step "re-check and store" (Model/LspCache.lean, `step true`) to
// the code: (1) every `cache.Set*` call in the three functions of internal/lsp/lint.go that store parse / lint results,
// with whether it is lexically inside a function literal passed to `cache.IfPresent`; (2) which methods of
// internal/lsp/cache.Cache take `deleteMu`; (3) whether sendFileDiagnostics takes publishLock.
func init() {
	register("facts.lspstores", func(req map[string]any) (any, error) {
		out := []string{}
		fset := token.NewFileSet()
		f, err := parser.ParseFile(fset, filepath.Join(repoDir(), "internal", "lsp", "lint.go"), nil, 0)
		if err != nil {
			return nil, err
		}
		isCacheCall := func(c *ast.CallExpr, prefix string) (string, bool) {
			sel, ok := c.Fun.(*ast.SelectorExpr)
			if !ok {
				return "", false
			}
			id, ok := sel.X.(*ast.Ident)
			if !ok || id.Name != "cache" || !strings.HasPrefix(sel.Sel.Name, prefix) {
				return "", false
			}
			return sel.Sel.Name, true
		}
		for _, d := range f.Decls {
			fd, ok := d.(*ast.FuncDecl)
			if !ok || fd.Body == nil {
				continue
			}
			switch fd.Name.Name {
			case "updateParse", "updateFileDiagnostics", "updateAllDiagnostics":
			default:
				continue
			}
			// ranges of function literals passed to cache.IfPresent
			type span struct{ lo, hi token.Pos }
			var guarded []span
			ast.Inspect(fd.Body, func(n ast.Node) bool {
				if c, ok := n.(*ast.CallExpr); ok {
					if _, ok := isCacheCall(c, "IfPresent"); ok {
						for _, a := range c.Args {
							if fl, ok := a.(*ast.FuncLit); ok {
								guarded = append(guarded, span{fl.Pos(), fl.End()})
							}
						}
					}
				}
				return true
			})
			ast.Inspect(fd.Body, func(n ast.Node) bool {
				if c, ok := n.(*ast.CallExpr); ok {
					if name, ok := isCacheCall(c, "Set"); ok {
						in := false
						for _, g := range guarded {
							if c.Pos() >= g.lo && c.End() <= g.hi {
								in = true
							}
						}
						out = append(out, fmt.Sprintf("lint.go:%s %s guarded=%v", fd.Name.Name, name, in))
					}
				}
				return true
			})
		}
		locksField := func(path, recvType, field string) (map[string]bool, error) {
			f, err := parser.ParseFile(fset, path, nil, 0)
			if err != nil {
				return nil, err
			}
			res := map[string]bool{}
			for _, d := range f.Decls {
				fd, ok := d.(*ast.FuncDecl)
				if !ok || fd.Recv == nil || fd.Body == nil || len(fd.Recv.List) != 1 {
					continue
				}
				star, ok := fd.Recv.List[0].Type.(*ast.StarExpr)
				if !ok {
					continue
				}
				if id, ok := star.X.(*ast.Ident); !ok || id.Name != recvType {
					continue
				}
				ast.Inspect(fd.Body, func(n ast.Node) bool {
					if c, ok := n.(*ast.CallExpr); ok {
						if sel, ok := c.Fun.(*ast.SelectorExpr); ok && sel.Sel.Name == "Lock" {
							if inner, ok := sel.X.(*ast.SelectorExpr); ok && inner.Sel.Name == field {
								res[fd.Name.Name] = true
							}
						}
					}
					return true
				})
			}
			return res, nil
		}
		m, err := locksField(filepath.Join(repoDir(), "internal", "lsp", "cache", "cache.go"), "Cache", "deleteMu")
		if err != nil {
			return nil, err
		}
		for k := range m {
			out = append(out, "cache.go:"+k+" locks deleteMu")
		}
		m, err = locksField(filepath.Join(repoDir(), "internal", "lsp", "server.go"), "LanguageServer", "publishLock")
		if err != nil {
			return nil, err
		}
		for k := range m {
			out = append(out, "server.go:"+k+" locks publishLock")
		}
		sort.Strings(out)
		return out, nil
	})
}
