package main

import (
	"fmt"
	"go/ast"
	"go/parser"
	"go/token"
	"os"
	"path/filepath"
	"sort"
	"strings"
)

// facts.lsp: every assignment to a field of the LanguageServer receiver in internal/lsp (non-test files), with the
// function it occurs in and whether it is lexically under a mutex (a `<x>.Lock()` call earlier in the same function
// with either a deferred Unlock or an Unlock call after the assignment). The C17 model treats the server's shared
// state as accessed atomically; the reviewed baseline (facts/c17_field_writes.json) lists the writes that exist.
func init() {
	register("facts.lsp", func(req map[string]any) (any, error) {
		dir := filepath.Join(repoDir(), "internal", "lsp")
		ents, err := os.ReadDir(dir)
		if err != nil {
			return nil, err
		}
		out := []string{}
		fset := token.NewFileSet()
		for _, e := range ents {
			if e.IsDir() || !strings.HasSuffix(e.Name(), ".go") || strings.HasSuffix(e.Name(), "_test.go") {
				continue
			}
			f, err := parser.ParseFile(fset, filepath.Join(dir, e.Name()), nil, 0)
			if err != nil {
				return nil, err
			}
			for _, d := range f.Decls {
				fd, ok := d.(*ast.FuncDecl)
				if !ok || fd.Recv == nil || len(fd.Recv.List) != 1 || fd.Body == nil {
					continue
				}
				star, ok := fd.Recv.List[0].Type.(*ast.StarExpr)
				if !ok {
					continue
				}
				id, ok := star.X.(*ast.Ident)
				if !ok || id.Name != "LanguageServer" || len(fd.Recv.List[0].Names) == 0 {
					continue
				}
				recv := fd.Recv.List[0].Names[0].Name
				// positions of Lock / Unlock calls and deferred unlocks in this function
				var locks, unlocks []token.Pos
				deferred := false
				ast.Inspect(fd.Body, func(n ast.Node) bool {
					switch x := n.(type) {
					case *ast.DeferStmt:
						if sel, ok := x.Call.Fun.(*ast.SelectorExpr); ok && (sel.Sel.Name == "Unlock" || sel.Sel.Name == "RUnlock") {
							deferred = true
						}
					case *ast.CallExpr:
						if sel, ok := x.Fun.(*ast.SelectorExpr); ok {
							switch sel.Sel.Name {
							case "Lock":
								locks = append(locks, x.Pos())
							case "Unlock":
								unlocks = append(unlocks, x.Pos())
							}
						}
					}
					return true
				})
				ast.Inspect(fd.Body, func(n ast.Node) bool {
					as, ok := n.(*ast.AssignStmt)
					if !ok {
						return true
					}
					for _, lhs := range as.Lhs {
						sel, ok := lhs.(*ast.SelectorExpr)
						if !ok {
							continue
						}
						x, ok := sel.X.(*ast.Ident)
						if !ok || x.Name != recv {
							continue
						}
						guarded := false
						for _, lp := range locks {
							if lp < as.Pos() {
								if deferred {
									guarded = true
								}
								for _, up := range unlocks {
									if up > as.Pos() {
										guarded = true
									}
								}
							}
						}
						g := "unguarded"
						if guarded {
							g = "under-lock"
						}
						out = append(out, fmt.Sprintf("%s.%s %s", fd.Name.Name, sel.Sel.Name, g))
					}
					return true
				})
			}
		}
		sort.Strings(out)
		// collapse duplicates with counts
		res := []string{}
		for i := 0; i < len(out); {
			j := i
			for j < len(out) && out[j] == out[i] {
				j++
			}
			res = append(res, fmt.Sprintf("%s x%d", out[i], j-i))
			i = j
		}
		return res, nil
	})
}

// facts.goroutines: for the named function of a file, every variable that a `go func` literal captures from the
// enclosing function and WRITES (assignment, field/index assignment, ++/--, append to it) before the first
// `<x>.Lock()` of the literal — i.e. shared state written without the lock. The kernel model treats parsing /
// evaluating one file as a pure function of that file; the expectation is the empty list.
func capturedWritesOutsideLock(path, fn string) ([]string, error) {
	fset := token.NewFileSet()
	f, err := parser.ParseFile(fset, path, nil, 0)
	if err != nil {
		return nil, err
	}
	out := []string{}
	for _, d := range f.Decls {
		fd, ok := d.(*ast.FuncDecl)
		if !ok || fd.Name.Name != fn || fd.Body == nil {
			continue
		}
		ast.Inspect(fd.Body, func(n ast.Node) bool {
			gs, ok := n.(*ast.GoStmt)
			if !ok {
				return true
			}
			lit, ok := gs.Call.Fun.(*ast.FuncLit)
			if !ok {
				return true
			}
			// names declared inside the literal (params, :=, var)
			local := map[string]bool{}
			for _, p := range lit.Type.Params.List {
				for _, nm := range p.Names {
					local[nm.Name] = true
				}
			}
			var lockPos token.Pos
			ast.Inspect(lit.Body, func(x ast.Node) bool {
				switch y := x.(type) {
				case *ast.AssignStmt:
					if y.Tok == token.DEFINE {
						for _, l := range y.Lhs {
							if id, ok := l.(*ast.Ident); ok {
								local[id.Name] = true
							}
						}
					}
				case *ast.ValueSpec:
					for _, nm := range y.Names {
						local[nm.Name] = true
					}
				case *ast.RangeStmt:
					if y.Tok == token.DEFINE {
						for _, e := range []ast.Expr{y.Key, y.Value} {
							if id, ok := e.(*ast.Ident); ok {
								local[id.Name] = true
							}
						}
					}
				case *ast.CallExpr:
					if sel, ok := y.Fun.(*ast.SelectorExpr); ok && sel.Sel.Name == "Lock" && lockPos == 0 {
						lockPos = y.Pos()
					}
				}
				return true
			})
			root := func(e ast.Expr) string {
				for {
					switch y := e.(type) {
					case *ast.Ident:
						return y.Name
					case *ast.SelectorExpr:
						e = y.X
					case *ast.IndexExpr:
						e = y.X
					case *ast.StarExpr:
						e = y.X
					case *ast.ParenExpr:
						e = y.X
					default:
						return ""
					}
				}
			}
			ast.Inspect(lit.Body, func(x ast.Node) bool {
				var targets []ast.Expr
				var pos token.Pos
				switch y := x.(type) {
				case *ast.AssignStmt:
					if y.Tok != token.DEFINE {
						targets, pos = y.Lhs, y.Pos()
					}
				case *ast.IncDecStmt:
					targets, pos = []ast.Expr{y.X}, y.Pos()
				}
				for _, t := range targets {
					r := root(t)
					if r == "" || r == "_" || local[r] {
						continue
					}
					if lockPos != 0 && pos > lockPos {
						continue
					}
					out = append(out, fmt.Sprintf("%s:%d %s", filepath.Base(path), fset.Position(pos).Line, r))
				}
				return true
			})
			return true
		})
	}
	sort.Strings(out)
	return out, nil
}

func init() {
	register("facts.goroutines", func(req map[string]any) (any, error) {
		res := map[string]any{}
		for _, t := range [][2]string{{"pkg/rules/rules.go", "InputFromPaths"}, {"pkg/linter/linter.go", "lintWithRegoRules"}} {
			l, err := capturedWritesOutsideLock(filepath.Join(repoDir(), t[0]), t[1])
			if err != nil {
				return nil, err
			}
			res[t[0]+":"+t[1]] = l
		}
		return res, nil
	})
}
