package main

import (
	"encoding/json"
	"os"
	"path/filepath"
	"reflect"
	"strings"

	"gopkg.in/yaml.v3"

	rbundle "github.com/styrainc/regal/bundle"
	"github.com/styrainc/regal/pkg/config"
)

func init() {
	// FindConfig on a real chain of directories; levels[0] is the start directory (nearest)
	register("c18.find", func(req map[string]any) (any, error) {
		root, err := os.MkdirTemp("", "verif-c18-")
		if err != nil {
			return nil, err
		}
		defer os.RemoveAll(root)
		root, _ = filepath.EvalSymlinks(root)
		levels := toAnySlice(req["levels"])
		n := len(levels)
		// directory of level i: root/l{n-1}/.../l{i}
		dirs := make([]string, n)
		cur := root
		for i := n - 1; i >= 0; i-- {
			cur = filepath.Join(cur, "l"+string(rune('0'+i)))
			dirs[i] = cur
		}
		if err := os.MkdirAll(dirs[0], 0o755); err != nil {
			return nil, err
		}
		symlinks := boolv(req, "symlinks")
		for i, l := range levels {
			m := l.(map[string]any)
			if boolv(m, "regalDir") {
				target := filepath.Join(dirs[i], ".regal")
				if symlinks {
					// the directory lives elsewhere (a shared configuration) and is linked into place
					target = filepath.Join(root, "store", "d"+string(rune('0'+i)))
				}
				_ = os.MkdirAll(target, 0o755)
				if boolv(m, "configYaml") {
					_ = os.WriteFile(filepath.Join(target, "config.yaml"), []byte("rules: {}\n"), 0o600)
				}
				if symlinks {
					_ = os.Symlink(target, filepath.Join(dirs[i], ".regal"))
				}
			}
			if boolv(m, "regalYaml") {
				target := filepath.Join(dirs[i], ".regal.yaml")
				if symlinks {
					_ = os.MkdirAll(filepath.Join(root, "store"), 0o755)
					target = filepath.Join(root, "store", "f"+string(rune('0'+i))+".yaml")
				}
				_ = os.WriteFile(target, []byte("rules: {}\n"), 0o600)
				if symlinks {
					_ = os.Symlink(target, filepath.Join(dirs[i], ".regal.yaml"))
				}
			}
		}
		start := dirs[0]
		if boolv(req, "fromFile") {
			start = filepath.Join(dirs[0], "p.rego")
			_ = os.WriteFile(start, []byte("package p\n"), 0o600)
		}
		f, err := config.FindConfig(start)
		if err != nil {
			switch {
			case strings.Contains(err.Error(), "conflicting"):
				return "errConflict", nil
			case strings.Contains(err.Error(), "not found in .regal"):
				return "errMissing", nil
			case strings.Contains(err.Error(), "could not find"):
				return "errNotFound", nil
			}
			return "error:" + err.Error(), nil
		}
		defer f.Close()
		name := f.Name()
		for i, d := range dirs {
			if name == filepath.Join(d, ".regal", "config.yaml") {
				return map[string]any{"kind": "dir", "depth": i}, nil
			}
			if name == filepath.Join(d, ".regal.yaml") {
				return map[string]any{"kind": "file", "depth": i}, nil
			}
		}
		return "other:" + strings.TrimPrefix(name, root), nil
	})
	// merge over the real defaults: what happened to each rule's options
	register("c18.merge", func(req map[string]any) (any, error) {
		raw, _ := json.Marshal(req["user"])
		uc, err := userConfig(raw)
		if err != nil {
			return map[string]any{"error": err.Error()}, nil
		}
		def, err := config.LoadConfigWithDefaultsFromBundle(&rbundle.LoadedBundle, nil)
		if err != nil {
			return nil, err
		}
		merged, err := config.LoadConfigWithDefaultsFromBundle(&rbundle.LoadedBundle, uc)
		if err != nil {
			return map[string]any{"error": err.Error()}, nil
		}
		dm, mm := config.ToMap(def), config.ToMap(merged)
		return map[string]any{"default": dm["rules"], "merged": mm["rules"], "ignore": mm["ignore"]}, nil
	})
	// dump a loaded configuration and load it again
	register("c18.roundtrip", func(req map[string]any) (any, error) {
		raw, _ := json.Marshal(req["user"])
		uc, err := userConfig(raw)
		if err != nil {
			return map[string]any{"error": err.Error()}, nil
		}
		bs, err := yaml.Marshal(uc)
		if err != nil {
			return map[string]any{"error": "marshal: " + err.Error()}, nil
		}
		var back config.Config
		if err := yaml.Unmarshal(bs, &back); err != nil {
			return map[string]any{"error": "reload: " + err.Error(), "yaml": string(bs)}, nil
		}
		a, b := config.ToMap(*uc), config.ToMap(back)
		diff := []string{}
		for _, k := range []string{"rules", "ignore", "project", "capabilities", "capabilities_url", "features"} {
			if !reflect.DeepEqual(a[k], b[k]) {
				diff = append(diff, k)
			}
		}
		defaultsEqual := reflect.DeepEqual(uc.Defaults, back.Defaults) ||
			(len(uc.Defaults.Categories) == 0 && len(back.Defaults.Categories) == 0 && uc.Defaults.Global == back.Defaults.Global)
		if !defaultsEqual {
			diff = append(diff, "defaults")
		}
		return map[string]any{"diff": diff, "yaml": string(bs)}, nil
	})
}
