package main

import (
	"time"

	"encoding/json"
	"github.com/styrainc/regal/internal/lsp/clients"
	"github.com/styrainc/regal/internal/lsp/uri"
	"os"
	"path/filepath"
	"sort"
	"strings"
	"sync"

	"github.com/open-policy-agent/opa/v1/ast"

	"github.com/styrainc/regal/pkg/config"
	"github.com/styrainc/regal/pkg/rules"
)

func verName(v ast.RegoVersion) string {
	switch v {
	case ast.RegoV0:
		return "v0"
	case ast.RegoV1:
		return "v1"
	case ast.RegoV0CompatV1:
		return "v0v1"
	case ast.RegoUndefined:
		return "undefined"
	}
	return "other"
}

func verOf(n float64) ast.RegoVersion {
	if n == 0 {
		return ast.RegoV0
	}
	return ast.RegoV1
}

var chdirMu sync.Mutex

func init() {
	// pure lookup
	register("c20.lookup", func(req map[string]any) (any, error) {
		m := map[string]ast.RegoVersion{}
		vs, _ := req["versions"].(map[string]any)
		for k, v := range vs {
			m[k] = verOf(v.(float64))
		}
		// the map is iterated in random order: repeat to expose order dependence
		seen := map[string]bool{}
		for i := 0; i < 12; i++ {
			seen[verName(rules.RegoVersionFromVersionsMap(m, str(req, "file"), ast.RegoUndefined))] = true
		}
		out := []string{}
		for k := range seen {
			out = append(out, k)
		}
		sort.Strings(out)
		return out, nil
	})
	// a real tree: config roots, .manifest files; which version is each file parsed with, however spelled
	register("c20.tree", func(req map[string]any) (any, error) {
		root, err := os.MkdirTemp("", "verif-c20-")
		if err != nil {
			return nil, err
		}
		defer os.RemoveAll(root)
		root, _ = filepath.EvalSymlinks(root)
		files, _ := req["files"].(map[string]any) // relative path -> content
		for rel, c := range files {
			p := filepath.Join(root, rel)
			if err := os.MkdirAll(filepath.Dir(p), 0o755); err != nil {
				return nil, err
			}
			if err := os.WriteFile(p, []byte(c.(string)), 0o600); err != nil {
				return nil, err
			}
		}
		raw, _ := json.Marshal(req["config"])
		conf, err := userConfig(raw)
		if err != nil {
			return map[string]any{"error": err.Error()}, nil
		}
		if conf == nil {
			conf = &config.Config{}
		}
		vm, err := config.AllRegoVersions(root, conf)
		if err != nil {
			return map[string]any{"error": err.Error()}, nil
		}
		vmOut := map[string]string{}
		for k, v := range vm {
			vmOut[k] = verName(v)
		}
		out := map[string]any{"versionsMap": vmOut}
		regoFiles := []string{}
		for rel := range files {
			if strings.HasSuffix(rel, ".rego") {
				regoFiles = append(regoFiles, rel)
			}
		}
		sort.Strings(regoFiles)
		res := map[string]any{}
		chdirMu.Lock()
		defer chdirMu.Unlock()
		cwd, _ := os.Getwd()
		defer os.Chdir(cwd) //nolint:errcheck
		if err := os.Chdir(root); err != nil {
			return nil, err
		}
		for _, rel := range regoFiles {
			r := map[string]string{}
			// every spelling names the same file; the working directory differs too (a relative name is relative
			// to the working directory, not to the project root)
			type sp struct{ name, cwd, path string }
			sps := []sp{
				{"relative", root, rel},
				{"absolute", root, filepath.Join(root, rel)},
				{"dot-relative", root, "./" + rel},
				{"from-file-dir", filepath.Dir(filepath.Join(root, rel)), filepath.Base(rel)},
				{"from-parent", filepath.Dir(root), filepath.Join(filepath.Base(root), rel)},
			}
			for _, x := range sps {
				if err := os.Chdir(x.cwd); err != nil {
					return nil, err
				}
				in, err := rules.InputFromPaths([]string{x.path}, root, vm)
				if err != nil {
					r[x.name] = "parse-error"
					continue
				}
				for _, m := range in.Modules {
					r[x.name] = verName(m.RegoVersion())
				}
			}
			res[rel] = r
		}
		out["files"] = res
		return out, nil
	})
	// the same question asked of the language server: a real server is started on the tree (it loads the config and
	// the manifests during initialize), then the version it would parse each document with is read for the URI the
	// given client flavour sends for that path (uri.FromPath percent-encodes directory names)
	register("c20.lsp", func(req map[string]any) (any, error) {
		base, err := os.MkdirTemp("", "verif-c20l-")
		if err != nil {
			return nil, err
		}
		defer os.RemoveAll(base)
		base, _ = filepath.EvalSymlinks(base)
		root := filepath.Join(base, "w")
		files := toStrMap(req["files"])
		if cfg, ok := req["config"]; ok && cfg != nil {
			raw, _ := json.Marshal(cfg)
			files[".regal/config.yaml"] = string(raw) // JSON is YAML
		}
		if err := writeTree(root, files); err != nil {
			return nil, err
		}
		s, err := startLSP(root, str(req, "client"))
		if err != nil {
			return map[string]any{"error": err.Error()}, nil
		}
		defer s.cancel()
		s.waitIdle(600*time.Millisecond, 20*time.Second)
		res := map[string]string{}
		for rel := range files {
			if !strings.HasSuffix(rel, ".rego") {
				continue
			}
			u := uri.FromPath(clients.Identifier(s.ls.VerifClient()), filepath.Join(root, rel))
			res[rel] = s.ls.VerifRegoVersionForURI(u)
		}
		return map[string]any{"files": res}, nil
	})
}
