package main

import (
	"sort"

	"github.com/gobwas/glob"

	"github.com/styrainc/regal/pkg/config"
)

func init() {
	// the pattern lists of both sides.  Rego: asked directly.  Go: excludeFile does not expose
	// its list, so the harness observes it through behaviour in c05.exclude; here only Rego.
	register("c05.patterns", func(req map[string]any) (any, error) {
		v, ok, err := evalRego(`x := data.regal.config._pattern_compiler(input.pattern)`, "", nil,
			map[string]any{"pattern": str(req, "pattern")})
		if err != nil {
			return nil, err
		}
		if !ok {
			return map[string]any{"rego": nil}, nil
		}
		l := toStrings(v)
		sort.Strings(l)
		return map[string]any{"rego": l}, nil
	})
	// relativisation as done by main.rego
	register("c05.rel", func(req map[string]any) (any, error) {
		in := map[string]any{"file": str(req, "file"), "prefix": str(req, "prefix")}
		v, ok, err := evalRego(`x := data.regal.main._file_name_relative_to_root(input.file, input.prefix)`, "", nil, in)
		if err != nil {
			return nil, err
		}
		out := map[string]any{}
		if ok {
			out["rego"] = v
		} else {
			out["rego"] = nil
		}
		return out, nil
	})
	// behavioural comparison: does pattern exclude file (with prefix)?  Go: excludeFile via
	// FilterIgnoredPaths (includes the prefix normalisation) ; Rego: _exclude on the relativised name.
	register("c05.exclude", func(req map[string]any) (any, error) {
		pattern, file, prefix := str(req, "pattern"), str(req, "file"), str(req, "prefix")
		out := map[string]any{}
		kept, err := config.FilterIgnoredPaths([]string{file}, []string{pattern}, false, prefix)
		if err != nil {
			out["go"] = "error"
		} else {
			out["go"] = len(kept) == 0
		}
		if pattern != "" {
			p := prefix
			if p != "" && p[len(p)-1] != '/' {
				p += "/"
			}
			d, err := config.VerifExcludeFile(pattern, file, p)
			if err != nil {
				out["goDirect"] = "error"
			} else {
				out["goDirect"] = d
			}
		}
		in := map[string]any{"file": file, "prefix": prefix, "pattern": pattern}
		v, ok, err := evalRego(
			`x := data.regal.config._exclude(input.pattern, data.regal.main._file_name_relative_to_root(input.file, input.prefix))`,
			"", nil, in)
		switch {
		case err != nil:
			out["rego"] = "error"
		case !ok:
			out["rego"] = false
		default:
			out["rego"] = v
		}
		return out, nil
	})
	// the model's matcher parameter instantiated with the real gobwas matcher:
	// given candidate pattern lists (from the Lean model) decide any-match.
	register("c05.globany", func(req map[string]any) (any, error) {
		file := str(req, "file")
		for _, p := range strs(req, "patterns") {
			g, err := glob.Compile(p, '/')
			if err != nil {
				return "error", nil
			}
			if g.Match(file) {
				return true, nil
			}
		}
		return false, nil
	})
	// filterPaths over a list
	register("c05.filter", func(req map[string]any) (any, error) {
		kept, err := config.FilterIgnoredPaths(strs(req, "paths"), strs(req, "ignore"), false, str(req, "prefix"))
		if err != nil {
			return "error", nil
		}
		return kept, nil
	})
}

func toStrings(v any) []string {
	a, _ := v.([]any)
	out := make([]string, 0, len(a))
	for _, x := range a {
		s, _ := x.(string)
		out = append(out, s)
	}
	return out
}
