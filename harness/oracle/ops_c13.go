package main

import (
	"errors"
	"os"
	"path/filepath"
	"sort"
	"strings"

	"github.com/styrainc/regal/internal/util"
	"github.com/styrainc/regal/pkg/fixer"
	"github.com/styrainc/regal/pkg/fixer/fileprovider"
)

func init() {
	// random operation sequences on the REAL in-memory file provider
	register("c13.provider", func(req map[string]any) (any, error) {
		files := map[string]string{}
		init_, _ := req["files"].(map[string]any)
		for k, v := range init_ {
			files[k] = v.(string)
		}
		fp := fileprovider.NewInMemoryFileProvider(files)
		results := []string{}
		for _, o := range toAnySlice(req["ops"]) {
			op := o.(map[string]any)
			switch str(op, "k") {
			case "put":
				// the fixer only Puts a file it has just read
				if _, err := fp.Get(str(op, "f")); err != nil {
					results = append(results, "skip")
					continue
				}
				_ = fp.Put(str(op, "f"), str(op, "c"))
				results = append(results, "ok")
			case "rename":
				err := fp.Rename(str(op, "s"), str(op, "d"))
				var ce fileprovider.RenameConflictError
				switch {
				case err == nil:
					results = append(results, "ok")
				case errors.As(err, &ce):
					results = append(results, "conflict")
				default:
					results = append(results, "error")
				}
			}
		}
		list, _ := fp.List()
		sort.Strings(list)
		out := [][]string{}
		for _, f := range list {
			c, _ := fp.Get(f)
			out = append(out, []string{f, c})
		}
		mod, del := fp.ModifiedFiles(), fp.DeletedFiles()
		sort.Strings(mod)
		sort.Strings(del)
		return map[string]any{"files": out, "modified": mod, "deleted": del, "results": results}, nil
	})
	register("c13.candidate", func(req map[string]any) (any, error) {
		n := str(req, "name")
		out := []string{}
		for i := 0; i < num(req, "iter"); i++ {
			n = fixer.VerifRenameCandidate(n)
			out = append(out, n)
		}
		return out, nil
	})
	register("c13.root", func(req map[string]any) (any, error) {
		return util.FindClosestMatchingRoot(str(req, "path"), strs(req, "roots")), nil
	})
	// DirCleanUpPaths on a real temp tree; the oracle checks that the returned directories are removable in order
	register("c13.cleanup", func(req map[string]any) (any, error) {
		root, err := os.MkdirTemp("", "verif-c13-")
		if err != nil {
			return nil, err
		}
		defer os.RemoveAll(root)
		for _, f := range strs(req, "files") {
			p := filepath.Join(root, f)
			_ = os.MkdirAll(filepath.Dir(p), 0o755)
			_ = os.WriteFile(p, []byte("x"), 0o600)
		}
		for _, d := range strs(req, "dirs") {
			_ = os.MkdirAll(filepath.Join(root, d), 0o755)
		}
		preserve := []string{}
		for _, p := range strs(req, "preserve") {
			preserve = append(preserve, filepath.Join(root, p))
		}
		target := filepath.Join(root, str(req, "target"))
		dirs, err := util.DirCleanUpPaths(target, preserve)
		if err != nil {
			return map[string]any{"error": err.Error()}, nil
		}
		// replay what cmd/fix.go does: remove the target, then each directory with os.Remove (fails if not empty)
		res := map[string]any{}
		_ = os.Remove(target)
		removed := []string{}
		failed := ""
		for _, d := range dirs {
			if err := os.Remove(d); err != nil {
				failed = strings.TrimPrefix(d, root+"/")
				break
			}
			removed = append(removed, strings.TrimPrefix(d, root+"/"))
		}
		res["removed"] = removed
		res["failed"] = failed
		return res, nil
	})
}
