package main

import (
	"sort"

	"github.com/open-policy-agent/opa/v1/ast"
)

func init() {
	// the raw capabilities of an embedded OPA version, read with OPA's own loader (not through Regal's
	// capabilities lookup or capabilities.rego): names of built-ins, future keywords, features
	register("c19.caps", func(req map[string]any) (any, error) {
		caps, err := ast.LoadCapabilitiesVersion(str(req, "version"))
		if err != nil {
			return map[string]any{"error": err.Error()}, nil
		}
		bs := []string{}
		for _, b := range caps.Builtins {
			bs = append(bs, b.Name)
		}
		sort.Strings(bs)
		kw := append([]string{}, caps.FutureKeywords...)
		ft := append([]string{}, caps.Features...)
		sort.Strings(kw)
		sort.Strings(ft)
		return map[string]any{"builtins": bs, "futureKeywords": kw, "features": ft}, nil
	})
}
