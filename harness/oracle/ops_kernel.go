package main

import (
	"context"
	"encoding/json"
	"fmt"
	opacaps "github.com/open-policy-agent/opa/capabilities"
	"os"
	"path/filepath"
	"sort"
	"strings"
	"sync"
	"time"

	"gopkg.in/yaml.v3"

	rbundle "github.com/styrainc/regal/bundle"
	"github.com/styrainc/regal/pkg/config"
	"github.com/styrainc/regal/pkg/linter"
	"github.com/styrainc/regal/pkg/report"
	"github.com/styrainc/regal/pkg/rules"
)

// Synthetic marker-driven rules (harness/synth): an added bundle `regal.rules.verif.*` and custom rules
// `custom.regal.rules.vcat.*`.  Their behaviour is known exactly, so the Lean kernel predicts whole reports.

var worldTitles = map[string]bool{
	"todo-comment": true, "line-length": true, "if-empty-object": true, "use-strings-count": true,
	"unresolved-import": true, "no-defined-entrypoint": true,
	"rule-x": true, "rule-y": true, "agg-x": true,
}

// real aggregate rules whose violations are not predicted by the model but whose aggregate KEYS
// decide whether the aggregate report runs at all (len(allAggregates) > 0)
var ghostTitles = map[string]bool{
	"prefer-package-imports": true, "impossible-not": true, "missing-metadata": true, "circular-import": true,
}

func synthDir() string {
	if d := os.Getenv("VERIF_SYNTH"); d != "" {
		return d
	}
	return "/verif/harness/synth"
}

type kFile struct {
	Name    string `json:"name"`
	Content string `json:"content"`
}

type kParams struct {
	Disable         []string `json:"disable"`
	Enable          []string `json:"enable"`
	DisableCategory []string `json:"disableCategory"`
	EnableCategory  []string `json:"enableCategory"`
	DisableAll      bool     `json:"disableAll"`
	EnableAll       bool     `json:"enableAll"`
	IgnoreFiles     []string `json:"ignoreFiles"`
}

type kCase struct {
	Files      []kFile                       `json:"files"`
	Order      []string                      `json:"order"` // forced completion order (file names) or empty
	User       json.RawMessage               `json:"user"`  // user config as JSON (nil = none)
	Params     kParams                       `json:"params"`
	Prefix     string                        `json:"prefix"`
	Collect    bool                          `json:"collect"`
	Export     bool                          `json:"export"`
	Overridden map[string][]report.Aggregate `json:"overridden"`
	NoCustom   bool                          `json:"noCustom"`
	Boom       bool                          `json:"boom"`         // also load the failing custom rule
	SelectWait int                           `json:"selectWaitMs"` // hold lintWithRegoRules before its final select
	Procs      int                           `json:"procs"`
}

func decodeCase(req map[string]any, into any) error {
	bs, err := json.Marshal(req)
	if err != nil {
		return err
	}
	return json.Unmarshal(bs, into)
}

func userConfig(raw json.RawMessage) (*config.Config, error) {
	if len(raw) == 0 || string(raw) == "null" {
		return nil, nil
	}
	var c config.Config
	if err := yaml.Unmarshal(raw, &c); err != nil { // JSON is YAML: goes through Config.UnmarshalYAML
		return nil, err
	}
	return &c, nil
}

func buildLinter(c *kCase) (linter.Linter, error) {
	l := linter.NewLinter()
	if !c.NoCustom {
		l = l.WithCustomRulesFromFS(os.DirFS(filepath.Join(synthDir(), "custom")), ".")
	}
	if c.Boom {
		l = l.WithCustomRulesFromFS(os.DirFS(filepath.Join(synthDir(), "boom")), ".")
	}
	uc, err := userConfig(c.User)
	if err != nil {
		return l, fmt.Errorf("user config: %w", err)
	}
	if uc != nil {
		l = l.WithUserConfig(*uc)
	}
	p := c.Params
	l = l.WithDisabledRules(p.Disable...).WithEnabledRules(p.Enable...).
		WithDisabledCategories(p.DisableCategory...).WithEnabledCategories(p.EnableCategory...).
		WithDisableAll(p.DisableAll).WithEnableAll(p.EnableAll).WithIgnore(p.IgnoreFiles).
		WithPathPrefix(c.Prefix).WithCollectQuery(c.Collect).WithExportAggregates(c.Export)
	if c.Overridden != nil {
		l = l.WithAggregates(c.Overridden)
	}
	return l, nil
}

func inputOf(files []kFile) (rules.Input, error) {
	m := map[string]string{}
	for _, f := range files {
		m[f.Name] = f.Content
	}
	in, err := rules.InputFromMap(m, nil)
	if err != nil {
		return in, err
	}
	// keep the caller's order of FileNames (Lint appends inputModules in this order)
	names := make([]string, 0, len(files))
	seen := map[string]bool{}
	for _, f := range files {
		if !seen[f.Name] {
			names = append(names, f.Name)
			seen[f.Name] = true
		}
	}
	in.FileNames = names
	return in, nil
}

// canonical, order-free rendering of a report restricted to the world's rules
func canonReport(r report.Report, all bool) map[string]any {
	vs := [][]any{}
	for _, v := range r.Violations {
		if !all && !worldTitles[v.Title] {
			continue
		}
		var row any
		if v.Location.Row != 0 || v.Location.File != "" {
			row = v.Location.Row
		}
		vs = append(vs, []any{v.Category, v.Title, v.Level, v.Location.File, row, v.IsAggregate})
	}
	sort.Slice(vs, func(i, j int) bool { return fmt.Sprint(vs[i]) < fmt.Sprint(vs[j]) })
	ns := [][]any{}
	for _, n := range r.Notices {
		if !all && !worldTitles[n.Title] {
			continue
		}
		ns = append(ns, []any{n.Category, n.Title, n.Severity})
	}
	sort.Slice(ns, func(i, j int) bool { return fmt.Sprint(ns[i]) < fmt.Sprint(ns[j]) })
	aggs := map[string][]string{}
	for k, as := range r.Aggregates {
		if i := strings.Index(k, "/"); !all && (i < 0 || !worldTitles[k[i+1:]]) {
			continue
		}
		l := []string{}
		for _, a := range as {
			l = append(l, aggString(a))
		}
		sort.Strings(l)
		aggs[k] = l
	}
	files := map[string]bool{}
	for _, v := range r.Violations {
		files[v.Location.File] = true
	}
	return map[string]any{
		"violations": vs, "notices": ns, "aggregates": aggs,
		"summary": map[string]any{"filesScanned": r.Summary.FilesScanned, "filesFailed": r.Summary.FilesFailed,
			"rulesSkipped": r.Summary.RulesSkipped, "numViolations": r.Summary.NumViolations},
		// what the property (C02 b) says the summary must equal, measured on the returned report itself
		"selfcheck": map[string]any{"numViolations": len(r.Violations), "distinctFiles": len(files), "notices": len(r.Notices)},
	}
}

// order-free textual rendering of one aggregate entry of a world rule
func aggString(a report.Aggregate) string {
	d, _ := a["aggregate_data"].(map[string]any)
	if imps, ok := d["imports"]; ok { // imports/unresolved-import
		l := []string{}
		for _, x := range toAnySlice(imps) {
			m, _ := x.(map[string]any)
			loc, _ := m["location"].(map[string]any)
			parts := []string{}
			for _, p := range toAnySlice(m["path"]) {
				parts = append(parts, fmt.Sprint(p))
			}
			l = append(l, fmt.Sprintf("%v:%s", loc["row"], strings.Join(parts, ".")))
		}
		sort.Strings(l)
		src, _ := a["aggregate_source"].(map[string]any)
		pkg := []string{}
		for _, p := range toAnySlice(src["package_path"]) {
			pkg = append(pkg, fmt.Sprint(p))
		}
		return fmt.Sprintf("%s|imports|%s|%s", a.SourceFile(), strings.Join(l, ","), strings.Join(pkg, "."))
	}
	if ep, ok := d["entrypoint"]; ok { // idiomatic/no-defined-entrypoint
		m, _ := ep.(map[string]any)
		return fmt.Sprintf("%s|entry|%v", a.SourceFile(), m["row"])
	}
	return fmt.Sprintf("%s|%v|%v|%v", a.SourceFile(), d["kind"], d["name"], d["row"])
}

func toAnySlice(v any) []any {
	s, _ := v.([]any)
	return s
}

var gateMu sync.Mutex // the schedule gates are process-global: one gated lint at a time

func lintWithOrder(l linter.Linter, order []string) (report.Report, error) {
	if len(order) == 0 {
		return l.Lint(context.Background())
	}
	if linter.VerifBeforeSelect == nil { // otherwise the caller already holds the gate lock
		gateMu.Lock()
		defer gateMu.Unlock()
	}
	pos := map[string]int{}
	for i, n := range order {
		pos[n] = i
	}
	var mu sync.Mutex
	cond := sync.NewCond(&mu)
	turn := 0
	deadline := time.Now().Add(20 * time.Second)
	linter.VerifGate = func(name string) {
		p, ok := pos[name]
		if !ok {
			return
		}
		mu.Lock()
		for turn != p && time.Now().Before(deadline) {
			cond.Wait()
		}
		mu.Unlock()
	}
	linter.VerifGateDone = func(name string) {
		if _, ok := pos[name]; !ok {
			return
		}
		mu.Lock()
		turn++
		cond.Broadcast()
		mu.Unlock()
	}
	// wake sleepers periodically so a worker that died with an error cannot block the rest forever
	stop := make(chan struct{})
	go func() {
		t := time.NewTicker(200 * time.Millisecond)
		defer t.Stop()
		for {
			select {
			case <-stop:
				return
			case <-t.C:
				mu.Lock()
				cond.Broadcast()
				mu.Unlock()
			}
		}
	}()
	defer func() { close(stop); linter.VerifGate = nil; linter.VerifGateDone = nil }()
	return l.Lint(context.Background())
}

func init() {
	// which built-in levels does the real provided config give the world's real rules
	register("kernel.provided", func(req map[string]any) (any, error) {
		conf, err := config.LoadConfigWithDefaultsFromBundle(&rbundle.LoadedBundle, nil)
		if err != nil {
			return nil, err
		}
		out := map[string]string{}
		for c, rs := range conf.Rules {
			for t, r := range rs {
				if worldTitles[t] || ghostTitles[t] {
					out[c+"/"+t] = r.Level
				}
			}
		}
		return out, nil
	})
	// N concurrent Lint calls of the same case in one process (sharing the bundle and OPA's caches)
	register("kernel.concurrent", func(req map[string]any) (any, error) {
		var c kCase
		if err := decodeCase(req, &c); err != nil {
			return nil, err
		}
		n := num(req, "n")
		outs := make([]any, n)
		var wg sync.WaitGroup
		for k := 0; k < n; k++ {
			wg.Add(1)
			go func(k int) {
				defer wg.Done()
				defer func() {
					if r := recover(); r != nil {
						outs[k] = map[string]any{"panic": fmt.Sprint(r)}
					}
				}()
				l, err := buildLinter(&c)
				if err != nil {
					outs[k] = map[string]any{"error": err.Error()}
					return
				}
				in, err := inputOf(c.Files)
				if err != nil {
					outs[k] = map[string]any{"error": err.Error()}
					return
				}
				l = l.WithInputModules(&in)
				rep, err := l.Lint(context.Background())
				if err != nil {
					outs[k] = map[string]any{"error": err.Error()}
					return
				}
				outs[k] = canonReport(rep, true)
			}(k)
		}
		wg.Wait()
		return outs, nil
	})
	// two-phase pipeline through the Linter API: one collect run per part (WithCollectQuery +
	// WithExportAggregates), exported maps merged key by key in the given order, then a report-only
	// run WithAggregates(merged).
	register("kernel.twophase", func(req map[string]any) (any, error) {
		var c kCase
		if err := decodeCase(req, &c); err != nil {
			return nil, err
		}
		byName := map[string]kFile{}
		for _, f := range c.Files {
			byName[f.Name] = f
		}
		partsAny, _ := req["parts"].([]any)
		exports := []map[string][]report.Aggregate{}
		for _, pa := range partsAny {
			names, _ := pa.([]any)
			fs := []kFile{}
			for _, n := range names {
				s, _ := n.(string)
				fs = append(fs, byName[s])
			}
			cc := c
			cc.Collect, cc.Export, cc.Overridden = true, true, nil
			l, err := buildLinter(&cc)
			if err != nil {
				return map[string]any{"error": "setup: " + err.Error()}, nil
			}
			in, err := inputOf(fs)
			if err != nil {
				return map[string]any{"error": "parse: " + err.Error()}, nil
			}
			rep, err := l.WithInputModules(&in).Lint(context.Background())
			if err != nil {
				return map[string]any{"error": err.Error()}, nil
			}
			exports = append(exports, rep.Aggregates)
		}
		merged := map[string][]report.Aggregate{}
		for _, idx := range toAnySlice(req["mergeOrder"]) {
			i := int(idx.(float64))
			keys := make([]string, 0, len(exports[i]))
			for k := range exports[i] {
				keys = append(keys, k)
			}
			sort.Strings(keys)
			for _, k := range keys {
				merged[k] = append(merged[k], exports[i][k]...)
			}
		}
		if len(merged) == 0 {
			return map[string]any{"violations": [][]any{}, "nothingToReport": true}, nil
		}
		cc := c
		cc.Collect, cc.Export, cc.Overridden = false, false, merged
		l, err := buildLinter(&cc)
		if err != nil {
			return map[string]any{"error": "setup: " + err.Error()}, nil
		}
		rep, err := l.Lint(context.Background())
		if err != nil {
			return map[string]any{"error": err.Error()}, nil
		}
		return canonReport(rep, boolv(req, "all")), nil
	})
	register("kernel.lint", func(req map[string]any) (any, error) {
		var c kCase
		if err := decodeCase(req, &c); err != nil {
			return nil, err
		}
		// target capabilities given as a FILE: the original capabilities document of an OPA version (bytes from
		// OPA's own embedded directory) is written to a temporary file and named in capabilities.from.file
		if v := str(req, "capsFileOfVersion"); v != "" {
			bs, err := opacaps.FS.ReadFile(v + ".json")
			if err != nil {
				return map[string]any{"error": "setup: " + err.Error()}, nil
			}
			f, err := os.CreateTemp("", "verif-caps-*.json")
			if err != nil {
				return nil, err
			}
			defer os.Remove(f.Name())
			_, _ = f.Write(bs)
			_ = f.Close()
			var u map[string]any
			if len(c.User) > 0 && string(c.User) != "null" {
				_ = json.Unmarshal(c.User, &u)
			}
			if u == nil {
				u = map[string]any{}
			}
			u["capabilities"] = map[string]any{"from": map[string]any{"file": f.Name()}}
			c.User, _ = json.Marshal(u)
		}
		l, err := buildLinter(&c)
		if err != nil {
			return map[string]any{"error": "setup: " + err.Error()}, nil
		}
		if len(c.Files) > 0 {
			in, err := inputOf(c.Files)
			if err != nil {
				return map[string]any{"error": "parse: " + err.Error()}, nil
			}
			l = l.WithInputModules(&in)
		}
		if c.SelectWait > 0 {
			gateMu.Lock()
			linter.VerifBeforeSelect = func() { time.Sleep(time.Duration(c.SelectWait) * time.Millisecond) }
		}
		rep, err := lintWithOrder(l, c.Order)
		if c.SelectWait > 0 {
			linter.VerifBeforeSelect = nil
			gateMu.Unlock()
		}
		if err != nil {
			return map[string]any{"error": err.Error()}, nil
		}
		out := canonReport(rep, boolv(req, "all"))
		if boolv(req, "enabled") {
			en, err := l.DetermineEnabledRules(context.Background())
			if err != nil {
				return nil, err
			}
			w := []string{}
			for _, t := range en {
				if worldTitles[t] {
					w = append(w, t)
				}
			}
			out["enabled"] = w
			ea, err := l.DetermineEnabledAggregateRules(context.Background())
			if err != nil {
				return nil, err
			}
			wa := []string{}
			for _, t := range ea {
				if worldTitles[t] {
					wa = append(wa, t)
				}
			}
			out["enabledAggregate"] = wa
		}
		if boolv(req, "rawAggregates") {
			out["rawAggregates"] = rep.Aggregates
			out["rawDirectives"] = rep.IgnoreDirectives
		}
		return out, nil
	})
}
