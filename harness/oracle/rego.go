package main

import (
	"context"
	"fmt"
	"sync"

	"github.com/open-policy-agent/opa/v1/rego"
	"github.com/open-policy-agent/opa/v1/storage/inmem"

	rbundle "github.com/styrainc/regal/bundle"
	"github.com/styrainc/regal/pkg/builtins"
)

// regoFn evaluates a query against the REAL embedded bundle through the real OPA.
// Queries are prepared once per (query,data) and take their arguments from `input`.
type pqKey struct{ q, data string }

var (
	pqMu    sync.Mutex
	pqCache = map[pqKey]*rego.PreparedEvalQuery{}
)

func preparedQuery(ctx context.Context, query string, dataKey string, data map[string]any) (*rego.PreparedEvalQuery, error) {
	pqMu.Lock()
	defer pqMu.Unlock()
	k := pqKey{query, dataKey}
	if pq, ok := pqCache[k]; ok {
		return pq, nil
	}
	args := []func(*rego.Rego){
		rego.Query(query),
		rego.ParsedBundle("regal", &rbundle.LoadedBundle),
	}
	args = append(args, builtins.RegalBuiltinRegoFuncs...)
	if data != nil {
		args = append(args, rego.Store(inmem.NewFromObject(data)))
	}
	pq, err := rego.New(args...).PrepareForEval(ctx)
	if err != nil {
		return nil, fmt.Errorf("prepare %q: %w", query, err)
	}
	if len(pqCache) > 2000 {
		pqCache = map[pqKey]*rego.PreparedEvalQuery{}
	}
	pqCache[k] = &pq
	return &pq, nil
}

// evalRego returns the value bound to variable x by query (`x := …`), or (nil,false) if undefined.
func evalRego(query string, dataKey string, data map[string]any, input any) (any, bool, error) {
	ctx := context.Background()
	pq, err := preparedQuery(ctx, query, dataKey, data)
	if err != nil {
		return nil, false, err
	}
	rs, err := pq.Eval(ctx, rego.EvalInput(input))
	if err != nil {
		return nil, false, err
	}
	if len(rs) == 0 {
		return nil, false, nil
	}
	return rs[0].Bindings["x"], true, nil
}
