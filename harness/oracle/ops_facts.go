package main

import (
	"fmt"
	"go/ast"
	"go/parser"
	"go/token"
	"os"
	"path/filepath"
	"strings"
)

// Structural facts about the CURRENT Go sources that the hand-written Lean models rely on
// (go/ast, not text): regenerated on every run, compared with the expectation written next to the model.

func repoDir() string {
	if d := os.Getenv("VERIF_REPO"); d != "" {
		return d
	}
	return "/repo"
}

func mentions(n ast.Node, name string) bool {
	found := false
	ast.Inspect(n, func(x ast.Node) bool {
		if id, ok := x.(*ast.Ident); ok && id.Name == name {
			found = true
		}
		return !found
	})
	return found
}

func isCall(n ast.Node, recv, method string) bool {
	es, ok := n.(*ast.ExprStmt)
	if !ok {
		return false
	}
	call, ok := es.X.(*ast.CallExpr)
	if !ok {
		return false
	}
	sel, ok := call.Fun.(*ast.SelectorExpr)
	if !ok {
		return false
	}
	id, ok := sel.X.(*ast.Ident)
	return ok && id.Name == recv && sel.Sel.Name == method
}

func recvFrom(c *ast.CommClause, ch string) bool {
	if c.Comm == nil {
		return false
	}
	return mentions(c.Comm, ch)
}

func init() {
	register("facts.linter", func(req map[string]any) (any, error) {
		fset := token.NewFileSet()
		f, err := parser.ParseFile(fset, filepath.Join(repoDir(), "pkg", "linter", "linter.go"), nil, 0)
		if err != nil {
			return nil, err
		}
		out := map[string]any{}
		for _, d := range f.Decls {
			fd, ok := d.(*ast.FuncDecl)
			if !ok || fd.Name.Name != "lintWithRegoRules" {
				continue
			}
			// (1) every write to the shared report inside a goroutine literal is preceded, in the same
			//     function literal, by mu.Lock() (position-wise) and mu.Unlock is deferred
			writes, unlocked := 0, 0
			errChBuffered := false
			ast.Inspect(fd, func(n ast.Node) bool {
				if as, ok := n.(*ast.AssignStmt); ok {
					for i, l := range as.Lhs {
						if id, ok := l.(*ast.Ident); ok && id.Name == "errCh" && i < len(as.Rhs) {
							if call, ok := as.Rhs[i].(*ast.CallExpr); ok && len(call.Args) == 2 {
								errChBuffered = strings.Contains(fmt.Sprint(call.Args[1]), "FileNames") || mentions(call.Args[1], "len")
							}
						}
					}
				}
				fl, ok := n.(*ast.FuncLit)
				if !ok {
					return true
				}
				lockPos := token.NoPos
				deferUnlock := false
				ast.Inspect(fl.Body, func(m ast.Node) bool {
					if isCall(m, "mu", "Lock") && lockPos == token.NoPos {
						lockPos = m.Pos()
					}
					if ds, ok := m.(*ast.DeferStmt); ok {
						if sel, ok := ds.Call.Fun.(*ast.SelectorExpr); ok {
							if id, ok := sel.X.(*ast.Ident); ok && id.Name == "mu" && sel.Sel.Name == "Unlock" {
								deferUnlock = true
							}
						}
					}
					return true
				})
				ast.Inspect(fl.Body, func(m ast.Node) bool {
					var lhs []ast.Expr
					switch s := m.(type) {
					case *ast.AssignStmt:
						lhs = s.Lhs
					case *ast.IncDecStmt:
						lhs = []ast.Expr{s.X}
					case *ast.ExprStmt: // regoReport.AddProfileEntries(...)
						if call, ok := s.X.(*ast.CallExpr); ok {
							if sel, ok := call.Fun.(*ast.SelectorExpr); ok && mentions(sel.X, "regoReport") {
								lhs = []ast.Expr{sel.X}
							}
						}
					}
					for _, l := range lhs {
						if mentions(l, "regoReport") {
							writes++
							if lockPos == token.NoPos || m.Pos() < lockPos || !deferUnlock {
								unlocked++
							}
						}
					}
					return true
				})
				return true
			})
			out["sharedWrites"] = writes
			out["sharedWritesOutsideLock"] = unlocked
			out["errChBuffered"] = errChBuffered
			// (2) the final select: doneCh case re-polls errCh (non-blocking) before returning the report
			var last *ast.SelectStmt
			for _, st := range fd.Body.List {
				if s, ok := st.(*ast.SelectStmt); ok {
					last = s
				}
			}
			out["finalSelect"] = last != nil
			if last != nil {
				cases := []string{}
				doneRepolls := false
				for _, c := range last.Body.List {
					cc := c.(*ast.CommClause)
					switch {
					case cc.Comm == nil:
						cases = append(cases, "default")
					case recvFrom(cc, "errCh"):
						cases = append(cases, "errCh")
					case recvFrom(cc, "doneCh"):
						cases = append(cases, "doneCh")
						for _, b := range cc.Body {
							if inner, ok := b.(*ast.SelectStmt); ok {
								hasErr, hasDefault := false, false
								for _, ic := range inner.Body.List {
									icc := ic.(*ast.CommClause)
									if icc.Comm == nil {
										hasDefault = true
									} else if recvFrom(icc, "errCh") {
										hasErr = true
									}
								}
								doneRepolls = hasErr && hasDefault
							}
						}
					default:
						cases = append(cases, "other")
					}
				}
				out["selectCases"] = cases
				out["doneRepollsErrCh"] = doneRepolls
			}
		}
		return out, nil
	})
}
