package main

import (
	"strings"

	"github.com/styrainc/regal/internal/lsp"
)

// independent LSP-client semantics: edits refer to the ORIGINAL document, are applied in array order,
// positions are (line, character) with a line index == number of lines meaning end of document.
func applyTextEdits(before string, edits [][]any) (string, bool) {
	// offsets of line starts
	starts := []int{0}
	for i := 0; i < len(before); i++ {
		if before[i] == '\n' {
			starts = append(starts, i+1)
		}
	}
	off := func(line, ch int) (int, bool) {
		if line < len(starts) {
			o := starts[line] + ch
			if o > len(before) {
				return 0, false
			}
			return o, true
		}
		if line == len(starts) && ch == 0 {
			return len(before), true
		}
		return 0, false
	}
	var sb strings.Builder
	cur := 0
	for _, e := range edits {
		s, ok1 := off(e[0].(int), e[1].(int))
		t, ok2 := off(e[2].(int), e[3].(int))
		if !ok1 || !ok2 || s < cur || t < s {
			return "", false
		}
		sb.WriteString(before[cur:s])
		sb.WriteString(e[4].(string))
		cur = t
	}
	sb.WriteString(before[cur:])
	return sb.String(), true
}

func init() {
	register("c16.edits", func(req map[string]any) (any, error) {
		before, after := str(req, "before"), str(req, "after")
		edits := lsp.ComputeEdits(before, after)
		out := [][]any{}
		for _, e := range edits {
			out = append(out, []any{int(e.Range.Start.Line), int(e.Range.Start.Character), int(e.Range.End.Line),
				int(e.Range.End.Character), e.NewText})
		}
		applied, ok := applyTextEdits(before, out)
		ops := lsp.VerifOperations(lsp.VerifSplitLines(before), lsp.VerifSplitLines(after))
		return map[string]any{"edits": out, "applied": applied, "inBounds": ok, "ops": ops,
			"lines": lsp.VerifSplitLines(before)}, nil
	})
}
