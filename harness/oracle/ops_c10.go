package main

import (
	"bytes"
	"context"
	"encoding/json"
	"encoding/xml"
	"fmt"
	"regexp"
	"sort"
	"strconv"
	"strings"

	"github.com/fatih/color"

	"github.com/styrainc/regal/pkg/report"
	"github.com/styrainc/regal/pkg/reporter"
)

type rec struct {
	File  string `json:"file"`
	Row   int    `json:"row"`
	Col   int    `json:"col"`
	Title string `json:"title"`
	Level string `json:"level"`
	Desc  string `json:"desc"`
}

func buildReport(req map[string]any) report.Report {
	var recs []rec
	bs, _ := json.Marshal(req["violations"])
	_ = json.Unmarshal(bs, &recs)
	r := report.Report{}
	files := map[string]bool{}
	for _, x := range recs {
		v := report.Violation{
			Title: x.Title, Description: x.Desc, Category: "cat", Level: x.Level,
			RelatedResources: []report.RelatedResource{{Description: "documentation", Reference: "https://docs.example/" + x.Title}},
			Location:         report.Location{File: x.File, Row: x.Row, Column: x.Col},
		}
		if t, ok := req["text"].(string); ok && x.Row > 0 {
			tt := t
			v.Location.Text = &tt
		}
		r.Violations = append(r.Violations, v)
		files[x.File] = true
	}
	r.Summary = report.Summary{FilesScanned: len(files) + 1, FilesFailed: len(files), NumViolations: len(recs)}
	if boolv(req, "notice") {
		r.Notices = []report.Notice{{Title: "n-rule", Description: "nd", Category: "cat", Level: "notice", Severity: "warning"}}
		r.Summary.RulesSkipped = 1
	}
	return r
}

func locOf(s string) (string, int, int) {
	// file:row:col (file may itself contain ':')
	parts := strings.Split(s, ":")
	if len(parts) < 3 {
		return s, 0, 0
	}
	row, e1 := strconv.Atoi(parts[len(parts)-2])
	col, e2 := strconv.Atoi(parts[len(parts)-1])
	if e1 != nil || e2 != nil {
		return s, 0, 0
	}
	return strings.Join(parts[:len(parts)-2], ":"), row, col
}

var ghRe = regexp.MustCompile(`^::(\w*) file=(.*),line=(\d+),col=(\d+)::(.*)\. To learn more, see: (.*)$`)

func init() {
	color.NoColor = true
	// render a report with the REAL reporter and parse the output back into records
	register("c10.render", func(req map[string]any) (any, error) {
		r := buildReport(req)
		var buf bytes.Buffer
		format := str(req, "format")
		var rp reporter.Reporter
		switch format {
		case "json":
			rp = reporter.NewJSONReporter(&buf)
		case "pretty":
			rp = reporter.NewPrettyReporter(&buf)
		case "compact":
			rp = reporter.NewCompactReporter(&buf)
		case "github":
			rp = reporter.NewGitHubReporter(&buf)
		case "sarif":
			rp = reporter.NewSarifReporter(&buf)
		case "junit":
			rp = reporter.NewJUnitReporter(&buf)
		default:
			return nil, fmt.Errorf("format %s", format)
		}
		if err := rp.Publish(context.Background(), r); err != nil {
			return map[string]any{"error": err.Error()}, nil
		}
		out := [][]any{}
		text := buf.String()
		switch format {
		case "json":
			var back report.Report
			if err := json.Unmarshal(buf.Bytes(), &back); err != nil {
				return map[string]any{"error": "json does not parse back: " + err.Error()}, nil
			}
			for _, v := range back.Violations {
				out = append(out, []any{v.Location.File, v.Location.Row, v.Location.Column, v.Title, v.Level})
			}
			// the parsed report must equal the published one on the published fields
			if r.Violations == nil {
				r.Violations = []report.Violation{}
			}
			a, _ := json.Marshal(r.Violations)
			b, _ := json.Marshal(back.Violations)
			if string(a) != string(b) || back.Summary != r.Summary {
				return map[string]any{"error": "json round trip differs", "a": string(a), "b": string(b), "sa": r.Summary, "sb": back.Summary}, nil
			}
		case "junit":
			type tc struct {
				Name      string `xml:"name,attr"`
				Classname string `xml:"classname,attr"`
				Failure   struct {
					Type string `xml:"type,attr"`
				} `xml:"failure"`
			}
			type ts struct {
				Name  string `xml:"name,attr"`
				Cases []tc   `xml:"testcase"`
			}
			var doc struct {
				Suites []ts `xml:"testsuite"`
			}
			if err := xml.Unmarshal(buf.Bytes(), &doc); err != nil {
				return map[string]any{"error": "xml does not parse: " + err.Error()}, nil
			}
			for _, s := range doc.Suites {
				for _, c := range s.Cases {
					f, row, col := locOf(c.Classname)
					title := strings.TrimPrefix(strings.SplitN(c.Name, ":", 2)[0], "cat/")
					if row == 0 {
						f = s.Name
					}
					out = append(out, []any{f, row, col, title, c.Failure.Type})
				}
			}
		case "sarif":
			var doc struct {
				Runs []struct {
					Results []struct {
						RuleID    string `json:"ruleId"`
						Level     string `json:"level"`
						Kind      string `json:"kind"`
						Locations []struct {
							PhysicalLocation struct {
								ArtifactLocation struct {
									URI string `json:"uri"`
								} `json:"artifactLocation"`
								Region struct {
									StartLine   int `json:"startLine"`
									StartColumn int `json:"startColumn"`
								} `json:"region"`
							} `json:"physicalLocation"`
						} `json:"locations"`
					} `json:"results"`
				} `json:"runs"`
			}
			if err := json.Unmarshal(buf.Bytes(), &doc); err != nil {
				return map[string]any{"error": "sarif does not parse: " + err.Error()}, nil
			}
			for _, run := range doc.Runs {
				for _, res := range run.Results {
					if res.Kind == "informational" {
						continue
					}
					f, row, col := "", 0, 0
					if len(res.Locations) > 0 {
						pl := res.Locations[0].PhysicalLocation
						f, row, col = pl.ArtifactLocation.URI, pl.Region.StartLine, pl.Region.StartColumn
					}
					out = append(out, []any{f, row, col, res.RuleID, res.Level})
				}
			}
		case "github":
			for _, line := range strings.Split(text, "\n") {
				if m := ghRe.FindStringSubmatch(line); m != nil {
					row, _ := strconv.Atoi(m[3])
					col, _ := strconv.Atoi(m[4])
					out = append(out, []any{m[2], row, col, strings.TrimPrefix(m[6], "https://docs.example/"), m[1]})
				}
			}
		case "pretty":
			var cur []any
			for _, line := range strings.Split(text, "\n") {
				f := strings.SplitN(line, "\t", 2)
				if len(f) < 2 {
					continue
				}
				k, v := strings.TrimSpace(f[0]), strings.TrimSpace(f[1])
				switch k {
				case "Rule:":
					cur = []any{"", 0, 0, v, ""}
				case "Level:":
					cur[4] = v
				case "Location:":
					file, row, col := locOf(v)
					cur[0], cur[1], cur[2] = file, row, col
					out = append(out, cur)
				}
			}
		case "compact":
			// table rows: | location | description | ; wrapped cells continue on rows with an empty first cell
			for _, line := range strings.Split(text, "\n") {
				if !strings.HasPrefix(line, "|") {
					continue
				}
				cells := strings.Split(line, "|")
				if len(cells) < 3 {
					continue
				}
				loc := strings.TrimSpace(cells[1])
				if loc == "" || loc == "Location" {
					continue
				}
				file, row, col := locOf(loc)
				out = append(out, []any{file, row, col, "", ""})
			}
		}
		sort.Slice(out, func(i, j int) bool { return fmt.Sprint(out[i]) < fmt.Sprint(out[j]) })
		return map[string]any{"records": out}, nil
	})
}
