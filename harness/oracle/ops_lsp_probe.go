package main

import (
	"context"
	"encoding/json"
	"sort"

	"github.com/open-policy-agent/opa/v1/ast"

	rbundle "github.com/styrainc/regal/bundle"
	"github.com/styrainc/regal/internal/parse"
	"github.com/styrainc/regal/pkg/config"
	"github.com/styrainc/regal/pkg/linter"
	"github.com/styrainc/regal/pkg/rules"
)

func init() {
	// the lint call the language server makes for a full workspace run, outside the server: which aggregate keys
	// come back, with how many entries per source file
	register("lsp.probe", func(req map[string]any) (any, error) {
		files := map[string]string{}
		modules := map[string]*ast.Module{}
		for k, v := range toStrMap(req["files"]) {
			u := "file:///w/" + k
			files[u] = v
			m, err := parse.Module(u, v)
			if err != nil {
				return nil, err
			}
			modules[u] = m
		}
		var uc config.Config
		raw, _ := json.Marshal(req["config"])
		_ = json.Unmarshal(raw, &uc)
		merged, err := config.LoadConfigWithDefaultsFromBundle(&rbundle.LoadedBundle, &uc)
		if err != nil {
			return nil, err
		}
		input := rules.NewInput(files, modules)
		l := linter.NewLinter().WithPathPrefix("file:///w").WithExportAggregates(true).WithUserConfig(merged).WithInputModules(&input)
		rpt, err := l.Lint(context.Background())
		if err != nil {
			return map[string]any{"error": err.Error()}, nil
		}
		out := map[string]int{}
		for k, as := range rpt.Aggregates {
			for _, a := range as {
				out[k+" "+a.SourceFile()]++
			}
		}
		keys := []string{}
		for k := range out {
			keys = append(keys, k)
		}
		sort.Strings(keys)
		return map[string]any{"entries": keys}, nil
	})
}
