package main

import (
	"encoding/json"

	rbundle "github.com/styrainc/regal/bundle"
	"github.com/styrainc/regal/pkg/config"
)

func init() {
	// function level: config.rego's ignored_rule / level_for_rule through the real OPA, with the
	// CLI params and the merged config substituted by `with`
	register("c04.fn", func(req map[string]any) (any, error) {
		v, ok, err := evalRego(
			`x := {"ignored": count([true | data.regal.config.ignored_rule(input.c, input.t)]) > 0,
			       "level": data.regal.config.level_for_rule(input.c, input.t)}
			 with data.eval.params as input.params with data.internal.combined_config as input.cfg`,
			"", nil, req)
		if err != nil {
			return nil, err
		}
		if !ok {
			return map[string]any{"undefined": true}, nil
		}
		return v, nil
	})
	// Go level merge: LoadConfigWithDefaultsFromBundle(real bundle, user config) -> merged levels
	register("c04.merge", func(req map[string]any) (any, error) {
		raw, _ := json.Marshal(req["user"])
		uc, err := userConfig(raw)
		if err != nil {
			return map[string]any{"error": err.Error()}, nil
		}
		merged, err := config.LoadConfigWithDefaultsFromBundle(&rbundle.LoadedBundle, uc)
		if err != nil {
			return map[string]any{"error": err.Error()}, nil
		}
		m := config.ToMap(merged)
		out := map[string]any{}
		rules, _ := m["rules"].(map[string]any)
		for _, k := range strs(req, "rules") {
			c, t := splitKey(k)
			cat, _ := rules[c].(map[string]any)
			r, ok := cat[t].(map[string]any)
			if !ok {
				out[k] = nil
				continue
			}
			out[k] = r["level"]
		}
		return out, nil
	})
}

func splitKey(k string) (string, string) {
	for i := 0; i < len(k); i++ {
		if k[i] == '/' {
			return k[:i], k[i+1:]
		}
	}
	return k, ""
}
