package main

import (
	"encoding/json"

	rbundle "github.com/styrainc/regal/bundle"
	"github.com/styrainc/regal/internal/capabilities"
	"github.com/styrainc/regal/pkg/config"
)

func init() {
	// function level: config.rego's ignored_rule / level_for_rule through the real OPA, with the
	// CLI params and the merged config substituted by `with`
	register("c04.fn", func(req map[string]any) (any, error) {
		v, ok, err := evalRego(
			`x := {"ignored": count([true | data.regal.config.ignored_rule(input.c, input.t)]) > 0,
			       "level": data.regal.config.level_for_rule(input.c, input.t)}
			 with data.eval.params as input.params with data.internal.combined_config as input.cfg`,
			"", nil, req)
		if err != nil {
			return nil, err
		}
		if !ok {
			return map[string]any{"undefined": true}, nil
		}
		return v, nil
	})
	// Go level merge: LoadConfigWithDefaultsFromBundle(real bundle, user config) -> merged levels
	register("c04.merge", func(req map[string]any) (any, error) {
		raw, _ := json.Marshal(req["user"])
		uc, err := userConfig(raw)
		if err != nil {
			return map[string]any{"error": err.Error()}, nil
		}
		merged, err := config.LoadConfigWithDefaultsFromBundle(&rbundle.LoadedBundle, uc)
		if err != nil {
			return map[string]any{"error": err.Error()}, nil
		}
		m := config.ToMap(merged)
		out := map[string]any{}
		rules, _ := m["rules"].(map[string]any)
		for _, k := range strs(req, "rules") {
			c, t := splitKey(k)
			cat, _ := rules[c].(map[string]any)
			r, ok := cat[t].(map[string]any)
			if !ok {
				out[k] = nil
				continue
			}
			out[k] = r["level"]
		}
		return out, nil
	})
}

func splitKey(k string) (string, string) {
	for i := 0; i < len(k); i++ {
		if k[i] == '/' {
			return k[:i], k[i+1:]
		}
	}
	return k, ""
}

func init() {
	register("c19.versions", func(req map[string]any) (any, error) {
		return embeddedOPAVersions()
	})
	// (from default) minus/plus through the real config unmarshalling; report presence of the probed built-ins
	register("c19.resolve", func(req map[string]any) (any, error) {
		caps := map[string]any{}
		minus := []map[string]any{}
		for _, n := range strs(req, "minus") {
			minus = append(minus, map[string]any{"name": n})
		}
		plus := []map[string]any{}
		for _, n := range strs(req, "plus") {
			plus = append(plus, map[string]any{"name": n, "type": "function",
				"decl": map[string]any{"args": []any{map[string]any{"type": "string"}}}, "result": map[string]any{"type": "boolean"}})
		}
		caps["minus"] = map[string]any{"builtins": minus}
		caps["plus"] = map[string]any{"builtins": plus}
		raw, _ := json.Marshal(map[string]any{"rules": map[string]any{}, "capabilities": caps})
		uc, err := userConfig(raw)
		if err != nil {
			return map[string]any{"error": err.Error()}, nil
		}
		out := map[string]bool{}
		for _, n := range strs(req, "probe") {
			_, ok := uc.Capabilities.Builtins[n]
			out[n] = ok
		}
		return out, nil
	})
}

func embeddedOPAVersions() (any, error) {
	m, err := capabilities.List()
	if err != nil {
		return nil, err
	}
	return m["opa"], nil
}
