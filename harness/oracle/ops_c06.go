package main

import (
	"fmt"
	"sort"

	"github.com/styrainc/regal/internal/parse"
)

func init() {
	// the names a directive comment names, through the real parser and the real ast.ignore_directives:
	// the module is `package p`, an empty line, `x := 1 #<text>`; the directive (if any) is keyed by row 3 + 1
	register("c06.names", func(req map[string]any) (any, error) {
		src := "package p\n\nx := 1 #" + str(req, "text") + "\n"
		m, err := parse.Module("p.rego", src)
		if err != nil {
			return map[string]any{"parseError": err.Error()}, nil
		}
		in, err := parse.PrepareAST("p.rego", src, m)
		if err != nil {
			return nil, err
		}
		v, ok, err := evalRego(`x := data.regal.ast.ignore_directives`, "", nil, in)
		if err != nil {
			return map[string]any{"error": err.Error()}, nil
		}
		if !ok {
			return map[string]any{"names": nil}, nil
		}
		obj, _ := v.(map[string]any)
		if len(obj) == 0 {
			return map[string]any{"names": nil}, nil
		}
		keys := []string{}
		for k := range obj {
			keys = append(keys, k)
		}
		sort.Strings(keys)
		if len(keys) != 1 || keys[0] != "4" {
			return map[string]any{"error": fmt.Sprintf("unexpected directive rows %v", keys)}, nil
		}
		return map[string]any{"names": obj["4"]}, nil
	})
}
