# METADATA
# description: synthetic custom aggregate rule - NEEDX:x needs HAVEX:x, and reports when nothing was aggregated
package custom.regal.rules.vcat["agg-x"]

import data.regal.result

aggregate contains entry if {
	some i, line in input.regal.file.lines
	some kind in ["HAVEX", "NEEDX"]
	marker := sprintf("%s:", [kind])
	contains(line, marker)
	name := regex.find_n(`[a-z0-9]+`, substring(line, indexof(line, marker) + count(marker), -1), 1)[0]
	entry := result.aggregate(rego.metadata.chain(), {"kind": kind, "name": name, "row": i + 1})
}

aggregate_report contains violation if {
	count(input.aggregate) == 0
	violation := result.fail(rego.metadata.chain(), {})
}

aggregate_report contains violation if {
	some entry in input.aggregate
	entry.aggregate_data.kind == "NEEDX"
	not _have(entry.aggregate_data.name)
	violation := result.fail(rego.metadata.chain(), {"location": {
		"file": entry.aggregate_source.file,
		"row": entry.aggregate_data.row,
		"col": 1,
	}})
}

_have(name) if {
	some entry in input.aggregate
	entry.aggregate_data.kind == "HAVEX"
	entry.aggregate_data.name == name
}
