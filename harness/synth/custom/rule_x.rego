# METADATA
# description: synthetic custom marker rule x
package custom.regal.rules.vcat["rule-x"]

import data.regal.result

report contains violation if {
	some i, line in input.regal.file.lines
	contains(line, "V:rule-x")
	violation := result.fail(rego.metadata.chain(), {"location": {
		"file": input.regal.file.name,
		"row": i + 1,
		"col": 1,
		"text": line,
	}})
}
