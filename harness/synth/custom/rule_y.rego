# METADATA
# description: synthetic custom marker rule y
package custom.regal.rules.vcat["rule-y"]

import data.regal.result

report contains violation if {
	some i, line in input.regal.file.lines
	contains(line, "V:rule-y")
	violation := result.fail(rego.metadata.chain(), {"location": {
		"file": input.regal.file.name,
		"row": i + 1,
		"col": 1,
		"text": line,
	}})
}
