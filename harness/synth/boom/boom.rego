# METADATA
# description: synthetic custom rule whose evaluation FAILS (conflicting complete rule) on files containing BOOM
package custom.regal.rules.vcat.boom

import data.regal.result

report contains violation if {
	_x == 1
	violation := result.fail(rego.metadata.chain(), {})
}

_x := 1 if {
	some line in input.regal.file.lines
	contains(line, "BOOM")
}

_x := 2 if {
	some line in input.regal.file.lines
	contains(line, "BOOM")
}
