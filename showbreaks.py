#!/usr/bin/env python3
import json,glob,sys
pid=sys.argv[1]; n=int(sys.argv[2]) if len(sys.argv)>2 else 2
for f in sorted(glob.glob('/verif/replays/%s*.json'%pid)):
    r=json.load(open(f))
    print('==',f,r.get('kind'),'n_breaks',r.get('n_breaks'))
    if r.get('lean_failures'): print('LEAN',json.dumps(r['lean_failures'])[:3000])
    if r.get('harness_error'): print('HARNESS',r['harness_error']['detail'])
    for b in r.get('correspondence_breaks',[])[:n]:
        c=b['case']
        print('PAIR',b['pair'])
        print(json.dumps({k:c[k] for k in c if k not in('files',)})[:2500])
        for fl in c.get('files',[]): print('---',fl['name']); print(fl['content'])
        print('IMPL ',json.dumps(b['impl'])[:2500]); print('MODEL',json.dumps(b['model'])[:2500])
    if r.get('kind')=='failing-input': print(json.dumps(r,indent=1)[:4000])
