"""C03 — linting is total (partial: protocol proved, rule totality sampled)."""
import json
import os

from . import core, corpus, kernel

PID = "C03"
LEVEL = "proof"
RULE = ("PROVED part: SelectProto theorems (no deadlock, complete, no lost error) + go/ast facts of lintWithRegoRules + the inventory "
        "of places in the bundle where OPA can raise a runtime conflict at all (functions / complete rules with several "
        "definitions, partial objects) compared with the reviewed baseline facts/c03_sites.json. SAMPLED part (hypothesis "
        "Env.Total, reported under assumption_sampling, not as discharged obligations): the real linter with every rule "
        "enabled over modules from the repository itself, the OPA conformance corpus and generated/mutated modules, each "
        "alone, plus batches where one unusual file must not abort the others. non-trivial = module with >= 1 rule; "
        "distinct = distinct module text")
TRUSTED = ["OPA evaluator: built-in errors are undefined under non-strict evaluation"]
ASSUMPTIONS = ["Env.Total (no rule raises an evaluation error / panics / hangs on a parseable module) is sampled, not proved"]


def run(ctx):
    # --- proved part: facts
    r = ctx.impl([{"id": 0, "op": "facts.linter"}, {"id": 1, "op": "c03.sites"}])
    facts = r[0].get("out") or {}
    want = {"sharedWritesOutsideLock": 0, "errChBuffered": True, "finalSelect": True, "doneRepollsErrCh": True}
    ctx.seen({"facts": facts}, ("facts",))
    bad = {k: facts.get(k) for k, v in want.items() if facts.get(k) != v}
    if bad:
        ctx.brk("linter.go lintWithRegoRules structure ~ SelectProto", {"op": "facts.linter"}, facts, want)
    sites = r[1].get("out") or []
    base_path = os.path.join(core.VERIF, "facts", "c03_sites.json")
    base = json.load(open(base_path))["sites"]
    ctx.seen({"sites": len(sites)}, ("sites",))
    if sites != base:
        new = [s for s in sites if s not in base]
        gone = [s for s in base if s not in sites]
        ctx.brk("bundle conflict-site inventory ~ facts/c03_sites.json (reviewed baseline)", {"op": "c03.sites"},
                {"new": new[:10], "gone": gone[:10]}, {"baseline": len(base)})
    ctx.notes.append("conflict sites: %d (baseline %d)" % (len(sites), len(base)))
    # --- the lost-error schedule (shared with C01)
    from . import c01
    c01.lost_error(ctx)
    # --- sampled part
    mods, stats = corpus.pick(ctx, "c03", 40 if ctx.quick else 277, 60 if ctx.quick else 1500, 150 if ctx.quick else 1500)
    cases = [{"id": k, "op": "corpus.lint", "files": [{"name": n, "content": c}]} for k, (n, c) in enumerate(mods)]
    # batches: one unusual file among ordinary ones
    rng = ctx.rng("batch")
    for b in range(6 if ctx.quick else 60):
        sel = rng.sample(mods, 4)
        cases.append({"id": len(cases), "op": "corpus.lint", "files": [{"name": "b%d/%s" % (i, n), "content": c} for i, (n, c) in enumerate(sel)],
                      "_batch": True})
    impl = ctx.impl(cases, timeout=3000, procs=14)
    st = {}
    for c in cases:
        o = impl[c["id"]].get("out") or {}
        s = o.get("status") or ("crash" if "crash" in impl[c["id"]] else "?")
        st[s] = st.get(s, 0) + 1
        names = [f["name"] for f in c["files"]]
        nontriv = any(":=" in f["content"] or " if " in f["content"] for f in c["files"])
        ctx.seen(c, ("mod", names[0], len(c["files"])) if (s == "ok" and nontriv) else None)
        if s in ("error", "panic", "timeout", "crash"):
            err = (o.get("err") or str(impl[c["id"]]))[:600]
            finding = None
            if s == "error" and "strconv.ParseFloat" in err and "value out of range" in err:
                finding = "C03-number-out-of-float-range"
            ctx.fail("linting a parseable module failed (%s)" % s, {"files": c["files"]}, finding, err)
    ctx.assumption_sampling["Env.Total"] = {"modules": len(mods), "batches": len(cases) - len(mods), "status": st, **stats}
    ctx.sample({"module": mods[0][0], "status": (impl[0].get("out") or {}).get("status"),
                "violations": len((impl[0].get("out") or {}).get("violations") or [])})
