"""C04 — rule enablement and severity follow the documented precedence."""
import itertools

from . import kernel

PID = "C04"
LEVEL = "proof"
RULE = ("(A) exhaustive: all 2^6 presence patterns of the six CLI overrides naming the rule/category x merged level in "
        "{absent,'',ignore,warning,error}, with and without unrelated names in the lists, through the real config.rego; "
        "(B) exhaustive: user rule level x category default x global default in {none,ignore,warning,error}^3 (+ entry "
        "present without level) for a built-in rule with default error, one with default ignore and a custom rule, through "
        "the real LoadConfigWithDefaultsFromBundle; (C) sampled end-to-end lints of a file that triggers every world rule, "
        "with DetermineEnabledRules. distinct = distinct configuration; non-trivial = at least one override or level set")
EXHAUSTIVE = True
TRUSTED = ["mergo deep merge (library) — its effect on levels is what (B) compares exhaustively",
           "Env boundary: what a rule reports once it runs"]
ASSUMPTIONS = ["category/global defaults, when written, carry a level (a `default:` key without level is outside the quantifier)"]

ALL_FILE = "\n".join([
    "package p0", "", "import data.q0", "", "# TODO: x", kernel.LONG, "ieo1 if {}",
    'sc1 := count(indexof_n("a", "a"))', "# V:rule-x", "# V:rule-y", "# NEEDX:m1", ""])


def part_a(ctx):
    c, t = "style", "todo-comment"
    cases = []
    for bits in itertools.product([False, True], repeat=6):
        for lvl in [None, "", "ignore", "warning", "error"]:
            for noise in (False, True):
                p = {"disable": [t] if bits[0] else [], "enable": [t] if bits[1] else [],
                     "disable_category": [c] if bits[2] else [], "enable_category": [c] if bits[3] else [],
                     "disable_all": bits[4], "enable_all": bits[5], "ignore_files": []}
                if noise:
                    for k in ("disable", "enable"):
                        p[k] = ["other-rule"] + p[k] + ["line-length"]
                    for k in ("disable_category", "enable_category"):
                        p[k] = ["bugs"] + p[k]
                cfg = {"rules": {c: {t: {"level": lvl}}}} if lvl is not None else {"rules": {}}
                case = {"id": len(cases), "op": "c04.fn", "c": c, "t": t, "params": p, "cfg": cfg,
                        # model side reads camelCase params
                        "_bits": bits, "_lvl": lvl}
                cases.append(case)
    impl = ctx.impl(cases)
    mcases = []
    for cs in cases:
        p = cs["params"]
        m = {"id": cs["id"], "op": "c04.fn", "c": c, "t": t,
             "params": {"disable": p["disable"], "enable": p["enable"], "disableCategory": p["disable_category"],
                        "enableCategory": p["enable_category"], "disableAll": p["disable_all"], "enableAll": p["enable_all"]}}
        if cs["_lvl"] is not None:
            m["mlevel"] = cs["_lvl"]
        mcases.append(m)
    model = ctx.model(mcases)
    for cs in cases:
        i, m = impl[cs["id"]], model[cs["id"]]
        io, mo = i.get("out"), (m.get("out") or {})
        ctx.seen(cs, ("A", cs["_bits"], cs["_lvl"]) if any(cs["_bits"]) or cs["_lvl"] else None)
        ctx.count("A:override-bits=%d" % sum(cs["_bits"]))
        if io is None or io != mo.get("model"):
            ctx.brk("config.rego ignored_rule/level_for_rule ~ Kernel.ignoredRule/levelForRule", strip(cs), i, mo.get("model"))
            if io is None:
                continue
        spec = mo.get("spec") or {}
        bad = io["ignored"] != spec.get("ignored") or (not io["ignored"] and io["level"] != spec.get("level"))
        if bad:
            ctx.fail("config.rego deviates from the documented CLI precedence", strip(cs), None, {"impl": io, "spec": spec})
    ctx.sample({"part": "A", "case": strip(cases[37]), "impl": impl[37].get("out")})


def strip(c):
    return {k: v for k, v in c.items() if not k.startswith("_")}


RULES_B = ["style/todo-comment", "bugs/if-empty-object", "vcat/rule-x"]


def part_b(ctx):
    prov = kernel.provided(ctx)
    cases = []
    L = [None, "ignore", "warning", "error"]
    for key in RULES_B:
        c, t = key.split("/")
        for rl, cd, gd in itertools.product(L + [""], L + [""], L):
            rules = {}
            if rl is not None:
                rules.setdefault(c, {})[t] = {"level": rl} if rl else {}
            if cd is not None:
                rules.setdefault(c, {})["default"] = {"level": cd} if cd else {}
            if gd is not None:
                rules["default"] = {"level": gd}
            user = {"rules": rules}
            cases.append({"id": len(cases), "op": "c04.merge", "user": user, "rules": [key], "provided": prov,
                          "_k": (key, rl, cd, gd)})
        cases.append({"id": len(cases), "op": "c04.merge", "user": None, "rules": [key], "provided": prov,
                      "_k": (key, "nouser")})
    impl, model = ctx.impl(cases), ctx.model(cases)
    for cs in cases:
        key = cs["rules"][0]
        i, m = impl[cs["id"]], model[cs["id"]]
        io, mo = i.get("out") or {}, (m.get("out") or {}).get(key) or {}
        ctx.seen(cs, ("B",) + cs["_k"])
        ctx.count("B:" + key)
        if "error" in io or io.get(key) != mo.get("model"):
            ctx.brk("bundle.go LoadConfigWithDefaultsFromBundle ~ ConfigMerge.mergeCfg", strip(cs), io, mo)
            if "error" in io:
                continue
        k = cs["_k"]
        in_quantifier = len(k) == 4 and k[2] != ""      # a category default key without level is outside
        if not in_quantifier:
            continue
        got = io.get(key)
        eff = got if got not in (None,) else "error"     # rule absent from the config: level_for_rule falls back to error
        if eff != mo.get("spec"):
            custom = key not in prov
            # the recorded finding is exactly: a custom rule gets the level written on the rule itself, nothing else
            own = k[1] if len(k) == 4 else None
            known = custom and got == own
            ctx.fail("merged level deviates from rule > category default > global default > built-in default",
                     strip(cs), "C04-custom-defaults" if known else None, {"impl": got, "spec": mo.get("spec")})
    ctx.sample({"part": "B", "case": strip(cases[5]), "impl": impl[5].get("out")})


def expected(ctx_prov, user, params, fake_nsc):
    """spec decision for each world rule (python mirror is NOT used: asked from the Lean Spec through the driver)"""
    raise NotImplementedError


def part_c(ctx):
    rng = ctx.rng("C")
    n = 40 if ctx.quick else 400
    cases = []
    for k in range(n):
        user, nsc = kernel.gen_user(rng, p_none=0.1)
        if user:
            user.pop("ignore", None)
            for c, rs in user["rules"].items():
                if isinstance(rs, dict):
                    for t, e in rs.items():
                        if isinstance(e, dict):
                            e.pop("ignore", None)
        p = kernel.gen_params(rng, p_empty=0.2)
        p["ignoreFiles"] = []
        cases.append({"op": "kernel.lint", "files": [{"name": "p0.rego", "content": ALL_FILE},
                                                     {"name": "p1.rego", "content": "package p1\n"}], "user": user,
                      "noStringsCount": nsc, "params": p, "prefix": "", "collect": True, "export": False, "enabled": True})
    impl, model = kernel.run_both(ctx, cases)
    prov = kernel.provided(ctx)
    # ask the Lean spec for each rule's decision
    scases = []
    for cs in cases:
        for (c, t) in kernel.WORLD:
            u = cs["user"]
            ur = ((u or {}).get("rules") or {})
            rl = ((ur.get(c) or {}).get(t) or {}).get("level", "")
            cd = ((ur.get(c) or {}).get("default") or {}).get("level", "") if "default" in (ur.get(c) or {}) else ""
            gd = (ur.get("default") or {}).get("level", "")
            scases.append({"id": len(scases), "_case": cs["id"], "_rule": (c, t), "op": "c04.merge",
                           "user": u, "rules": [c + "/" + t], "provided": prov,
                           "_catkey_nolevel": "default" in (ur.get(c) or {}) and not cd})
    sres = ctx.model(scases)
    spec_level = {}
    for s in scases:
        o = (sres[s["id"]].get("out") or {}).get(s["rules"][0]) or {}
        spec_level[(s["_case"], s["_rule"])] = (o.get("spec"), s["_catkey_nolevel"])
    fcases = []
    for cs in cases:
        p = cs["params"]
        for (c, t) in kernel.WORLD:
            lvl, _ = spec_level[(cs["id"], (c, t))]
            fcases.append({"id": len(fcases), "_case": cs["id"], "_rule": (c, t), "op": "c04.fn", "c": c, "t": t,
                           "params": p, "mlevel": lvl})
    # for custom rules: what the chain gives when ONLY the level written on the rule itself is used
    # (the exact content of finding C04-custom-defaults; anything else is a new violation)
    acases = []
    for cs in cases:
        ur = ((cs["user"] or {}).get("rules") or {})
        for (c, t) in kernel.WORLD_CUSTOM:
            a = {"id": "a%d" % len(acases), "_case": cs["id"], "_rule": (c, t), "op": "c04.fn", "c": c, "t": t,
                 "params": cs["params"]}
            if t in (ur.get(c) or {}):
                a["mlevel"] = ((ur.get(c) or {}).get(t) or {}).get("level", "")
            acases.append(a)
    fres = ctx.model(fcases + acases)
    spec, alt = {}, {}
    for f in fcases:
        spec[(f["_case"], f["_rule"])] = (fres[f["id"]].get("out") or {}).get("spec") or {}
    for a in acases:
        alt[(a["_case"], a["_rule"])] = (fres[a["id"]].get("out") or {}).get("spec") or {}
    for cs in cases:
        i, m = impl[cs["id"]], model[cs["id"]]
        ok = kernel.compare(ctx, cs, i, m)
        io = i.get("out") or {}
        ctx.seen(cs, ("C", cs["id"]))
        if "error" in io or not io:
            continue
        seen_levels = {}
        for v in io["violations"]:
            seen_levels.setdefault((v[0], v[1]), set()).add(v[2])
        for (c, t) in kernel.WORLD:
            if (c, t) == ("idiomatic", "use-strings-count") and cs["noStringsCount"]:
                continue   # gated: C19
            sp = spec[(cs["id"], (c, t))]
            _, catkey_nolevel = spec_level[(cs["id"], (c, t))]
            if catkey_nolevel:
                continue   # outside the quantifier
            got = seen_levels.get((c, t))
            custom = (c, t) in kernel.WORLD_CUSTOM
            known = False
            if custom:
                al = alt[(cs["id"], (c, t))]
                known = (not got) if al.get("ignored") else (got == {al.get("level")})
            if sp.get("ignored"):
                if got:
                    ctx.fail("a rule the documented precedence switches off reported", kernel.slim(cs),
                             "C04-custom-defaults" if known else None, {"rule": [c, t], "levels": sorted(got), "spec": sp})
            else:
                if got != {sp.get("level")}:
                    ctx.fail("a rule reports at a level other than the documented precedence gives (or not at all)",
                             kernel.slim(cs), "C04-custom-defaults" if known else None,
                             {"rule": [c, t], "levels": sorted(got or []), "spec": sp})
        # enabled list = exactly the rules that can report
        can = sorted({t for (c, t) in seen_levels})
        listed = sorted(set(io.get("enabled") or []))
        can_b = [t for t in can if t in [x[1] for x in kernel.WORLD_BUILTIN]]
        listed_b = [t for t in listed]
        if sorted(can_b) != sorted(t for t in listed_b if not (t == "use-strings-count" and cs["noStringsCount"])):
            ctx.fail("DetermineEnabledRules differs from the set of built-in rules that report", kernel.slim(cs), None,
                     {"reported": can_b, "listed": listed_b})
        customs_reporting = [t for t in can if t in [x[1] for x in kernel.WORLD_CUSTOM]]
        if customs_reporting:
            ctx.fail("custom rules report but are absent from DetermineEnabledRules", kernel.slim(cs),
                     "C04-custom-enabled", {"reported": customs_reporting, "listed": listed})
    ctx.sample({"part": "C", "params": cases[0]["params"], "user": cases[0]["user"],
                "impl": (impl[0].get("out") or {}).get("violations")})


def run(ctx):
    part_a(ctx)
    part_b(ctx)
    part_c(ctx)


def search(ctx):
    sub = type(ctx)(ctx.pid, "thorough", ctx.seed + 11)
    sub.oracle, sub.driver = ctx.oracle, ctx.driver
    part_c(sub)
    ctx.failures += sub.failures
    ctx.evaluations += sub.evaluations
