"""Shared generators / comparison for the lint-kernel properties (C01 C02 C04 C06 C09 C19).

The 'world' = synthetic marker rules (harness/synth) + two real rules; the Lean kernel with the marker Env
(Driver/World.lean) predicts the whole (world-filtered) report of the real linter."""
import copy
import itertools
import json

WORLD_BUILTIN = [("style", "todo-comment"), ("style", "line-length"), ("bugs", "if-empty-object"),
                 ("idiomatic", "use-strings-count"), ("imports", "unresolved-import"),
                 ("idiomatic", "no-defined-entrypoint")]
WORLD_CUSTOM = [("vcat", "rule-x"), ("vcat", "rule-y"), ("vcat", "agg-x")]
WORLD = WORLD_BUILTIN + WORLD_CUSTOM
CATS = ["vcat", "style", "bugs", "idiomatic", "imports"]
LEVELS = ["", "ignore", "warning", "error"]
NO_STRINGS_COUNT = {"minus": {"builtins": [{"name": "strings.count"}]}}
LONG = "# LONG " + "x" * 125

MARK_LINES = [
    "# V:rule-x", "# V:rule-y", "# V:rule-x V:rule-y", "# TODO: fix", "# todo later", "# fixme", LONG,
    "# HAVEX:m1", "# NEEDX:m1", "# NEEDX:m2", "# HAVEX:m2", "# just a comment", "", "# NEEDX:m3 HAVEX:m3",
]
DIRECTIVES = ["rule-x", "rule-y", "todo-comment", "line-length", "agg-x", "rule-x,rule-y", "rule-x, todo-comment",
              "rule", "rule-xy", "if-empty-object", "unresolved-import", "use-strings-count", "no-defined-entrypoint"]


def gen_file(rng, idx, nfiles=6, rich=True):
    lines = ["package p%d" % idx, ""]
    for _ in range(rng.choice([0, 0, 1, 2])):
        r = rng.random()
        if r < 0.25:
            lines.append("# regal ignore:" + rng.choice(["unresolved-import", "rule-x", "unresolved-import,rule-x"]))
        target = rng.choice(["p%d" % rng.randrange(nfiles + 1), "q%d" % rng.randrange(3)])
        imp = "import data." + target
        if rng.random() < 0.15:
            imp += " # regal ignore:" + rng.choice(["unresolved-import", "todo-comment"])
        lines.append(imp)
    lines.append("")
    n = rng.randint(1, 9 if rich else 4)
    k = 0
    for _ in range(n):
        r = rng.random()
        if r < 0.45:
            lines.append(rng.choice(MARK_LINES))
        elif r < 0.60:
            k += 1
            lines.append('s%d := "V:%s"' % (k, rng.choice(["rule-x", "rule-y"])))
        elif r < 0.68:
            k += 1
            lines.append("ieo%d if {}" % k)
        elif r < 0.75:
            k += 1
            lines.append('sc%d := count(indexof_n("a", "a"))' % k)
        elif r < 0.80:
            k += 1
            lines += ["# METADATA", "# entrypoint: true", "e%d := 1" % k]
        elif r < 0.92:
            lines.append("# regal ignore:" + rng.choice(DIRECTIVES))
        else:
            k += 1
            lines.append('t%d := "V:%s" # regal ignore:%s' % (k, rng.choice(["rule-x", "rule-y"]), rng.choice(DIRECTIVES)))
    return "\n".join(lines) + "\n"


DIRS = ["", "a/", "b/", "a/c/", "b/c/"]


def gen_files(rng, nmin=1, nmax=5, prefix=""):
    n = rng.randint(nmin, nmax)
    files = []
    for i in range(n):
        name = rng.choice(DIRS) + "p%d.rego" % i
        if prefix:
            name = prefix + "/" + name
        files.append({"name": name, "content": gen_file(rng, i, n)})
    return files


IGN_PATTERNS = ["a/", "b/**", "p0.rego", "c", "*.rego", "a/c/", "/b", "p1*", "nomatch/", "**/p2.rego"]


def gen_user(rng, p_none=0.15):
    if rng.random() < p_none:
        return None, False
    rules = {}
    for (c, t) in WORLD:
        if rng.random() < 0.75:
            e = {}
            lv = rng.choice(LEVELS)
            if lv:
                e["level"] = lv
            if rng.random() < 0.2:
                e["ignore"] = {"files": rng.sample(IGN_PATTERNS, rng.randint(1, 2))}
            rules.setdefault(c, {})[t] = e
    for c in CATS:
        if rng.random() < 0.3:
            lv = rng.choice(LEVELS[1:] if rng.random() < 0.9 else LEVELS)
            rules.setdefault(c, {})["default"] = {"level": lv} if lv else {}
    if rng.random() < 0.3:
        rules["default"] = {"level": rng.choice(LEVELS[1:])}
    user = {"rules": rules}
    if rng.random() < 0.2:
        user["ignore"] = {"files": rng.sample(IGN_PATTERNS, rng.randint(1, 2))}
    nsc = rng.random() < 0.4
    if nsc:
        user["capabilities"] = copy.deepcopy(NO_STRINGS_COUNT)
    return user, nsc


def gen_params(rng, p_empty=0.4):
    p = {"disable": [], "enable": [], "disableCategory": [], "enableCategory": [], "disableAll": False,
         "enableAll": False, "ignoreFiles": []}
    if rng.random() < p_empty:
        return p
    titles = [t for (_, t) in WORLD]
    for k in ("disable", "enable"):
        if rng.random() < 0.4:
            p[k] = rng.sample(titles, rng.randint(1, 3))
    for k in ("disableCategory", "enableCategory"):
        if rng.random() < 0.3:
            p[k] = rng.sample(CATS, rng.randint(1, 2))
    p["disableAll"] = rng.random() < 0.25
    p["enableAll"] = rng.random() < 0.25
    if rng.random() < 0.15:
        p["ignoreFiles"] = rng.sample(IGN_PATTERNS, rng.randint(1, 2))
    return p


import atexit
import shutil
import tempfile
_W = tempfile.mkdtemp(prefix="verif-w-")          # a real (empty) directory: Lint walks the prefix for .manifest files
atexit.register(lambda: shutil.rmtree(_W, ignore_errors=True))
ABS_PREFIX = _W + "/proj"
import os
os.makedirs(ABS_PREFIX, exist_ok=True)


def gen_case(rng, nmin=1, nmax=5):
    prefix = rng.choice(["", "", ABS_PREFIX, "file:///w/proj"])
    user, nsc = gen_user(rng)
    c = {"op": "kernel.lint", "files": gen_files(rng, nmin, nmax, prefix), "user": user, "noStringsCount": nsc,
         "params": gen_params(rng), "prefix": prefix, "collect": rng.random() < 0.2, "export": rng.random() < 0.5,
         "enabled": True}
    return c


# ---------------------------------------------------------------- glob table pre-pass

def case_patterns(c):
    pats = set(c["params"].get("ignoreFiles") or [])
    u = c.get("user") or {}
    pats.update(((u.get("ignore") or {}).get("files")) or [])
    for cat, rs in (u.get("rules") or {}).items():
        if not isinstance(rs, dict):
            continue
        for t, e in rs.items():
            if isinstance(e, dict):
                pats.update(((e.get("ignore") or {}).get("files")) or [])
    return pats


def add_glob_tables(ctx, cases):
    """The model's matcher parameter `gm` is instantiated with the REAL gobwas matcher: compiled pattern
    lists and relativised names come from the model (driver), the verdicts from the implementation."""
    allp = sorted(set().union(*[case_patterns(c) for c in cases]) if cases else [])
    if not allp:
        for c in cases:
            c["glob"] = {}
        return
    pc = [{"id": i, "op": "c05.patterns", "pattern": p} for i, p in enumerate(allp)]
    pres = ctx.model(pc)
    compiled = {}
    for q in pc:
        o = pres[q["id"]].get("out") or {}
        compiled[q["pattern"]] = sorted(set((o.get("goEff") or []) + (o.get("regoEff") or [])))
    # names
    names = set()
    for c in cases:
        for f in c["files"]:
            names.add((f["name"], c["prefix"]))
    rc = [{"id": i, "op": "c05.rel", "file": f, "prefix": q} for i, (f, q) in enumerate(sorted(names))]
    rres = ctx.model(rc)
    rel = {}
    for q in rc:
        o = rres[q["id"]].get("out") or {}
        rel[(q["file"], q["prefix"])] = sorted({o.get("go"), o.get("rego"), o.get("regoCustom"), q["file"]})
    pairs = set()
    per_case = []
    for c in cases:
        ps = set()
        for p in case_patterns(c):
            ps.update(compiled.get(p, []))
        ns = {"__aggregate_report__"}
        for f in c["files"]:
            ns.update(rel[(f["name"], c["prefix"])])
        cp = [(p, n) for p in ps for n in ns]
        per_case.append(cp)
        pairs.update(cp)
    pairs = sorted(pairs)
    gc = [{"id": i, "op": "c05.globany", "patterns": [p], "file": n} for i, (p, n) in enumerate(pairs)]
    gres = ctx.impl(gc)
    verdict = {}
    for q, (p, n) in zip(gc, pairs):
        verdict[(p, n)] = gres[q["id"]].get("out") is True
    for c, cp in zip(cases, per_case):
        c["glob"] = {p + "\u0000" + n: verdict[(p, n)] for (p, n) in cp if verdict[(p, n)]}


_PROVIDED = {}


def provided(ctx):
    if "p" not in _PROVIDED:
        r = ctx.impl([{"id": 0, "op": "kernel.provided"}])
        _PROVIDED["p"] = r[0].get("out") or {}
    return _PROVIDED["p"]


def run_both(ctx, cases):
    prov = provided(ctx)
    for i, c in enumerate(cases):
        c["id"] = i
        c["provided"] = prov
    add_glob_tables(ctx, cases)
    impl = ctx.impl(cases, timeout=3000)
    model = ctx.model(cases, timeout=3000)
    return impl, model


KEYS = ["violations", "notices"]


def compare(ctx, c, i, m, pair="Linter.Lint ~ Kernel.lint", keys=None):
    """returns True when implementation and model agree on the world-filtered report"""
    io, mo = i.get("out"), m.get("out")
    if io is None or mo is None:
        ctx.brk(pair, slim(c), i, m)
        return False
    if "error" in io:
        ctx.brk(pair + " (implementation returned an error)", slim(c), io, {"summary": mo.get("summary")})
        return False
    ok = True
    for k in (keys or KEYS):
        if io.get(k) != mo.get(k):
            ok = False
    for k in ("filesScanned", "rulesSkipped"):
        if io["summary"].get(k) != mo["summary"].get(k):
            ok = False
    if c.get("export") and io.get("aggregates") != mo.get("aggregates"):
        ok = False
    if c.get("enabled") and sorted(io.get("enabled") or []) != sorted(mo.get("enabled") or []):
        ok = False
    if not ok:
        ctx.brk(pair, slim(c), io, mo)
    return ok


def slim(c):
    d = {k: v for k, v in c.items() if k not in ("glob", "provided")}
    return d


def selfcheck(ctx, c, io):
    """C02(b): the summary equals what the violation list contains — measured on the implementation's own report"""
    s, sc = io["summary"], io["selfcheck"]
    if s["numViolations"] != sc["numViolations"] or s["filesFailed"] != sc["distinctFiles"]:
        ctx.fail("summary counts differ from the violation list", slim(c), None, {"summary": s, "list": sc})
