"""C15 — language-server diagnostics converge to a from-scratch workspace lint."""
import re
from . import core

PID = "C15"
LEVEL = "proof"
REPLAY_OP = "lsp.history"
RULE = ("event histories (length 1-8: open, change, create, rename, delete, config change; single events and bursts without "
        "pause to trip the rate limiter) over workspaces of 3-4 policy files that import each other (so unresolved-import / "
        "prefer-package-imports flip) incl. contents that stop parsing; the REAL LanguageServer (all workers, in-memory "
        "jsonrpc2 pipe) is driven with them; at quiescence (both job queues empty, no publishDiagnostics for 1.8 s, twice, after a 1.2 s settle) the "
        "last published diagnostics per file are compared with those of a fresh server started on the same final contents. "
        "non-trivial = the history changes some file's diagnostics; distinct = distinct (workspace, history)"
        ' Also: directed aggregate updates under a sparse-collector configuration, change->delete and open->delete->relint bursts, layout-only edits, renames out of the linted set; the cache invariant of the LspCache model read from the real server at quiescence. Every fourth history is delivered one event at a time (2.5 s apart, the server idle in between); edits back to the first text of a file and re-creations of a deleted file with its old contents are generated; directed: importer unparseable while the imported package is renamed, delete and re-create of an imported file.')
TRUSTED = ["sourcegraph/jsonrpc2 dispatch; fsnotify for config changes; idleness is detected by polling (generous deadlines)"]
ASSUMPTIONS = ["worker steps are atomic in the Lean model; finer interleavings are only sampled by the free-running harness"]

CFG = "ignore:\n  files:\n    - ignored/\nrules:\n  idiomatic:\n    directory-package-mismatch:\n      level: ignore\n"
CFG2 = CFG + "  style:\n    opa-fmt:\n      level: ignore\n"


# only the aggregate rules that collect nothing for most files stay active (unresolved-import, prefer-package-imports
# and impossible-not emit an entry for EVERY file, which would hide an update of a file to "no aggregate data")
CFG3 = ("ignore:\n  files:\n    - ignored/\nrules:\n  idiomatic:\n    directory-package-mismatch:\n      level: ignore\n"
        "  imports:\n    unresolved-import:\n      level: ignore\n    prefer-package-imports:\n      level: ignore\n"
        "  bugs:\n    impossible-not:\n      level: ignore\n")


def directed_aggregate_histories(first_id):
    """single-file replacements that change what a file contributes to the aggregate data, through the real server's
    cache (C09: updating one file's aggregates and re-running the report equals a fresh run)"""
    out = []
    for cfg, tag in ((CFG, "all-rules"), (CFG3, "sparse-collectors")):
        # a cycle p0 <-> p1; the change removes p0's import: p0 then aggregates nothing under CFG3
        files = {"p0/f0.rego": content(0, [1], 0), "p1/f1.rego": content(1, [0], 0), "p2/f2.rego": content(2, [], 0),
                 ".regal/config.yaml": cfg}
        out.append({"files": files, "events": [{"kind": "change", "file": "p0/f0.rego", "text": content(0, [], 0), "pauseMs": 300}],
                    "_tag": tag + ":cycle-broken"})
        # and back: the cycle is re-introduced after having been removed
        out.append({"files": files, "events": [{"kind": "change", "file": "p0/f0.rego", "text": content(0, [], 0), "pauseMs": 600},
                                               {"kind": "change", "file": "p0/f0.rego", "text": content(0, [1], 0), "pauseMs": 300}],
                    "_tag": tag + ":cycle-broken-and-restored"})
        # the importer is deleted instead
        out.append({"files": files, "events": [{"kind": "delete", "file": "p0/f0.rego", "pauseMs": 300}], "_tag": tag + ":cycle-member-deleted"})
    for k, c in enumerate(out):
        c.update({"id": first_id + k, "op": "lsp.history"})
    return out


def content(i, imports, variant=0):
    lines = ["package p%d" % i, "", "import rego.v1", ""]
    for j in imports:
        lines.append("import data.p%d" % j)
    if imports:
        lines.append("")
    lines.append(["x := 1", "x = 1", "x := 1 # TODO: y", "x := {"][variant])
    return "\n".join(lines) + "\n"


def relayout(rng, text):
    """the same module with blank / comment lines added in front of the body: same AST, other positions"""
    head, sep, rest = text.partition("\n\n")
    pad = "".join(rng.choice(["\n", "# note\n", "\n\n"]) for _ in range(rng.randint(1, 3)))
    return head + sep + pad + rest


def gen_history(rng, k):
    n = rng.randint(3, 4)
    files = {}
    for i in range(n):
        imps = [j for j in range(n + 1) if j != i and rng.random() < 0.4]
        files["p%d/f%d.rego" % (i, i)] = content(i, imps, rng.choice([0, 0, 1]))
    files[".regal/config.yaml"] = CFG3 if rng.random() < 0.3 else CFG
    names = [f for f in files if f.endswith(".rego")]
    events = []
    burst = rng.random() < 0.35
    live = list(names)
    gone = []
    created = 0
    for _ in range(rng.randint(1, 8)):
        r = rng.random()
        pause = 0 if burst else rng.choice([0, 150, 600])
        if r < 0.15 and live:
            events.append({"kind": "open", "file": rng.choice(live), "pauseMs": pause})
        elif r < 0.55 and live:
            f = rng.choice(live)
            i = int(re.search(r"f(\d+)", f.split("/")[-1]).group(1))    # p3/f3.rego, ignored/f3.rego, p3/f3_r.rego.bak
            imps = [j for j in range(n + 1) if j != i and rng.random() < 0.4]
            t = content(i, imps, rng.choice([0, 1, 2, 3]))
            if f in files and rng.random() < 0.15:
                t = files[f]      # back to the text the file started with (its aggregate data is what it was before)
            events.append({"kind": "change", "file": f, "text": t, "pauseMs": pause})
            if rng.random() < 0.35 and not is_broken(t):
                # followed by an edit that only moves the code (blank / comment lines): diagnostics must move with it
                events.append({"kind": "change", "file": f, "text": relayout(rng, t), "pauseMs": rng.choice([0, 150, 600])})
        elif r < 0.68:
            if gone and rng.random() < 0.4:
                f = gone.pop()    # a deleted file comes back under its old name with its old contents
                events.append({"kind": "create", "file": f, "text": files[f], "pauseMs": pause})
                live.append(f)
                continue
            i = n + created
            created += 1
            f = "p%d/f%d.rego" % (i, i)
            events.append({"kind": "create", "file": f, "text": content(i, [rng.randrange(n)], 0), "pauseMs": pause})
            live.append(f)
        elif r < 0.82 and len(live) > 2:
            f = rng.choice(live)
            live.remove(f)
            if f in files:
                gone.append(f)
            events.append({"kind": "delete", "file": f, "pauseMs": pause})
        elif r < 0.92 and live:
            f = rng.choice(live)
            to = rng.choice([f.replace(".rego", "_r.rego"), f.replace(".rego", "_r.rego"), f + ".bak",
                             "ignored/" + f.split("/")[-1]])
            if to not in live:
                live.remove(f)
                live.append(to)
                events.append({"kind": "rename", "file": f, "to": to, "pauseMs": pause})
        else:
            events.append({"kind": "config", "text": rng.choice([CFG, CFG2, CFG, CFG2, CFG, CFG2, CFG3]), "pauseMs": max(pause, 300)})
    if k % 4 == 3:
        # "delivered one at a time": every event is sent after the server has worked off the previous one
        events = [dict(e, pauseMs=2500) for e in events]
    return {"id": k, "op": "lsp.history", "files": files, "events": events}


AGG = {"unresolved-import", "prefer-package-imports", "circular-import"}


def final_contents(c):
    cur = {f: t for f, t in c["files"].items() if f.endswith(".rego")}
    for e in c["events"]:
        k = e["kind"]
        if k in ("change", "create") and (k == "create" or e["file"] in cur):
            cur[e["file"]] = e["text"]
        elif k == "delete":
            cur.pop(e["file"], None)
        elif k == "rename" and e["file"] in cur and e["to"] not in cur:
            cur[e["to"]] = cur.pop(e["file"])
    return cur


def is_broken(text):
    return text.rstrip().endswith("{")


def stale_workspaces(c, limit=12):
    """the final workspace in which every file that no longer parses is replaced by an EARLIER version of it that did
    parse — what the server's cache may still hold for that URI (finding C15-parse-error-keeps-stale-aggregates): the
    last version the file worker managed to parse before the contents changed again, which in a burst need not be the
    last parseable text that was sent. Returns the candidate workspaces (most recent versions first; a broken file that
    never parsed under its current URI is left out) and the broken files; ([], []) when no final file is broken."""
    import itertools
    cur = {f: t for f, t in c["files"].items() if f.endswith(".rego")}
    good = {f: ([] if is_broken(t) else [t]) for f, t in cur.items()}
    cfg = c["files"].get(".regal/config.yaml")
    for e in c["events"]:
        k = e["kind"]
        if k in ("change", "create") and (k == "create" or e["file"] in cur):
            cur[e["file"]] = e["text"]
            good.setdefault(e["file"], [])
            if not is_broken(e["text"]):
                good[e["file"]].append(e["text"])
        elif k == "delete":
            cur.pop(e["file"], None)
            good.pop(e["file"], None)
        elif k == "rename" and e["file"] in cur and e["to"] not in cur:
            cur[e["to"]] = cur.pop(e["file"])
            good.pop(e["file"], None)
            good[e["to"]] = [] if is_broken(cur[e["to"]]) else [cur[e["to"]]]
        elif k == "config":
            cfg = e["text"]
    broken = sorted(f for f, t in cur.items() if is_broken(t))
    if not broken:
        return [], []
    options = []
    for f in broken:
        vs = list(dict.fromkeys(reversed(good.get(f) or [])))      # most recent first, distinct
        options.append(vs + [None])
    out = []
    for combo in itertools.islice(itertools.product(*options), limit):
        files = {f: t for f, t in cur.items() if f not in broken}
        for f, t in zip(broken, combo):
            if t is not None:
                files[f] = t
        if cfg is not None:
            files[".regal/config.yaml"] = cfg
        out.append(files)
    return out, broken


def run(ctx):
    rng = ctx.rng()
    guarded_store_facts(ctx)
    cases = [gen_history(rng, k) for k in range(16 if ctx.quick else 300)]
    # directed: delete / rename-away a package that another (parseable) file imports
    for kind in ("delete", "rename"):
        files = {"p0/f0.rego": content(0, [1], 0), "p1/f1.rego": content(1, [], 0), "p2/f2.rego": content(2, [0], 0),
                 ".regal/config.yaml": CFG}
        ev = {"kind": "delete", "file": "p1/f1.rego"} if kind == "delete" else {"kind": "rename", "file": "p1/f1.rego", "to": "p1/g1.rego"}
        cases.append({"id": len(cases), "op": "lsp.history", "files": files, "events": [ev], "_strict": True})
    # directed: a package that another file imports is renamed out of the linted set (into the ignored directory / to a
    # non-.rego name): for the workspace that is a deletion
    for to in ("ignored/f1.rego", "p1/f1.rego.bak"):
        files = {"p0/f0.rego": content(0, [1], 0), "p1/f1.rego": content(1, [], 0), "p2/f2.rego": content(2, [0, 1], 0),
                 ".regal/config.yaml": CFG}
        cases.append({"id": len(cases), "op": "lsp.history", "files": files,
                      "events": [{"kind": "rename", "file": "p1/f1.rego", "to": to, "pauseMs": 300}], "_strict": True})
    cases += [dict(x, _strict=True) for x in directed_aggregate_histories(len(cases))]
    # directed bursts: a change immediately followed by the deletion of the same file (the lint job of the change is
    # still in flight when the file disappears) — several repetitions, the schedule is not controlled
    for rep in range(4 if ctx.quick else 16):
        files = {"p0/f0.rego": content(0, [1], 0), "p1/f1.rego": content(1, [], 1), "p2/f2.rego": content(2, [1], 0),
                 ".regal/config.yaml": CFG}
        evs = [{"kind": "open", "file": "p1/f1.rego", "pauseMs": 0}] if rep % 2 else []
        for k in range(1 + rep % 3):
            evs.append({"kind": "change", "file": "p1/f1.rego", "text": content(1, [], 1 + (k % 2)), "pauseMs": 0})
        evs.append({"kind": "delete", "file": "p1/f1.rego", "pauseMs": 0})
        cases.append({"id": len(cases), "op": "lsp.history", "files": files, "events": evs, "_strict": True})
    # directed: a file is opened and deleted at once (its parse / lint job is in flight when it disappears), then the
    # whole workspace is linted again (config change): nothing of the deleted file may survive in the cache
    for rep in range(4 if ctx.quick else 16):
        files = {"p0/f0.rego": content(0, [], 0), "p1/f1.rego": content(1, [2], 0), "p2/f2.rego": content(2, [0, 1], 0),
                 ".regal/config.yaml": CFG3}
        evs = [{"kind": "open" if rep % 2 == 0 else "change", "file": "p2/f2.rego", "text": content(2, [0, 1], 1), "pauseMs": 0},
               {"kind": "delete", "file": "p2/f2.rego", "pauseMs": 0},
               {"kind": "config", "text": CFG2, "pauseMs": 300}]
        cases.append({"id": len(cases), "op": "lsp.history", "files": files, "events": evs, "_strict": True})
    # directed: a file stops parsing and is then deleted / renamed away while still broken: nothing (no parse error
    # either) may stay published for the removed URI
    for ev in ({"kind": "delete", "file": "p1/f1.rego", "pauseMs": 300},
               {"kind": "rename", "file": "p1/f1.rego", "to": "p1/g1.rego", "pauseMs": 300}):
        files = {"p0/f0.rego": content(0, [1], 0), "p1/f1.rego": content(1, [], 0), "p2/f2.rego": content(2, [0], 0),
                 ".regal/config.yaml": CFG}
        cases.append({"id": len(cases), "op": "lsp.history", "files": files, "_strict": True,
                      "events": [{"kind": "change", "file": "p1/f1.rego", "text": content(1, [], 3), "pauseMs": 700}, ev]})
    # directed: the aggregate report must be re-run after a file job even when that file's own aggregate data is what it
    # was before: (1) the importer is unparseable while the imported package is renamed, then restored to its old text;
    # (2) an imported file is deleted and re-created with the same contents
    for rep in range(1 if ctx.quick else 4):
        files = {"p0/f0.rego": content(0, [1], 0), "p1/f1.rego": content(1, [], 0), "p2/f2.rego": content(2, [0], 0),
                 ".regal/config.yaml": CFG}
        cases.append({"id": len(cases), "op": "lsp.history", "files": files, "_strict": True, "events": [
            {"kind": "change", "file": "p0/f0.rego", "text": content(0, [1], 3), "pauseMs": 2500},
            {"kind": "change", "file": "p1/f1.rego", "text": content(5, [], 0), "pauseMs": 3000},
            {"kind": "change", "file": "p0/f0.rego", "text": content(0, [1], 0), "pauseMs": 700}]})
        cases.append({"id": len(cases), "op": "lsp.history", "files": files, "_strict": True, "events": [
            {"kind": "open", "file": "p1/f1.rego", "pauseMs": 2500},
            {"kind": "delete", "file": "p1/f1.rego", "pauseMs": 3000},
            {"kind": "create", "file": "p1/f1.rego", "text": content(1, [], 0), "pauseMs": 700}]})
    # directed: plain starts on a workspace that already has a file in the ignored directory (the workspace is linted
    # with the default configuration before the user's config is loaded)
    for rep in range(6 if ctx.quick else 24):
        files = {"ignored/f0.rego": content(0, [2, 3], 0), "p1/f1.rego": content(1, [], 1), "p2/f2.rego": content(2, [1], 0),
                 ".regal/config.yaml": CFG3 if rep % 2 else CFG}
        cases.append({"id": len(cases), "op": "lsp.history", "files": files, "events": [], "_strict": True})
    evaluate(ctx, cases)


def guarded_store_facts(ctx):
    """tie of the LspCache model's one-step "re-check and store" (and of the publication order) to the code: the
    stores of parse / lint results are inside cache.IfPresent closures, Delete / Rename / IfPresent share a lock,
    sendFileDiagnostics is serialized (facts.lspstores ~ facts/c15_guarded_stores.json)"""
    import json as _json, os
    got = ctx.impl([{"id": 0, "op": "facts.lspstores"}])[0].get("out")
    base = _json.load(open(os.path.join(core.VERIF, "facts", "c15_guarded_stores.json")))["facts"]
    ctx.seen({"facts.lspstores": len(got or [])}, ("facts.lspstores",))
    if got != base:
        ctx.brk("internal/lsp stores of parse / lint results ~ facts/c15_guarded_stores.json (the model's step re-checks "
                "and stores atomically: cache.IfPresent under the lock of Delete; publications are serialized)",
                {"op": "facts.lspstores"},
                {"new": [x for x in (got or []) if x not in base], "gone": [x for x in base if x not in (got or [])]}, None)


def search(ctx):
    """an obligation or a tie broke (e.g. a store of lint results that is no longer atomic with the deletion of its
    file) and the regular histories found no failing one: sweep the pause between an edit and the removal of the
    same file across the duration of a lint, with and without a workspace job in flight, under more parallel load"""
    cases = []
    for rep in range(2):
        for pause in range(0, 520, 13):
            files = {"p0/f0.rego": content(0, [1], 0), "p1/f1.rego": content(1, [], 1), "p2/f2.rego": content(2, [1], 0),
                     ".regal/config.yaml": CFG}
            evs = [{"kind": "change", "file": "p1/f1.rego", "text": content(1, [], 2), "pauseMs": pause}]
            if rep:
                evs.append({"kind": "rename", "file": "p1/f1.rego", "to": "p1/g1.rego", "pauseMs": 0})
            else:
                evs.append({"kind": "delete", "file": "p1/f1.rego", "pauseMs": 0})
            cases.append({"id": len(cases), "op": "lsp.history", "files": files, "events": evs, "_strict": True})
    for pause in range(0, 400, 20):
        files = {"p0/f0.rego": content(0, [2], 0), "p1/f1.rego": content(1, [2, 3], 0), "p2/f2.rego": content(2, [0], 0),
                 "p3/f3.rego": content(3, [0, 2], 0), ".regal/config.yaml": CFG}
        evs = [{"kind": "delete", "file": "p2/f2.rego", "pauseMs": pause},
               {"kind": "change", "file": "p0/f0.rego", "text": content(0, [2], 1), "pauseMs": 0},
               {"kind": "rename", "file": "p0/f0.rego", "to": "p0/f0_r.rego", "pauseMs": 0}]
        cases.append({"id": len(cases), "op": "lsp.history", "files": files, "events": evs, "_strict": True})
    before = len(ctx.failures)
    evaluate(ctx, cases, procs=12)
    if any(not f.get("finding") for f in ctx.failures[before:]):
        return
    # nothing yet: the same sweep against the current tree built with a perturbed SCHEDULE (sleeps before the stores of
    # lint results and before non-empty publications; values and control flow untouched), which widens the windows
    # between check and store / read and notify from microseconds to tens of milliseconds
    extra, ok = core.perturbed_lsp()
    if not ok:
        ctx.count("schedule-perturbation-anchors-missing")
        return
    try:
        alt = core.build_oracle(extra=extra, name="oracle-sched")
    except core.BuildBroken:
        ctx.count("schedule-perturbation-build-failed")
        return
    std = ctx.oracle
    ctx.oracle = alt
    try:
        evaluate(ctx, [dict(c, schedule="widened") for c in cases], procs=8)
    finally:
        ctx.oracle = std


def replay_oracle(ctx, case):
    if case.get("schedule") != "widened":
        return None
    extra, ok = core.perturbed_lsp()
    return core.build_oracle(extra=extra, name="oracle-sched") if ok else None


def evaluate(ctx, cases, procs=6):
    impl = ctx.impl(cases, timeout=3000, procs=procs)
    pending = []
    orphaned = []
    for c in cases:
        r = impl[c["id"]]
        o = r.get("out") or {}
        desc = {"files": c["files"], "events": c["events"]}
        if c.get("schedule"):
            # see core.perturbed_lsp: sleeps before stores / publications, nothing else changed
            desc["schedule"] = c["schedule"]
        if "panic" in r or "crash" in r:
            ctx.fail("the language server crashed", desc, None, str(r)[:800])
            continue
        if "error" in o:
            ctx.brk("lsp.history harness", desc, o, None)
            continue
        if not o.get("idle") or not o.get("freshIdle"):
            fin = final_contents(c)
            parseable = [f for f in fin if f.endswith(".rego") and not f.startswith("ignored/") and not is_broken(fin[f])]
            known = None
            if o.get("idle") and not parseable and not any((o.get("fresh") or {}).values()):
                known = "C15-no-parseable-module-nothing-published"
            ctx.fail("the server did not become idle within the deadline", desc, known, {"idle": o.get("idle"), "fresh": o.get("freshIdle")})
            continue
        # the invariant of the LspCache model (theorem cache_never_outlives_file) on the real cache at quiescence
        if o.get("orphanModules") or o.get("orphanAggregates"):
            orphaned.append((c, desc, {"cache holds data of a removed file": {"modules": o.get("orphanModules"),
                                                                             "aggregates": o.get("orphanAggregates")}}))
        pub, fresh = o["published"], o["fresh"]
        # every configuration used here ignores the directory ignored/: nothing may stay published for a file in it,
        # neither by the server that lived through the history nor by the freshly started reference server
        for which, m in (("history server", pub), ("fresh server", fresh)):
            bad = {f: d for f, d in m.items() if f.startswith("/ignored/") and d}
            if bad:
                ctx.fail("diagnostics stay published for a file the configuration ignores (%s)" % which, desc, None, bad)
        diff = {}
        for f in sorted(set(pub) | set(fresh)):
            a, b = pub.get(f, []), fresh.get(f, [])
            if f not in o["files"]:
                b = []     # not in the workspace any more: nothing may remain published
            if a != b:
                diff[f] = {"published": a, "fresh": b, "missing": [x for x in b if x not in a], "extra": [x for x in a if x not in b]}
        changed = any(pub.get(f) for f in pub)
        ctx.seen(c, ("h", c["id"]) if changed else None)
        ctx.count("events=%d%s" % (len(c["events"]), " diff" if diff else ""))
        if diff:
            pending.append((c, desc, diff, pub))
    # exact classification of finding C15-parse-error-keeps-stale-aggregates: the published diagnostics of every
    # parseable file equal those of a fresh server on the workspace in which the unparseable files are replaced by
    # their last parseable versions. Anything else is a new violation.
    alt = []
    for (c, desc, diff, pub) in pending:
        cands, broken = stale_workspaces(c)
        for files in cands:
            alt.append({"id": len(alt), "op": "lsp.history", "files": files, "events": [], "_for": c["id"], "_broken": broken})
    altres = ctx.impl(alt, timeout=3000, procs=6) if alt else {}
    altby = {}
    unexplained = []
    for a in alt:
        altby.setdefault(a["_for"], []).append((a, altres[a["id"]].get("out") or {}))
    for (c, desc, diff, pub) in pending:
        known = None
        # finding C15-config-change-keeps-old-aggregates: configurations with different sets of enabled aggregate rules
        # in one history, and only diagnostics of aggregate rules differ
        cfgs = [c["files"].get(".regal/config.yaml", "")] + [e["text"] for e in c["events"] if e["kind"] == "config"]
        sparse = {("impossible-not" in t) for t in cfgs}
        if len(sparse) > 1 and all(x.split("@")[0] in AGG | {"impossible-not"}
                                   for d in diff.values() for x in d["missing"] + d["extra"]):
            known = "C15-config-change-keeps-old-aggregates"
        final = final_contents(c)
        linted = [f for f in final if f.endswith(".rego") and not f.startswith("ignored/") and not is_broken(final[f])]
        aggcodes = AGG | {"impossible-not"}
        if known is None:
            r1 = 0
            for f, d in diff.items():
                if len(linted) <= 1 and not d["missing"] and all(x.split("@")[0] in aggcodes for x in d["extra"]):
                    r1 += 1
                else:
                    r1 = -10 ** 6
            if r1 > 0:
                known = "C15-single-file-workspace-no-aggregates"
        for a, ao in (altby.get(c["id"], []) if known is None else []):
            if ao.get("idle") and "published" in ao:
                skip = {"/" + f for f in a["_broken"]}
                if all(pub.get(f, []) == ao["published"].get(f, []) for f in (set(pub) | set(ao["published"])) - skip):
                    known = "C15-parse-error-keeps-stale-aggregates"
                    break
        if known is None and c.get("_strict"):
            # a directed scenario: the races it exercises are repaired in the tree, any divergence is a violation
            ctx.fail("at quiescence the server's state differs from a fresh lint of the final workspace (directed scenario)",
                     desc, None, diff)
        elif known is None:
            unexplained.append((c, desc, diff))
        else:
            ctx.fail("at quiescence the server's state differs from a fresh lint of the final workspace (published diagnostics / cache)",
                 desc, known, diff)
    # finding C15-burst-races, operational classifier: the same history with every pause stretched to >= 700 ms converges
    for (c, desc, diff) in orphaned:
        if c.get("_strict"):
            ctx.fail("at quiescence the server's cache holds a module / aggregate data of a removed file (directed scenario)",
                     desc, None, diff)
        else:
            unexplained.append((c, desc, diff))
    paced = []
    for (c, desc, diff) in unexplained:
        evs = [dict(e, pauseMs=max(e.get("pauseMs") or 0, 700)) for e in c["events"]]
        paced.append({"id": len(paced), "op": "lsp.history", "files": c["files"], "events": evs})
    pres = ctx.impl(paced, timeout=3000, procs=6) if paced else {}
    # a paced replay that still differs may do so only because of the parse-error finding (a broken final file): compare
    # it with the stale-workspace candidates as well
    alt2 = []
    for k, (c, desc, diff) in enumerate(unexplained):
        cands, broken = stale_workspaces(c)
        for files in cands:
            alt2.append({"id": len(alt2), "op": "lsp.history", "files": files, "events": [], "_for": k, "_broken": broken})
    a2res = ctx.impl(alt2, timeout=3000, procs=6) if alt2 else {}
    a2by = {}
    for a in alt2:
        a2by.setdefault(a["_for"], []).append((a, a2res[a["id"]].get("out") or {}))
    for k, (c, desc, diff) in enumerate(unexplained):
        o = pres[k].get("out") or {}
        known = None
        if o.get("idle") and o.get("freshIdle") and "published" in o and not o.get("orphanModules") and not o.get("orphanAggregates"):
            same = all(o["published"].get(f, []) == (o["fresh"].get(f, []) if f in o["files"] else [])
                       for f in set(o["published"]) | set(o["fresh"]))
            if not same:
                for a, ao in a2by.get(k, []):
                    if ao.get("idle") and "published" in ao:
                        skip = {"/" + f for f in a["_broken"]}
                        if all(o["published"].get(f, []) == ao["published"].get(f, [])
                               for f in (set(o["published"]) | set(ao["published"])) - skip):
                            same = True
                            break
            if same:
                known = "C15-burst-races"
                ctx.count("burst-race")
        ctx.fail("at quiescence the server's state differs from a fresh lint of the final workspace (published diagnostics / cache)",
                 desc, known, diff)
    ctx.sample({"events": cases[0]["events"], "published": (impl[0].get("out") or {}).get("published")})
