"""C13 — fixing conserves files: nothing lost or overwritten, conflicts honoured."""
import concurrent.futures
import hashlib
import itertools
import os
import re
import subprocess

from . import core

PID = "C13"
LEVEL = "proof"
RULE = ("(a) random Put/Rename sequences (length <= 10, 2-5 files, targets chosen to collide, swap and chain) on the real "
        "InMemoryFileProvider; (b) renameCandidate over a name grammar (dirs, stems with '_' and digits, counters with leading "
        "zeros / MaxInt64 / overflow, _test, extensions) iterated 3 times; (c) FindClosestMatchingRoot over roots/paths with "
        "sibling names sharing a prefix; (d) DirCleanUpPaths on real temp trees; (e) the real `regal fix --force` binary on "
        "generated workspaces (<= 6 files, <= 3 roots via config, packages chosen so that moves collide with existing files, "
        "with each other, swap or chain, targets outside the argument), both conflict modes, dry-run on/off; every file "
        "carries a unique id comment and the oracle checks the one-to-one mapping. non-trivial = a collision or move happens")
TRUSTED = ["os.Remove / os.WriteFile / MkdirAll; OPA format keeps comments (the id markers)"]
ASSUMPTIONS = ["renameCandidate counters stay below MaxInt64 (at the int64 wrap-around the real function produces "
               "'name_-9223372036854775808', still a fresh name; the Nat model is exact below that)"]

P = ["a.rego", "b.rego", "d/a.rego", "d/b.rego", "e/a.rego", "a_1.rego"]


def part_provider(ctx):
    rng = ctx.rng("prov")
    cases = []
    for k in range(300 if ctx.quick else 4000):
        names = rng.sample(P, rng.randint(2, 5))
        files = {n: "id:%d" % i for i, n in enumerate(names)}
        ops = []
        for _ in range(rng.randint(1, 10)):
            if rng.random() < 0.35:
                f = rng.choice(P)
                ops.append({"k": "put", "f": f, "c": None})
            else:
                ops.append({"k": "rename", "s": rng.choice(P), "d": rng.choice(P)})
        cases.append({"id": k, "op": "c13.provider", "files": files, "ops": ops})
    # Put content: keeps the id of whatever is at the path — resolved by simulating ids in python is the oracle's job;
    # to stay independent the content written is "fixed:<step>" appended to the current content by the harness side.
    for c in cases:
        for n, o in enumerate(c["ops"]):
            if o["k"] == "put":
                o["c"] = "fixed-%d" % n
    impl, model = ctx.impl(cases), ctx.model(cases)
    for c in cases:
        i, m = impl[c["id"]].get("out") or {}, model[c["id"]].get("out") or {}
        moved = "ok" in [r for r, o in zip(i.get("results") or [], c["ops"]) if o["k"] == "rename"]
        confl = "conflict" in (i.get("results") or [])
        ctx.seen(c, ("prov", c["id"]) if (moved or confl) else None)
        ctx.count("provider:" + ("conflict" if confl else "moved" if moved else "plain"))
        mm = {k: v for k, v in m.items() if k != "origins"}
        if i != mm:
            ctx.brk("fileprovider/inmem.go ~ FileProvider.step", c, i, mm)
        # property on the implementation: number of files conserved, paths unique, a Put never creates a file
        paths = [f[0] for f in i.get("files") or []]
        if len(paths) != len(set(paths)) or len(paths) != len(c["files"]):
            ctx.fail("the provider lost, duplicated or created a file", c, None, i)
    ctx.sample({"part": "provider", "ops": cases[0]["ops"], "impl": impl[0].get("out")})


def part_candidate(ctx):
    cases = []
    for d, stem, cnt, test, ext in itertools.product(
            ["", "a", "a/b.c"], ["p", "p_q", "p_1x", "p1", "_"], [None, "1", "9", "09", "007", "99", "4611686018427387904"],
            [False, True], [".rego", "", ".tar.gz"]):
        base = stem + ("_" + cnt if cnt is not None else "") + ("_test" if test else "") + ext
        cases.append({"id": len(cases), "op": "c13.candidate", "name": (d + "/" if d else "") + base, "iter": 3})
    impl, model = ctx.impl(cases), ctx.model(cases)
    for c in cases:
        a, b = impl[c["id"]].get("out"), model[c["id"]].get("out")
        ctx.seen(c, ("cand", c["name"]))
        if a != b:
            ctx.brk("fixer/rename.go renameCandidate ~ FileProvider.candidate (on the parsed name)", c, a, b)
        seq = [c["name"]] + (a or [])
        if len(set(seq)) != len(seq):
            ctx.fail("renameCandidate repeats a name: the conflict loop cannot make progress", c, None, seq)
    ctx.sample({"part": "candidate", "name": cases[40]["name"], "impl": impl[40].get("out")})


def part_root(ctx):
    names = ["/w", "/w/foo", "/w/foobar", "/w/foo/bar", "/w/fo", "/x"]
    files = ["/w/foo/x.rego", "/w/foobar/x.rego", "/w/foo/bar/x.rego", "/w/x.rego", "/w/fo/x.rego", "/y/x.rego", "/w/foo"]
    cases = []
    for n in range(1, 4):
        for roots in itertools.permutations(names, n):
            for f in files:
                cases.append({"id": len(cases), "op": "c13.root", "roots": list(roots), "path": f})
    impl, model = ctx.impl(cases), ctx.model(cases)
    for c in cases:
        a, b = impl[c["id"]].get("out"), model[c["id"]].get("out")
        ctx.seen(c, ("root", tuple(c["roots"]), c["path"]) if a else None)
        if a != b:
            ctx.brk("util.go FindClosestMatchingRoot ~ FileProvider.closestRoot", c, a, b)
        if a:
            ok = c["path"] == a or c["path"].startswith(a.rstrip("/") + "/")
            deeper = [r for r in c["roots"] if (c["path"] == r or c["path"].startswith(r + "/")) and len(r) > len(a)]
            if not ok or deeper:
                ctx.fail("closest root is not the nearest ancestor directory of the file", c, None, a)


def part_cleanup(ctx):
    rng = ctx.rng("clean")
    cases = []
    dirs = ["a", "a/b", "a/b/c", "a/d", "e", "e/f"]
    for k in range(150 if ctx.quick else 2000):
        fs = set()
        target_dir = rng.choice(dirs)
        target = target_dir + "/t.rego"
        fs.add(target)
        for _ in range(rng.randint(0, 3)):
            fs.add(rng.choice(dirs) + "/" + rng.choice(["x.rego", "y.txt"]))
        cases.append({"id": k, "op": "c13.cleanup", "files": sorted(fs), "dirs": rng.sample(dirs, rng.randint(0, 2)),
                      "preserve": rng.sample(["a", "e", "a/b"], rng.randint(1, 2)), "target": target})
    impl = ctx.impl(cases)
    model = ctx.model(cases)
    for c in cases:
        o = impl[c["id"]].get("out") or {}
        ctx.seen(c, ("clean", c["id"]) if o.get("removed") else None)
        if "error" in o or (not o.get("failed") and o.get("removed") != model[c["id"]].get("out")):
            ctx.brk("util.DirCleanUpPaths ~ Cleanup.dirCleanUpPaths", c, o, model[c["id"]].get("out"))
        if o.get("failed"):
            ctx.fail("DirCleanUpPaths returned a directory that is not empty", c, None, o)
        for r in o.get("removed") or []:
            if any(p == r or p.startswith(r + "/") for p in c["preserve"]):
                ctx.fail("DirCleanUpPaths removed a project root or one of its ancestors", c, None, o)


def snapshot(root):
    out = {}
    for d, dirs, files in os.walk(root):
        for f in files:
            p = os.path.join(d, f)
            out[os.path.relpath(p, root)] = open(p, "rb").read().decode("utf-8", "replace")
    return out


PKGS = ["a", "b", "a.b", "foo.a", "foo"]
DIRS = ["a", "b", "a/b", "foo/a", "foo", "foobar", "src"]


def part_e2e(ctx):
    rng = ctx.rng("e2e")
    regal = core.build_regal()
    n = 40 if ctx.quick else 500
    with core.Scratch("verif-c13") as tmp:
        tmp = os.path.realpath(tmp)

        def one(k):
            r = core.rng_for(ctx.seed, "C13e2e%d" % k)
            w = os.path.join(tmp, "s%d" % k, "w")
            os.makedirs(os.path.join(w, ".regal"))
            roots = r.sample(["foo", "foobar", "src"], r.randint(0, 2))
            cfg = "rules: {}\n"
            if roots:
                cfg += "project:\n  roots:\n" + "".join("    - %s\n" % x for x in roots)
            open(os.path.join(w, ".regal", "config.yaml"), "w").write(cfg)
            nfiles = r.randint(1, 6)
            ids = {}
            for i in range(nfiles):
                d = r.choice(DIRS)
                name = r.choice(["x.rego", "y.rego", "x_test.rego"])
                rel = d + "/" + name
                if rel in ids:
                    continue
                pkg = r.choice(PKGS)
                os.makedirs(os.path.join(w, d), exist_ok=True)
                open(os.path.join(w, rel), "w").write("package %s\n\n# id:%d\nr%d := %d\n" % (pkg, i, i, i))
                ids[rel] = i
            # an unrelated non-rego file that must never change
            open(os.path.join(w, "a.txt"), "w").write("keep\n")
            mode = r.choice(["error", "rename"])
            dry = r.random() < 0.2
            argsel = r.choice(["root", "root", "sub"])
            arg = w if argsel == "root" else os.path.join(w, r.choice(sorted({x.split("/")[0] for x in ids})))
            if k % 4 == 0:
                # directed: the move target exists on disk but is outside the path argument (not loaded by the fixer)
                os.makedirs(os.path.join(w, "src"), exist_ok=True)
                os.makedirs(os.path.join(w, "a"), exist_ok=True)
                open(os.path.join(w, "src", "z.rego"), "w").write("package a\n\n# id:100\nz := 1\n")
                if not os.path.exists(os.path.join(w, "a", "z.rego")):
                    open(os.path.join(w, "a", "z.rego"), "w").write("package a\n\n# id:101\nprecious := 1\n")
                arg = os.path.join(w, "src")
            before = snapshot(w)
            cmd = [regal, "fix", "--force", "--on-conflict", mode] + (["--dry-run"] if dry else []) + [arg]
            p = subprocess.run(cmd, cwd=tmp, stdout=subprocess.PIPE, stderr=subprocess.STDOUT, text=True, timeout=60,
                               env=dict(os.environ, NO_COLOR="1"))
            after = snapshot(w)
            return {"k": k, "roots": roots, "mode": mode, "dry": dry, "arg": os.path.relpath(arg, w), "rc": p.returncode,
                    "out": p.stdout[-500:], "before": before, "after": after, "timeout": False}
        with concurrent.futures.ThreadPoolExecutor(max_workers=12) as ex:
            results = list(ex.map(one, range(n)))
    idre = re.compile(r"# id:(\d+)")
    for r in results:
        before, after = r["before"], r["after"]
        changed = before != after
        desc = {k: v for k, v in r.items() if k not in ("after",)}
        ctx.seen(r, ("e2e", r["k"]) if changed or r["rc"] != 0 else None)
        ctx.count("e2e:%s%s rc=%d%s" % (r["mode"], " dry" if r["dry"] else "", r["rc"], " changed" if changed else ""))
        if r["dry"] and changed:
            ctx.fail("--dry-run changed the disk", desc, None, {"after": after})
        if r["rc"] != 0 and changed:
            ctx.fail("regal fix failed (conflict / refusal) but the disk changed", desc, None, {"after": after})
        ids_b = sorted(int(m) for c in before.values() for m in idre.findall(c))
        ids_a = sorted(int(m) for p, c in after.items() if p.endswith(".rego") for m in idre.findall(c))
        if ids_a != ids_b:
            ctx.fail("files are not mapped one-to-one: an original file's content is missing or duplicated after fix",
                     desc, None, {"ids_before": ids_b, "ids_after": ids_a, "after": sorted(after)})
        for p, c in before.items():
            if not p.endswith(".rego") and after.get(p) != c:
                ctx.fail("a file that is not a policy was changed", desc, None, {"file": p})
        # every file stays inside its project root (closest configured root by components, else the workspace)
        def root_of(path):
            best = ""
            for rt in r["roots"]:
                if path.startswith(rt + "/") and len(rt) > len(best):
                    best = rt
            return best
        loc_b = {int(m): p for p, c in before.items() for m in idre.findall(c)}
        loc_a = {int(m): p for p, c in after.items() if p.endswith(".rego") for m in idre.findall(c)}
        for i, pb in loc_b.items():
            pa = loc_a.get(i)
            if pa and pa != pb and root_of(pb) != root_of(pa) and not pa.startswith((root_of(pb) + "/") if root_of(pb) else ""):
                ctx.fail("a file was moved out of its project root", desc, None, {"id": i, "from": pb, "to": pa})
        if changed:
            ctx.sample({"roots": r["roots"], "mode": r["mode"], "arg": r["arg"], "before": sorted(before), "after": sorted(after)}, limit=3)


def run(ctx):
    part_provider(ctx)
    part_candidate(ctx)
    part_root(ctx)
    part_cleanup(ctx)
    part_e2e(ctx)
