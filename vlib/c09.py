"""C09 — two-phase (collect, then report) aggregate linting equals one-shot linting."""
import itertools

from . import kernel, aggworld, c15

PID = "C09"
LEVEL = "proof"
RULE = ("workspaces of 2-6 marker files exercising imports/unresolved-import, idiomatic/no-defined-entrypoint (location-less) "
        "and the custom aggregate rule vcat/agg-x incl. its invoked-but-empty marker; every set partition of the files for "
        "<= 4 files (random ones above), random merge orders; through the Linter API (collect+export per part, WithAggregates). "
        "non-trivial = the one-shot run has at least one aggregate violation; distinct = (workspace, partition, order)"
        ' Also: all partitions / merge orders with the six real aggregate rules (implementation only) and single-file replacements through the real language server cache.')
TRUSTED = ["Env.AggPermInvariant for the real aggregate rules (sampled here by the merge orders)",
           "Env boundary: rule packages / OPA"]
ASSUMPTIONS = ["the report run is given the same ignore directives as the one-shot run (false for the real pipeline: finding C09-directives)"]


def partitions(items):
    if not items:
        yield []
        return
    first, rest = items[0], items[1:]
    for p in partitions(rest):
        for i in range(len(p)):
            yield p[:i] + [[first] + p[i]] + p[i + 1:]
        yield [[first]] + p


def has_agg_directive(c):
    for f in c["files"]:
        for ln in f["content"].split("\n"):
            if "regal ignore:" in ln and any(t in ln for t in ("unresolved-import", "agg-x", "no-defined-entrypoint")):
                return True
    return False


def directive_covers(c, v):
    title, fname, row = v[1], v[3], v[4]
    if row is None:
        return False
    for f in c["files"]:
        if f["name"] != fname:
            continue
        for i, ln in enumerate(f["content"].split("\n")):
            if "regal ignore:" in ln:
                names = "".join(ln.split("regal ignore:", 1)[1].split()).split(",")
                if title in names and (i + 1 == row or i + 2 == row):
                    return True
    return False


def run(ctx):
    rng = ctx.rng()
    n = 24 if ctx.quick else 200
    cases = []
    for w in range(n):
        base = kernel.gen_case(rng, 2, 6)
        base.update({"collect": False, "export": True, "enabled": False, "w": w})
        if rng.random() < 0.5:
            # a run without directives on aggregate rules: the proved part of the property
            for f in base["files"]:
                f["content"] = "\n".join(l for l in f["content"].split("\n")
                                         if not ("regal ignore:" in l and any(t in l for t in ("unresolved-import", "agg-x", "no-defined-entrypoint"))))
        cases.append(base)
        names = [f["name"] for f in base["files"]]
        if len(names) <= 4:
            parts = list(partitions(names))
            if ctx.quick and len(parts) > 6:
                parts = rng.sample(parts, 6)
        else:
            parts = []
            for _ in range(4 if ctx.quick else 12):
                k = rng.randint(1, len(names))
                pp = [[] for _ in range(k)]
                for nme in names:
                    pp[rng.randrange(k)].append(nme)
                parts.append([x for x in pp if x])
            parts.append([[x] for x in names])
        for part in parts:
            order = list(range(len(part)))
            rng.shuffle(order)
            c = dict(base)
            c.update({"op": "kernel.twophase", "parts": part, "mergeOrder": order})
            cases.append(c)
    impl, model = kernel.run_both(ctx, cases)
    oneshot = {}
    single_file = set()
    for c in cases:
        i, m = impl[c["id"]], model[c["id"]]
        io, mo = i.get("out") or {}, m.get("out") or {}
        if "panic" in i or "crash" in i:
            ctx.fail("panic/crash", kernel.slim(c), None, i)
            continue
        if c["op"] == "kernel.lint":
            kernel.compare(ctx, c, i, m)
            oneshot[c["w"]] = [v for v in (io.get("violations") or []) if v[5]]
            # the property quantifies over multi-file workspaces: a run that lints fewer than two files (the others
            # are excluded by ignore patterns) never evaluates aggregate rules by design (linter.go: aggregates are
            # used "else if len(input.FileNames) > 1"), so there is no one-shot verdict to compare with
            if ((io.get("summary") or {}).get("filesScanned") or 0) < 2:
                single_file.add(c["w"])
                ctx.count("one-shot lints < 2 files (outside the quantifier)")
            ctx.seen(c, ("one", c["w"]) if oneshot[c["w"]] else None)
            continue
        ctx.count("parts=%d" % len(c["parts"]))
        if "error" in io or io.get("violations") != mo.get("violations"):
            ctx.brk("two-phase Linter pipeline ~ Kernel (mergeExports + lint with overridden aggregates)", kernel.slim(c), io, mo)
            if "error" in io:
                continue
        two = io.get("violations") or []
        one = oneshot.get(c["w"])
        ctx.seen(c, ("two", c["w"], str(c["parts"]), str(c["mergeOrder"])) if one else None)
        if one is None or c["w"] in single_file:
            continue
        if sorted(map(str, two)) != sorted(map(str, one)):
            known = None
            # finding C09-directives: the report-only run has no ignore directives. A deviation is that finding iff
            # two-phase reports a superset and every extra violation is named by a directive on its row / the row above.
            extra = [v for v in two if v not in one]
            missing = [v for v in one if v not in two]
            if not missing and extra and all(directive_covers(c, v) for v in extra):
                known = "C09-directives"
            ctx.fail("two-phase aggregate violations differ from one-shot", kernel.slim(c), known, {"oneshot": one, "twophase": two})
        elif one:
            ctx.sample({"files": [f["name"] for f in c["files"]], "parts": c["parts"], "order": c["mergeOrder"], "agg_violations": two[:4]}, limit=4)
    real_rules_twophase(ctx)
    lsp_cache_updates(ctx)


AGG_CODES = {"unresolved-import", "circular-import", "prefer-package-imports", "impossible-not", "missing-metadata",
             "no-defined-entrypoint"}


def real_rules_twophase(ctx):
    """the hypothesis "aggregate_report depends only on the merged aggregate data" sampled on the SIX REAL aggregate
    rules (+ the custom one): workspaces on which they report, every partition (<= 4 files) / random partitions into
    collect runs, random merge orders; cross-file violations of the report-only run == those of the one-shot run.
    (No inline directives in these workspaces: that deviation is the recorded finding C09-directives.)"""
    rng = ctx.rng("real-agg")
    n = 10 if ctx.quick else 120
    cases = []
    for w in range(n):
        files = aggworld.gen_workspace(rng, 2, 4 if ctx.quick else 6)
        names = [f["name"] for f in files]
        cases.append(aggworld.case(files, id=len(cases), w=w))
        parts = list(partitions(names)) if len(names) <= 4 else []
        if len(parts) > (5 if ctx.quick else 15):
            parts = rng.sample(parts, 5 if ctx.quick else 15)
        parts.append([[x] for x in names])
        for part in parts:
            order = list(range(len(part)))
            rng.shuffle(order)
            cases.append(aggworld.case(files, id=len(cases), w=w, op="kernel.twophase", parts=part, mergeOrder=order))
    impl = ctx.impl(cases, procs=12)
    one = {}
    for c in cases:
        i = impl[c["id"]]
        io = i.get("out") or {}
        if "panic" in i or "crash" in i or "error" in io:
            ctx.brk("real aggregate-rule workspace could not be linted (harness)", kernel.slim(c), i, None)
            continue
        agg = sorted(map(str, [v for v in (io.get("violations") or []) if v[5]]))
        if c["op"] == "kernel.lint":
            one[c["w"]] = agg
            for t in sorted({v[1] for v in (io.get("violations") or []) if v[5]}):
                ctx.count("real-agg-reporting:" + t)
            ctx.seen(c, ("real-one", c["w"]) if agg else None)
            continue
        ctx.seen(c, ("real-two", c["w"], str(c["parts"]), str(c["mergeOrder"])) if one.get(c["w"]) else None)
        if c["w"] in one and agg != one[c["w"]]:
            ctx.fail("two-phase aggregate violations (real aggregate rules) differ from one-shot", kernel.slim(c), None,
                     {"only_oneshot": [v for v in one[c["w"]] if v not in agg], "only_twophase": [v for v in agg if v not in one[c["w"]]]})


def lsp_cache_updates(ctx):
    """second half of the statement, through the language server's own aggregate cache (internal/lsp/cache): after a
    single-file replacement the cross-file diagnostics equal those of a fresh server on the final contents"""
    cases = c15.directed_aggregate_histories(0)
    impl = ctx.impl(cases, timeout=3000, procs=6)
    for c in cases:
        r = impl[c["id"]]
        o = r.get("out") or {}
        desc = {"files": c["files"], "events": c["events"], "scenario": c["_tag"]}
        if "panic" in r or "crash" in r or "error" in o or not o.get("idle") or not o.get("freshIdle"):
            ctx.brk("lsp.history harness (server crashed / not idle)", desc, str(r)[:600], None)
            continue
        diff = {}
        for f in sorted(set(o["published"]) | set(o["fresh"])):
            a = [x for x in o["published"].get(f, []) if x.split("@")[0] in AGG_CODES]
            b = [x for x in o["fresh"].get(f, []) if x.split("@")[0] in AGG_CODES] if f in o["files"] else []
            if a != b:
                diff[f] = {"after_update": a, "fresh": b}
        ctx.seen(c, ("lsp-update", c["_tag"]))
        ctx.count("lsp-cache-update:" + c["_tag"])
        if diff:
            ctx.fail("after a single-file update the language server's cross-file diagnostics differ from a fresh run over "
                     "the updated file set", desc, None, diff)
