"""Shared machinery of the /verif checks: builds, runs, audit, evidence, findings."""
import hashlib
import json
import os
import random
import re
import shutil
import subprocess
import sys
import tempfile
import time

VERIF = os.path.dirname(os.path.dirname(os.path.abspath(__file__)))
REPO = os.environ.get("VERIF_REPO", "/repo")
BUILD = os.path.join(VERIF, ".build")
LEAN = os.path.join(VERIF, "lean")
ALLOWED_AXIOMS = {"propext", "Classical.choice", "Quot.sound"}

GOENV = dict(os.environ)
GOENV.update({"GOFLAGS": "-mod=mod", "GOPROXY": "off"})
for k in ("GOTOOLCHAIN", "GOSUMDB"):
    GOENV.pop(k, None)


def log(*a):
    print(*a, file=sys.stderr, flush=True)


def sh(cmd, cwd=None, env=None, timeout=None, check=True, input=None):
    p = subprocess.run(cmd, cwd=cwd, env=env, timeout=timeout, input=input,
                       stdout=subprocess.PIPE, stderr=subprocess.STDOUT, text=True)
    if check and p.returncode != 0:
        raise RuntimeError("command failed (%d): %s\n%s" % (p.returncode, cmd, p.stdout[-4000:]))
    return p


# --------------------------------------------------------------------------- Go side

def overlay_json(extra=None):
    """Overlay that injects /verif/harness into the repository (nothing is written to the tree)."""
    os.makedirs(BUILD, exist_ok=True)
    repl = {}
    odir = os.path.join(VERIF, "harness", "oracle")
    for f in sorted(os.listdir(odir)):
        if f.endswith(".go"):
            repl[os.path.join(REPO, "internal", "verifharness", f)] = os.path.join(odir, f)
    edir = os.path.join(VERIF, "harness", "exports")
    for d in sorted(os.listdir(edir)):
        pkgdir = d.replace("__", "/")
        for f in sorted(os.listdir(os.path.join(edir, d))):
            if f.endswith(".go"):
                repl[os.path.join(REPO, pkgdir, "zz_verif_" + f)] = os.path.join(edir, d, f)
    if extra:
        repl.update(extra)
    path = os.path.join(BUILD, "overlay-%s.json" % hashlib.sha1(REPO.encode()).hexdigest()[:8])
    with open(path, "w") as fh:
        json.dump({"Replace": repl}, fh, indent=1)
    return path


def perturbed_lsp():
    """Overlay copies of internal/lsp/lint.go and server.go, made from the CURRENT files, in which only the schedule is
    perturbed: a sleep before every statement that stores parse / lint results in the cache and before a non-empty
    publishDiagnostics notification. The windows between "look" and "store" / "read" and "notify" are microseconds wide in
    the real binary; with the sleeps an interleaving that lands in them can be produced by pacing the events. No value
    and no control flow is changed. Returns (overlay entries, ok); fails closed when an anchor is missing."""
    import re as _re
    os.makedirs(BUILD, exist_ok=True)
    tag = hashlib.sha1(REPO.encode()).hexdigest()[:8]
    lint_path = os.path.join(REPO, "internal", "lsp", "lint.go")
    srv_path = os.path.join(REPO, "internal", "lsp", "server.go")
    try:
        lint, srv = open(lint_path).read(), open(srv_path).read()
    except OSError:
        return {}, False
    lint2, n = _re.subn(r"(?m)^(\s*)(cache\.Set(?:FileDiagnosticsForRules|FileDiagnostics|FileAggregates|Module|ParseErrors)\()",
                        r"\1time.Sleep(25 * time.Millisecond)\n\1\2", lint)
    anchor = "\tif err := l.conn.Notify(ctx, methodTextDocumentPublishDiagnostics, resp); err != nil {"
    if n == 0 or srv.count(anchor) != 1 or '\t"time"\n' not in srv:
        return {}, False
    if '\t"time"\n' not in lint2:
        lint2 = lint2.replace('import (\n', 'import (\n\t"time"\n', 1)
    srv2 = srv.replace(anchor, "\tif len(fileDiags) > 0 {\n\t\ttime.Sleep(40 * time.Millisecond)\n\t}\n\n" + anchor)
    out = {}
    for name, path, text in (("lint", lint_path, lint2), ("server", srv_path, srv2)):
        cp = os.path.join(BUILD, "perturbed-%s-%s.go" % (name, tag))
        with open(cp, "w") as fh:
            fh.write(text)
        out[path] = cp
    return out, True


def gated_linter():
    """Overlay copy of pkg/linter/linter.go with the schedule gates inserted (source-to-source, from the
    CURRENT file; returns (overlay-entry dict, ok)). Fails closed: if an anchor is missing the copy is not
    produced and the caller falls back to free-running schedules."""
    src_path = os.path.join(REPO, "pkg", "linter", "linter.go")
    src = open(src_path).read()
    a1 = "\t\t\tmu.Lock()\n\t\t\tdefer mu.Unlock()\n"
    a2 = "\tselect {\n\tcase <-ctx.Done():\n\t\treturn report.Report{}, fmt.Errorf(\"context cancelled: %w\", ctx.Err())\n\tcase err := <-errCh:"
    if src.count(a1) != 1 or src.count(a2) != 1:
        return {}, False
    out = src.replace(a1, "\t\t\tverifGate(name)\n" + a1 + "\t\t\tdefer verifGateDone(name)\n")
    out = out.replace(a2, "\tverifBeforeSelect()\n\n" + a2)
    os.makedirs(BUILD, exist_ok=True)
    dst = os.path.join(BUILD, "linter_gated.go")
    with open(dst, "w") as fh:
        fh.write(out)
    return {src_path: dst}, True


def build_oracle(extra=None, name="oracle", race=False):
    """Builds the oracle from the CURRENT working tree of the repository."""
    t0 = time.time()
    ov = overlay_json(extra)
    out = os.path.join(BUILD, name + "-" + hashlib.sha1(REPO.encode()).hexdigest()[:8])
    cmd = ["go", "build", "-overlay", ov, "-o", out]
    if race:
        cmd.append("-race")
    cmd.append("./internal/verifharness")
    p = sh(cmd, cwd=REPO, env=GOENV, check=False, timeout=1500)
    if p.returncode != 0:
        raise BuildBroken("go build of the oracle against the current tree failed:\n" + p.stdout[-3000:])
    log("[build] oracle %.1fs" % (time.time() - t0))
    return out


def build_regal():
    """the real `regal` binary, built from the current working tree"""
    t0 = time.time()
    out = os.path.join(BUILD, "regal-" + hashlib.sha1(REPO.encode()).hexdigest()[:8])
    p = sh(["go", "build", "-o", out, "."], cwd=REPO, env=GOENV, check=False, timeout=1500)
    if p.returncode != 0:
        raise BuildBroken("go build of regal failed:\n" + p.stdout[-3000:])
    log("[build] regal %.1fs" % (time.time() - t0))
    return out


class BuildBroken(Exception):
    pass


def run_lines(binary, cases, timeout=900, cwd=None, env=None):
    """Feeds JSON-line cases to a line-protocol binary; returns {id: response}. A crash of the
    binary mid-stream is handled by re-running the remaining cases (the crashing one is marked)."""
    results = {}
    pending = list(cases)
    while pending:
        data = "".join(json.dumps(c, ensure_ascii=False) + "\n" for c in pending)
        p = subprocess.run([binary] if isinstance(binary, str) else binary, input=data, cwd=cwd, env=env,
                           stdout=subprocess.PIPE, stderr=subprocess.PIPE, text=True, timeout=timeout)
        got = 0
        for line in p.stdout.splitlines():
            line = line.strip()
            if not line:
                continue
            try:
                r = json.loads(line)
            except Exception:
                continue
            if "id" in r:
                results[r["id"]] = r
                got += 1
        done_ids = set(results)
        rest = [c for c in pending if c["id"] not in done_ids]
        if not rest:
            break
        # the first unanswered case crashed the process
        crashed = rest[0]
        results[crashed["id"]] = {"id": crashed["id"], "crash": (p.stderr or "")[-2000:], "rc": p.returncode}
        pending = rest[1:]
    return results


def run_lines_parallel(binary, cases, procs=14, min_chunk=6, **kw):
    """Same as run_lines, but spreads the cases over several processes of the binary."""
    import concurrent.futures
    n = max(1, min(procs, len(cases) // min_chunk))
    if n == 1:
        return run_lines(binary, cases, **kw)
    chunks = [cases[i::n] for i in range(n)]
    out = {}
    with concurrent.futures.ThreadPoolExecutor(max_workers=n) as ex:
        for r in ex.map(lambda ch: run_lines(binary, ch, **kw), chunks):
            out.update(r)
    return out


# --------------------------------------------------------------------------- Lean side

def lean_build(targets, timeout=3000):
    t0 = time.time()
    p = sh(["lake", "build"] + targets, cwd=LEAN, check=False, timeout=timeout)
    log("[build] lake build %s %.1fs rc=%d" % (" ".join(targets), time.time() - t0, p.returncode))
    return p.returncode == 0, p.stdout


def driver_path():
    return os.path.join(LEAN, ".lake", "build", "bin", "driver")


THEOREM_RE = re.compile(r"^\s*(?:protected\s+|private\s+)?theorem\s+([A-Za-z_][A-Za-z0-9_'.]*)", re.M)
NS_RE = re.compile(r"^namespace\s+([A-Za-z0-9_.]+)", re.M)


def props_theorems(pid):
    """(namespace-qualified) names of all theorems in Props/<pid>.lean."""
    path = os.path.join(LEAN, "RegalModel", "Props", pid + ".lean")
    src = open(path).read()
    # strip comments
    src_nc = re.sub(r"/-.*?-/", "", src, flags=re.S)
    src_nc = re.sub(r"--.*", "", src_nc)
    names = []
    ns_stack = []
    for line in src_nc.splitlines():
        m = re.match(r"^namespace\s+([A-Za-z0-9_.]+)", line)
        if m:
            ns_stack.append(m.group(1))
            continue
        m = re.match(r"^end\s+([A-Za-z0-9_.]+)", line)
        if m and ns_stack and ns_stack[-1] == m.group(1):
            ns_stack.pop()
            continue
        m = re.match(r"^\s*(?:protected\s+|private\s+)?theorem\s+([A-Za-z_][A-Za-z0-9_'.]*)", line)
        if m:
            names.append(".".join(ns_stack + [m.group(1)]))
    return names, src


def lean_audit(pid):
    """Builds Props/<pid> and checks `#print axioms` of every property theorem.
    Returns dict(obligations, discharged, failures[list], theorems, axioms)."""
    names, src = props_theorems(pid)
    failures = []
    bad_tokens = [t for t in ("sorry", "admit", "native_decide", "bv_decide", "implemented_by", "unsafe ",
                              "maxHeartbeats 0") if re.search(r"(?<![A-Za-z_])" + re.escape(t), re.sub(r"/-.*?-/|--.*", "", src, flags=re.S))]
    ok, out = lean_build(["RegalModel.Props." + pid])
    if not ok:
        failures.append({"kind": "lean-build", "detail": out[-3000:]})
        return {"obligations": len(names), "discharged": 0, "failures": failures, "theorems": names, "axioms": {}}
    for t in bad_tokens:
        failures.append({"kind": "forbidden-token", "detail": t})
    os.makedirs(BUILD, exist_ok=True)
    apath = os.path.join(BUILD, "Audit_%s.lean" % pid)
    with open(apath, "w") as fh:
        fh.write("import RegalModel.Props.%s\n" % pid)
        for n in names:
            fh.write("#print axioms %s\n" % n)
    p = sh(["lake", "env", "lean", apath], cwd=LEAN, check=False, timeout=1200)
    axioms = {}
    cur = None
    text = p.stdout
    # output: "'name' depends on axioms: [a, b]" or "'name' does not depend on any axioms"
    for m in re.finditer(r"'([^']+)' (does not depend on any axioms|depends on axioms: \[([^\]]*)\])", text, flags=re.S):
        nm = m.group(1)
        axs = [] if m.group(3) is None else [a.strip() for a in m.group(3).replace("\n", " ").split(",") if a.strip()]
        axioms[nm] = axs
    discharged = 0
    for n in names:
        if n not in axioms:
            failures.append({"kind": "audit-missing", "detail": n})
            continue
        extra = [a for a in axioms[n] if a not in ALLOWED_AXIOMS]
        if extra:
            failures.append({"kind": "axioms", "detail": "%s depends on %s" % (n, extra)})
        else:
            discharged += 1
    if p.returncode != 0 and not failures:
        failures.append({"kind": "audit-run", "detail": text[-2000:]})
    return {"obligations": len(names), "discharged": discharged, "failures": failures, "theorems": names,
            "axioms": axioms}


def leanchecker(pid):
    p = sh(["lake", "env", "leanchecker", "RegalModel.Props." + pid], cwd=LEAN, check=False, timeout=3000)
    return p.returncode == 0, p.stdout[-1500:]


# --------------------------------------------------------------------------- findings / evidence

def load_known():
    path = os.path.join(VERIF, "known-findings.json")
    if not os.path.exists(path):
        return []
    return json.load(open(path)).get("findings", [])


def write_replay(pid, payload):
    os.makedirs(os.path.join(VERIF, "replays"), exist_ok=True)
    blob = json.dumps(payload, sort_keys=True, ensure_ascii=False, indent=1)
    h = hashlib.sha1(blob.encode()).hexdigest()[:10]
    path = os.path.join(VERIF, "replays", "%s-%s.json" % (pid, h))
    with open(path, "w") as fh:
        fh.write(blob + "\n")
    return path


def write_evidence(pid, tier, seed, level, coverage, assumptions, wall, violations):
    os.makedirs(os.path.join(VERIF, "evidence"), exist_ok=True)
    ev = {"property_id": pid, "tier": tier, "seed": seed, "level": level, "coverage": coverage,
          "assumptions": assumptions, "wall_s": round(wall, 2), "violations": violations}
    with open(os.path.join(VERIF, "evidence", pid + ".json"), "w") as fh:
        json.dump(ev, fh, indent=1, ensure_ascii=False)
        fh.write("\n")


class Scratch:
    """temp directory outside /repo and /verif, removed at exit"""

    def __init__(self, tag="verif"):
        self.path = tempfile.mkdtemp(prefix=tag + "-")

    def __enter__(self):
        return self.path

    def __exit__(self, *a):
        shutil.rmtree(self.path, ignore_errors=True)


def rng_for(seed, tag):
    return random.Random("%s/%s" % (seed, tag))
