"""Corpora of parseable Rego modules for sampling the Env-side hypotheses (C03, C07)."""
import glob
import os
import re

from . import core

OPA_TESTDATA = glob.glob("/root/go/pkg/mod/github.com/open-policy-agent/opa@*/v1/test/cases/testdata/v1")


def repo_modules():
    out = []
    for root, dirs, files in os.walk(core.REPO):
        if ".git" in dirs:
            dirs.remove(".git")
        for f in files:
            if f.endswith(".rego"):
                p = os.path.join(root, f)
                try:
                    out.append((os.path.relpath(p, core.REPO), open(p, encoding="utf-8").read()))
                except Exception:
                    pass
    return sorted(out)


def conformance_modules(limit=None):
    try:
        import yaml
    except Exception:
        return []
    out = []
    if not OPA_TESTDATA:
        return out
    files = sorted(glob.glob(os.path.join(OPA_TESTDATA[0], "**", "*.yaml"), recursive=True))
    for f in files:
        try:
            doc = yaml.safe_load(open(f))
        except Exception:
            continue
        for case in (doc or {}).get("cases", []) or []:
            for i, m in enumerate(case.get("modules") or []):
                if isinstance(m, str) and m.strip().startswith("package"):
                    out.append(("conf/%s_%d.rego" % (re.sub(r"\W+", "_", case.get("note", "x")), i), m if m.endswith("\n") else m + "\n"))
        if limit and len(out) >= limit:
            break
    return out


GEN_SNIPPETS = [
    'r%d := {"a": [1, 2, {"b": null}], "c": 1e400}',
    'r%d contains x if { some x in input.xs; every y in input.ys { y > x } }',
    'r%d(x, y) := z if { z := x + y } else := 0 if { x == 0 } else := -1',
    'r%d.a.b[c] := v if { some c, v in input.m }',
    'r%d if { not input.x; input.y != "éé€" }',
    'default r%d := false',
    'r%d := [x | some x in numbers.range(1, 3); x != 2]',
    'r%d := count({k: v | some k, v in input.o}) + 99999999999999999999999',
    '# METADATA\n# description: d%d\n# entrypoint: true\nr%d := 1',
    'r%d if {\n\tsome i\n\tinput.a[i].b[_] == [1, [2, [3, [4, [5, [6]]]]]]\n}',
    'r%d := x if { x := input.a } else := y if { y := input.b }',
    'r%d if { print("x"); trace("y") }',
    'r%d if walk(input, [p, v])',
    'r%d = true { input.x }' ,
]


# unusual but parseable: things the compiler would reject (Regal only parses), names that collide, shapes whose
# locations are synthesised by rules
ODD_SNIPPETS = [
    'f%d(a, b) := a + b\n\nf%d(a, b, c) := a + b + c',                       # one function, two arities
    'f%d(a) := a\n\nf%d := 1',                                                # function and rule of one name
    'c%d := 1\n\nc%d contains 2',                                             # complete and partial definitions
    'c%d := 1\n\nc%d := 2',                                                   # conflicting complete definitions
    'default d%d := 1\n\ndefault d%d := 2',
    'count%d := count(input.xs)\n\nmax := 3\n\ninput_%d := input',
    's%d := x if {\n\tfmt := "%s and %s"\n\tx := sprintf(fmt, [1])\n}',     # format in a variable, arity mismatch
    's%d := x if {\n\tfmt := "%s"\n\n\n\tx := sprintf(fmt, [1, 2])\n}',
    's%d := sprintf("%v %v %d", [1])',
    'q%d(x) if 1 == 2\n\nq%d(x) if "a" == x\n\nq%d(x) if x == null',            # comparisons with scalars on either side
    '# METADATA\n# title: t%d\n# foo: bar\n# custom:\n#   foo: baz\n#   title: inner\n# description: |\n#   foo: in a description\nmd%d := 1',  # unknown attribute, repeated keys
    '# METADATA\n# scope: rule\n# schemas:\n#   - input: schema.x\n# entrypont: true\nms%d := 1',
    'm%d\n\t= 100',                                                          # operator on a later line than the head
    'm%d[k]\n\t= v if {\n\tsome k, v in input.o\n}',
    'm%d(x)\n\t= y if y := x',
    'u%d := {"é": "€€€€", "\\u00e9": `raw\\d€`}',
    'w%d if {\n\tinput.a\n\tdata.b.c with input as {"a": 1} with data.x as 2\n}',
    'e%d if {\n\tevery k, v in input.o {\n\t\tevery x in v { x > k }\n\t}\n}',
    'n%d := -0.0e-999 + 1e999 + 0x',                                           # (does not parse: kept to count rejects)
    'n%d := 123456789012345678901234567890 % 7',
    'l%d := [[[[[[[[[[[[[[[[[[[[1]]]]]]]]]]]]]]]]]]]]',
    'g%d.a["b c"].d[e] contains f if {\n\tsome e, f in input.o\n}',
    'o%d := {1, 2} | {3} & {x | some x in input.xs} - set()',
    'i%d if {\n\tnot input.a\n\tnot not_a\n}\n\nnot_a if false',
    'r%d if {\n\tx := input.x\n\tx == x\n\ty = input.y\n\t[y, _] = [1, 2]\n}',
    'b%d if { true }\n\nb%d if { false } else := true',
    'p%d := object.get(input, ["a", "b"], null) if { regex.match("a\\\\d", input.s); regex.match(`b\\d`, "x") }',
]


def comment_mutation(rng, text):
    """structure-preserving: break lines after an operator / opening bracket / comma and put end-of-line comments on
    both halves (comments in the middle of a term are where formatters and location arithmetic go wrong)"""
    out = []
    k = 0
    for line in text.split("\n"):
        if line.lstrip().startswith(("#", "package", "import")) or '"' in line or "`" in line or rng.random() < 0.5:
            out.append(line)
            continue
        cut = None
        for sep in rng.sample([" + ", "[", ", ", " not ", "| ", ": ", " == ", "{"], 8):
            i = line.find(sep)
            if i > 0 and i + len(sep) < len(line):
                cut = i + len(sep)
                break
        if cut is None:
            out.append(line)
            continue
        k += 1
        out.append(line[:cut].rstrip() + " # c%d" % k)
        out.append("\t" + line[cut:].lstrip() + " # d%d" % k)
    return "\n".join(out)


def generated_modules(rng, n):
    out = []
    for k in range(n):
        lines = ["package gen.p%d" % k, "", "import rego.v1", ""]
        cnt = 0
        for _ in range(rng.randint(1, 8)):
            s = rng.choice(ODD_SNIPPETS) if rng.random() < 0.35 else rng.choice(GEN_SNIPPETS[:-1])
            cnt += 1
            lines.append(s.replace("%d", str(cnt)))
            lines.append("")
        text = "\n".join(lines) + "\n"
        if rng.random() < 0.3:
            text = comment_mutation(rng, text)
        m = rng.random()
        if m < 0.15:
            text = text.replace("\n", "\r\n")
        elif m < 0.3:
            text = text.replace("import rego.v1\n", "import rego.v1\n\n# é€ \t tab\n")
        out.append(("gen/g%d.rego" % k, text))
    return out


def pick(ctx, tag, n_repo, n_conf, n_gen):
    rng = ctx.rng(tag)
    rm = repo_modules()
    cm = conformance_modules()
    mods = rng.sample(rm, min(n_repo, len(rm))) + rng.sample(cm, min(n_conf, len(cm))) + generated_modules(rng, n_gen)
    return mods, {"repo_total": len(rm), "conformance_total": len(cm)}


def split_lines(content):
    return content.replace("\r\n", "\n").split("\n")
