"""Corpora of parseable Rego modules for sampling the Env-side hypotheses (C03, C07)."""
import glob
import os
import re

from . import core

OPA_TESTDATA = glob.glob("/root/go/pkg/mod/github.com/open-policy-agent/opa@*/v1/test/cases/testdata/v1")


def repo_modules():
    out = []
    for root, dirs, files in os.walk(core.REPO):
        if ".git" in dirs:
            dirs.remove(".git")
        for f in files:
            if f.endswith(".rego"):
                p = os.path.join(root, f)
                try:
                    out.append((os.path.relpath(p, core.REPO), open(p, encoding="utf-8").read()))
                except Exception:
                    pass
    return sorted(out)


def conformance_modules(limit=None):
    try:
        import yaml
    except Exception:
        return []
    out = []
    if not OPA_TESTDATA:
        return out
    files = sorted(glob.glob(os.path.join(OPA_TESTDATA[0], "**", "*.yaml"), recursive=True))
    for f in files:
        try:
            doc = yaml.safe_load(open(f))
        except Exception:
            continue
        for case in (doc or {}).get("cases", []) or []:
            for i, m in enumerate(case.get("modules") or []):
                if isinstance(m, str) and m.strip().startswith("package"):
                    out.append(("conf/%s_%d.rego" % (re.sub(r"\W+", "_", case.get("note", "x")), i), m if m.endswith("\n") else m + "\n"))
        if limit and len(out) >= limit:
            break
    return out


GEN_SNIPPETS = [
    'r%d := {"a": [1, 2, {"b": null}], "c": 1e400}',
    'r%d contains x if { some x in input.xs; every y in input.ys { y > x } }',
    'r%d(x, y) := z if { z := x + y } else := 0 if { x == 0 } else := -1',
    'r%d.a.b[c] := v if { some c, v in input.m }',
    'r%d if { not input.x; input.y != "éé€" }',
    'default r%d := false',
    'r%d := [x | some x in numbers.range(1, 3); x != 2]',
    'r%d := count({k: v | some k, v in input.o}) + 99999999999999999999999',
    '# METADATA\n# description: d%d\n# entrypoint: true\nr%d := 1',
    'r%d if {\n\tsome i\n\tinput.a[i].b[_] == [1, [2, [3, [4, [5, [6]]]]]]\n}',
    'r%d := x if { x := input.a } else := y if { y := input.b }',
    'r%d if { print("x"); trace("y") }',
    'r%d if walk(input, [p, v])',
    'r%d = true { input.x }' ,
]


def generated_modules(rng, n):
    out = []
    for k in range(n):
        lines = ["package gen.p%d" % k, "", "import rego.v1", ""]
        cnt = 0
        for _ in range(rng.randint(1, 8)):
            s = rng.choice(GEN_SNIPPETS[:-1])
            cnt += 1
            lines.append(s.replace("%d", str(cnt)))
            lines.append("")
        text = "\n".join(lines) + "\n"
        m = rng.random()
        if m < 0.15:
            text = text.replace("\n", "\r\n")
        elif m < 0.3:
            text = text.replace("import rego.v1\n", "import rego.v1\n\n# é€ \t tab\n")
        out.append(("gen/g%d.rego" % k, text))
    return out


def pick(ctx, tag, n_repo, n_conf, n_gen):
    rng = ctx.rng(tag)
    rm = repo_modules()
    cm = conformance_modules()
    mods = rng.sample(rm, min(n_repo, len(rm))) + rng.sample(cm, min(n_conf, len(cm))) + generated_modules(rng, n_gen)
    return mods, {"repo_total": len(rm), "conformance_total": len(cm)}


def split_lines(content):
    return content.replace("\r\n", "\n").split("\n")
