"""Workspaces that make the six real aggregate rules (and the synthetic custom one) report.

Used to SAMPLE the Env-side hypotheses of the kernel theorems on the real Rego rules — they are not proved
(the rules are outside the Lean model): aggregate_report must not depend on the order of input.aggregate
(C01: Env.AggPermInvariant) and must depend only on the merged aggregate data (C09)."""

AGG_RULES = ["unresolved-import", "circular-import", "prefer-package-imports", "impossible-not", "missing-metadata",
             "no-defined-entrypoint", "agg-x"]
PKGS = ["a", "b", "a.c", "d", "b.e"]


def gen_file(rng, idx, pkgs, pkg_meta=0.2):
    pkg = rng.choice(pkgs)
    lines = []
    if rng.random() < pkg_meta:
        lines += ["# METADATA", "# title: pkg %s" % pkg]
    lines += ["package " + pkg, ""]
    for _ in range(rng.choice([0, 1, 1, 2, 3])):
        other = rng.choice(pkgs + ["zz"])
        r = rng.random()
        if r < 0.5:
            lines.append("import data." + other)
        elif r < 0.85:
            lines.append("import data.%s.%s" % (other, rng.choice(["multi", "r1", "single"])))
        else:
            lines.append("import data.%s as al%d" % (other, idx))
    lines.append("")
    for k in range(rng.randint(1, 5)):
        r = rng.random()
        if r < 0.2 and pkg_meta > 0:
            # (a METADATA block anywhere in a file makes missing-metadata treat the package as annotated, so the
            # shared-package workspaces carry none)
            lines += ["# METADATA", "# title: r", "# entrypoint: true" if rng.random() < 0.3 else "# description: d"]
        r = rng.random()
        if r < 0.25:
            lines.append("multi contains x if x := %d" % k)
        elif r < 0.4:
            lines.append("single := %d" % k)
        elif r < 0.55:
            lines.append("r%d := %d" % (rng.randint(1, 2), k))
        elif r < 0.75:
            lines.append("deny_%d_%d if not data.%s.multi" % (idx, k, rng.choice(pkgs)))
        elif r < 0.85:
            lines.append("deny_%d_%d if not multi" % (idx, k))
        elif r < 0.95:
            lines.append("use_%d_%d := data.%s.single" % (idx, k, rng.choice(pkgs)))
        else:
            lines.append('s_%d_%d := "V:agg-x"' % (idx, k))
    return "\n".join(lines) + "\n"


def gen_workspace(rng, nmin=2, nmax=5):
    n = rng.randint(nmin, nmax)
    # half of the workspaces spread ONE or two packages over all files, without package metadata: the shapes on which
    # rules that pick a representative file per package (missing-metadata) or per import cycle depend on nothing but
    # the aggregate order
    shared = rng.random() < 0.5
    pkgs = rng.sample(PKGS, rng.randint(1, 2) if shared else rng.randint(1, 3))
    files = []
    for i in range(n):
        d = rng.choice(["", "x/", "y/", "x/z/"])
        files.append({"name": "%sf%d.rego" % (d, i), "content": gen_file(rng, i, pkgs, 0.0 if shared else 0.2)})
    return files


def params():
    return {"disable": [], "enable": list(AGG_RULES), "disableCategory": [], "enableCategory": [], "disableAll": True,
            "enableAll": False, "ignoreFiles": []}


def case(files, **kw):
    c = {"op": "kernel.lint", "files": files, "user": None, "params": params(), "prefix": "", "collect": False,
         "export": True, "enabled": False, "all": True}
    c.update(kw)
    return c
