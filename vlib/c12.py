"""C12 — fixing terminates, removes what it claims to fix, and is idempotent."""
from . import c11

PID = "C12"
LEVEL = "proof"
RULE = ("generated parseable workspaces (1-3 files, v1; files in wrong directories; several interacting fixable violations per "
        "file and per line: '=' inside strings and comments before the operator, else-chains on one line, non-ASCII before the "
        "fix column, unformatted code so that opa-fmt moves lines under other violations) x random subsets of the six fixable "
        "rules, through the real Fixer with the in-memory provider under a 12 s watchdog; oracle: terminates, re-lint of the "
        "result reports no enabled fixable violation, a second run changes nothing, fix succeeds whenever lint accepted the "
        "input. non-trivial = at least one fix applied; distinct = distinct workspace+rule subset")
TRUSTED = ["OPA formatter is idempotent (fmt_progress; sampled)", "Env: after a correct fix the rule no longer fires (sampled)"]
ASSUMPTIONS = ["progress hypothesis of loop_terminates (each successful fix decreases the number of fixable violations) is Env side"]


def run(ctx):
    cases = c11.gen_fix_cases(ctx, "c12", 70 if ctx.quick else 1000)
    cases += c11.grid_cases(len(cases))
    cases += c11.bulk_cases(len(cases))
    impl = ctx.impl(cases, timeout=3000, procs=12)
    for c in cases:
        r = impl[c["id"]]
        o = r.get("out") or {}
        st = o.get("status")
        desc = {"files": c["files"], "enable": c["enable"]}
        ctx.seen(c, ("c12", c["id"]) if o.get("fixes") else None)
        ctx.count("status=%s fixes=%s" % (st, min(o.get("fixes") or 0, 9)))
        if "panic" in r or "crash" in r or st == "panic":
            ctx.fail("the fixer panicked", desc, None, r)
        elif st == "timeout":
            ctx.fail("regal fix does not terminate (12 s watchdog) on files that lint accepts", desc, None, None)
        elif st == "error":
            ctx.fail("regal fix failed on files that lint accepts: %s" % (o.get("err") or "")[:160], desc, None, o.get("err"))
        elif st == "ok":
            if o.get("relintError"):
                ctx.fail("the fixed files no longer lint", desc, None, o.get("relintError"))
            elif o.get("violationsAfter"):
                ctx.fail("violations of enabled fixable rules remain after fix", desc, None,
                         {"after": o["violationsAfter"], "before": o.get("violationsBefore")})
            if not o.get("secondRunNoop"):
                ctx.fail("running fix a second time changes files again", desc, None, {"second": o.get("secondStatus")})
    ctx.sample({"enable": cases[0]["enable"], "files": cases[0]["files"], "status": (impl[0].get("out") or {}).get("status"),
                "after": (impl[0].get("out") or {}).get("files")})
