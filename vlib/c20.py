"""C20 — a file's Rego version comes from its nearest configured dir, however spelled."""
import itertools

PID = "C20"
LEVEL = "proof"
RULE = ("(a) all version maps over clean directory keys drawn from {'', foo, foobar, foo/bar, fo, bar} (up to 3 keys, versions "
        "0/1) x all file names in those directories and siblings sharing a name prefix, absolute and relative spelling, through "
        "RegoVersionFromVersionsMap (12 repetitions each to expose map-order dependence); (b) real temporary trees with "
        "project.rego-version, project.roots (string or with rego-version) and .manifest files carrying versions {0,1,unset}, "
        "files with v0-only / v1-only / ambiguous syntax parsed through InputFromPaths addressed relatively and absolutely. "
        "non-trivial = some configured directory contains the file; distinct = (map/tree, file, spelling)"
        ' Also: each file named from its own directory, from the parent of the root and with ./; the statement evaluated directly (expected_version); the real language server asked for the version of each document (percent-encoded directory names).')
EXHAUSTIVE = True
TRUSTED = ["OPA parser decides what parses under v0/v1 (Env side); path.Join/filepath.Dir cleaning on clean paths",
           "the language server and `regal fix` call the same lookup with their own path forms (sampled for lint only)"]
ASSUMPTIONS = ["configured directories are clean relative paths (as written in project.roots / found by FindManifestLocations)"]

KEYS = ["", "foo", "foobar", "foo/bar", "fo", "bar"]
DIRS = ["", "foo", "foobar", "foo/bar", "foo/barx", "fo", "bar", "baz", "foo/bar/deep"]


def part_lookup(ctx):
    cases = []
    for n in range(0, 4):
        for keys in itertools.combinations(KEYS, n):
            for vers in itertools.product([0, 1], repeat=n):
                vm = dict(zip(keys, vers))
                for d in DIRS:
                    for spelling in ("abs", "rel"):
                        f = ("/" if spelling == "abs" else "") + (d + "/" if d else "") + "a.rego"
                        cases.append({"id": len(cases), "op": "c20.lookup", "versions": vm, "file": f, "_d": d, "_s": spelling})
    impl, model = ctx.impl(cases), ctx.model(cases)
    for c in cases:
        a, m = impl[c["id"]].get("out"), model[c["id"]].get("out") or {}
        contains = any(k == "" or c["_d"] == k or c["_d"].startswith(k + "/") for k in c["versions"])
        ctx.seen(c, ("lk", str(c["versions"]), c["file"]) if contains else None)
        ctx.count("lookup:%s" % c["_s"])
        cc = {k: v for k, v in c.items() if not k.startswith("_")}
        if a is None or len(a) != 1:
            ctx.fail("version lookup depends on map iteration order", cc, None, a)
            continue
        if a[0] != m.get("model"):
            ctx.brk("rules.go RegoVersionFromVersionsMap ~ Version.lookup", cc, a, m)
        if c["_s"] == "abs" and a[0] != m.get("spec"):
            ctx.fail("selected version is not the one of the deepest configured directory containing the file", cc, None,
                     {"impl": a[0], "spec": m.get("spec")})
    ctx.sample({"versions": cases[200]["versions"], "file": cases[200]["file"], "impl": impl[200].get("out")})


SRC = {"v0only": "package a\n\nx { true }\n", "v1only": "package a\n\nx if true\n", "amb": "package a\n\nx := 1\n"}


def outcome(ver, kind):
    if ver == "v0":
        return {"v0only": "v0", "v1only": "parse-error", "amb": "v0"}[kind]
    if ver == "v1":
        return {"v0only": "parse-error", "v1only": "v1", "amb": "v1"}[kind]
    return {"v0only": "v0", "v1only": "v1", "amb": "v1"}[kind]


def expected_version(file_name, project, roots, manifests):
    """the property's statement evaluated directly: the version configured for the deepest configured directory that
    contains the file (a root without rego-version and a manifest without rego_version configure nothing; a config root
    beats a manifest in the same directory; the project-wide setting is the entry of the project directory itself and
    beats a manifest there), else undefined (= detected from the source)"""
    entries = {}
    for d, v in manifests.items():
        if v is not None:
            entries[tuple(d.split("/")) if d else ()] = v
    for p, v in roots:
        if v is not None:
            entries[tuple(p.split("/"))] = v
    if project is not None:
        entries[()] = project
    comps = tuple(file_name.split("/")[:-1])
    best = None
    for d, v in entries.items():
        if comps[:len(d)] == d and (best is None or len(d) > len(best[0])):
            best = (d, v)
    return "undefined" if best is None else "v%d" % best[1]


SPECIAL = {"foo": "my foo", "foobar": "my foobar", "bar": "bär+x", "barx": "bär+xx", "baz": "b%41z"}


def respell(path):
    return "/".join(SPECIAL.get(c, c) for c in path.split("/"))


def part_tree(ctx):
    rng = ctx.rng("tree")
    dirs = ["", "foo", "foobar", "foo/bar", "bar"]
    cases, mcases = [], []
    n = 60 if ctx.quick else 600
    for k in range(n):
        files, manifests, roots = {}, {}, []
        project = rng.choice([None, None, 0, 1])
        for d in rng.sample(dirs[1:], rng.randint(0, 3)):
            v = rng.choice([None, 0, 1])
            roots.append([d, v])
        for d in rng.sample(dirs, rng.randint(0, 2)):
            v = rng.choice([None, 0, 1])
            manifests[d] = v
            files[(d + "/" if d else "") + ".manifest"] = "{}" if v is None else '{"rego_version": %d}' % v
        regos = {}
        for d in rng.sample(["", "foo", "foobar", "foo/bar", "foo/barx", "bar", "baz"], rng.randint(1, 4)):
            kind = rng.choice(sorted(SRC))
            name = (d + "/" if d else "") + "p%s.rego" % kind
            files[name] = SRC[kind]
            regos[name] = kind
        conf = {"rules": {}}
        proj = {}
        if project is not None:
            proj["rego-version"] = project
        if roots:
            proj["roots"] = [({"path": p, "rego-version": v} if v is not None else p) for p, v in roots]
        if proj:
            conf["project"] = proj
        cases.append({"id": k, "op": "c20.tree", "config": conf, "files": files, "_regos": regos,
                      "_spec": (project, [list(r) for r in roots], dict(manifests))})
        mcases.append({"id": k, "op": "c20.tree", "manifests": {d: v for d, v in manifests.items() if v is not None},
                       "project": project, "roots": [[p, v] for p, v in roots if v is not None], "files": sorted(regos)})
    impl = ctx.impl(cases, procs=1)     # chdir is process-global
    model = ctx.model(mcases)
    for c in cases:
        i, m = impl[c["id"]].get("out") or {}, model[c["id"]].get("out") or {}
        cc = {k: v for k, v in c.items() if not k.startswith("_")}
        if "error" in i or "files" not in i:
            ctx.brk("c20.tree harness", cc, impl[c["id"]], m)
            continue
        configured = any(v != "undefined" for v in (m.get("files") or {}).values())
        ctx.seen(c, ("tree", c["id"]) if configured else None)
        if {k or "": v for k, v in i["versionsMap"].items()} != m.get("versionsMap"):
            ctx.brk("config.go AllRegoVersions ~ Version.allVersions", cc, i["versionsMap"], m.get("versionsMap"))
        for name, kind in c["_regos"].items():
            got = i["files"].get(name) or {}
            ver = (m.get("files") or {}).get(name)
            want = outcome(ver, kind)
            ctx.count("tree:%s/%s" % (ver, kind))
            project, roots, manifests = c["_spec"]
            stated = outcome(expected_version(name, project, roots, manifests), kind)
            if len(set(got.values())) == 1 and got.get("absolute") != stated:
                ctx.fail("a file is not parsed with the version of the deepest configured directory containing it",
                         cc, None, {"file": name, "got": got.get("absolute"), "stated": stated,
                                    "project": project, "roots": roots, "manifests": manifests})
            if len(set(got.values())) > 1:
                ctx.fail("a file is parsed differently depending on how its path is spelled (relative / absolute / ./ / "
                         "from its own directory / from the parent of the root)", cc, None, {"file": name, "got": got})
            elif got.get("absolute") != want:
                ctx.brk("InputFromPaths (version per file) ~ Version.lookup∘allVersions", cc, {"file": name, "got": got},
                        {"version": ver, "want": want})
    # the same trees through the language server, with directory names that are percent-encoded in URIs
    lcases = []
    for c in cases[: (16 if ctx.quick else 200)]:
        project, roots, manifests = c["_spec"]
        conf = {"rules": {}}
        proj = {}
        if project is not None:
            proj["rego-version"] = project
        if roots:
            proj["roots"] = [({"path": respell(p), "rego-version": v} if v is not None else respell(p)) for p, v in roots]
        if proj:
            conf["project"] = proj
        files = {respell(f): t for f, t in c["files"].items()}
        for client in (["verif", "Visual Studio Code"] if len(lcases) % 4 == 0 else ["verif"]):
            lcases.append({"id": len(lcases), "op": "c20.lsp", "client": client, "config": conf, "files": files, "_of": c})
    lres = ctx.impl(lcases, timeout=3000, procs=6)
    for lc in lcases:
        o = lres[lc["id"]].get("out") or {}
        c = lc["_of"]
        project, roots, manifests = c["_spec"]
        cc = {k: v for k, v in lc.items() if not k.startswith("_")}
        if "files" not in o:
            ctx.brk("c20.lsp harness", cc, lres[lc["id"]], None)
            continue
        for name in c["_regos"]:
            want = expected_version(name, project, roots, manifests)
            got = o["files"].get(respell(name))
            got = {"unknown": "undefined"}.get(got, got)
            ctx.seen({"lsp": lc["id"], "file": name}, ("lsp", lc["id"], name) if want != "undefined" else None)
            ctx.count("lsp:%s" % want)
            if got != want:
                ctx.fail("the language server parses a document with another version than the deepest configured directory "
                         "containing it gives", cc, None, {"file": respell(name), "got": got, "stated": want})
    ctx.sample({"config": cases[3]["config"], "files": sorted(cases[3]["files"]), "impl": impl[3].get("out")})


def run(ctx):
    part_lookup(ctx)
    part_tree(ctx)


def search(ctx):
    sub = type(ctx)(ctx.pid, "thorough", ctx.seed + 5)
    sub.oracle, sub.driver = ctx.oracle, ctx.driver
    part_tree(sub)
    ctx.failures += sub.failures
    ctx.evaluations += sub.evaluations
