"""C06 — inline ignore directives suppress exactly the named rules, same or next line."""
from . import kernel

PID = "C06"
LEVEL = "proof"
RULE = ("marker workspaces (1-3 files; built-in, custom and aggregate rules with locations); for violations v of the base report: "
        "a directive is placed on the line above / end of same line / two lines above / line below, spelled as the exact name, "
        "a comma list with spaces, another rule's name, a prefix of the name; expected report = base minus the violations named "
        "on the directive's row or the next row, other rows shifted by one when a line was inserted. distinct = (workspace, "
        "violation, placement, spelling); non-trivial = the directive is expected to suppress at least one violation"
        ' Also: comment texts (exhaustive small token alphabet up to 4-5 tokens, NBSP/VT/FF, random, well-formed comma lists with white space) through the real parser + ast.ignore_directives vs Directive.names.')
TRUSTED = ["Env boundary: OPA's comment locations and the rule packages; the parser keeps a rule's row when a comment line is inserted elsewhere"]
ASSUMPTIONS = ["two-phase pipelines are excluded here (finding C09-directives)"]

PLACEMENTS = ["above", "same", "two-above", "below"]


def spellings(title):
    other = "rule-y" if title != "rule-y" else "rule-x"
    return {"exact": title, "list": "%s, %s" % (other, title), "other": other, "prefix": title[:-1]}


def apply(content, row, placement, names):
    lines = content.split("\n")
    d = "# regal ignore:" + names
    i = row - 1
    if placement == "same":
        lines[i] = lines[i] + " " + d
        return "\n".join(lines), None, row
    at = {"above": i, "two-above": i - 1, "below": i + 1}[placement]
    if at < 2:       # never above the package clause / blank line 2
        return None, None, None
    lines.insert(at, d)
    return "\n".join(lines), at + 1, at + 1   # (content, inserted row, directive row)


def safe(content, row, placement):
    """do not split a METADATA block from its rule"""
    lines = content.split("\n")
    at = {"above": row - 1, "two-above": row - 2, "below": row, "same": None}[placement]
    if at is None:
        # a second "regal ignore:" inside the same comment is not a directive spelling the property covers
        return not lines[row - 1].startswith("# METADATA") and not lines[row - 1].startswith("# entrypoint") \
            and "regal ignore:" not in lines[row - 1]
    prev = lines[at - 1] if 0 < at <= len(lines) else ""
    # inserting right below an existing directive would separate it from the line it covers: the expected
    # report is then not "base minus the named violations", so such placements are not generated
    return not (prev.startswith("# METADATA") or prev.startswith("# entrypoint") or "regal ignore:" in prev)


def part_spelling(ctx):
    """Directive.names (Lean) ~ the real parser + ast.ignore_directives, on comment texts: exhaustive over a small
    token alphabet (names, commas, blanks, tabs, the marker, other text) up to 6 tokens, plus random texts with
    non-ASCII and unusual white space; and the property's own reading on well-formed spellings (theorem
    names_spelling): the names are exactly the listed ones."""
    import itertools
    rng = ctx.rng("spelling")
    toks = ["regal ignore:", "a", "rule-x", ",", " ", "\t", "x y"]
    texts = set()
    for n in range(0, 5 if ctx.quick else 6):
        for combo in itertools.product(toks, repeat=n):
            texts.add("".join(combo))
    texts = sorted(texts)
    if ctx.quick and len(texts) > 2500:
        texts = rng.sample(texts, 2500)
    extra = []
    alphabet = ["regal ignore:", "regal ignore: ", "a", "b-c", "é", ",", ", ", " ,", " ", "  ", "\t", "\u00a0", "\x0b", "\x0c", "#", "regal", "ignore:", ":", "todo-comment"]
    for _ in range(300 if ctx.quick else 5000):
        extra.append("".join(rng.choice(alphabet) for _ in range(rng.randint(1, 9))))
    # well-formed spellings with their expected names (what names_spelling states)
    wf = []
    for _ in range(150 if ctx.quick else 2000):
        names = [rng.choice(["a", "rule-x", "todo-comment", "é1", "x_y"]) for _ in range(rng.randint(1, 4))]
        ws = lambda: "".join(rng.choice([" ", "\t", "\x0c"]) for _ in range(rng.randint(0, 2)))
        body = ",".join(ws() + n + ws() for n in names)
        wf.append((rng.choice(["", " ", "  ", "\t "]) + "regal ignore:" + body, names))
    cases = [{"id": k, "op": "c06.names", "text": t} for k, t in enumerate(texts + extra + [w[0] for w in wf])]
    impl, model = ctx.impl(cases, procs=8), ctx.model(cases)
    nwf0 = len(texts) + len(extra)
    for c in cases:
        i = impl[c["id"]].get("out") or {}
        m = model[c["id"]].get("out")
        if "parseError" in i:
            ctx.count("spelling:unparseable-comment")
            continue
        got = i.get("names")
        ctx.seen(c, ("sp", c["text"]) if got else None)
        ctx.count("spelling:" + ("directive" if got is not None else "no-directive"))
        if "error" in i or got != m:
            ctx.brk("comments.rego ignore_directives ~ Directive.names", c, i, m)
        if c["id"] >= nwf0:
            want = wf[c["id"] - nwf0][1]
            if got != want:
                ctx.fail("a well-formed directive (comma list with white space) does not name exactly the listed rules",
                         c, None, {"names": got, "listed": want})


def run(ctx):
    part_spelling(ctx)
    rng = ctx.rng()
    nb = 14 if ctx.quick else 120
    per = 10 if ctx.quick else 24
    bases = []
    for w in range(nb):
        c = kernel.gen_case(rng, 1, 3)
        c.update({"collect": False, "export": False, "enabled": False, "w": w})
        c["params"]["ignoreFiles"] = []
        bases.append(c)
    impl, model = kernel.run_both(ctx, bases)
    variants = []
    for c in bases:
        i, m = impl[c["id"]], model[c["id"]]
        kernel.compare(ctx, c, i, m)     # a break here must not switch the property oracle off: it uses the
        if "error" in (i.get("out") or {"error": 1}):   # implementation's own base report
            continue
        base_v = (i.get("out") or {}).get("violations") or []
        ctx.seen(c, None)
        located = [v for v in base_v if v[4] is not None]
        if not located:
            continue
        agg_located = [v for v in located if v[5]]
        for _ in range(per):
            # cross-file (aggregate) violations are rarer than the others: pick them half of the time when there are any
            v = rng.choice(agg_located) if agg_located and rng.random() < 0.5 else rng.choice(located)
            placement = rng.choice(PLACEMENTS)
            sp_kind, names = rng.choice(sorted(spellings(v[1]).items()))
            f = next(f for f in c["files"] if f["name"] == v[3])
            if not safe(f["content"], v[4], placement):
                continue
            newc, inserted, drow = apply(f["content"], v[4], placement, names)
            if newc is None:
                continue
            vc = dict(c)
            vc["files"] = [dict(x, content=newc) if x["name"] == f["name"] else x for x in c["files"]]
            named = [n for n in "".join(names.split()).split(",")]
            exp = []
            suppressed = 0
            for b in base_v:
                row = b[4]
                if b[3] == f["name"] and row is not None:
                    if inserted is not None and row >= inserted:
                        row += 1
                    if b[1] in named and (row == drow or row == drow + 1):
                        suppressed += 1
                        continue
                exp.append([b[0], b[1], b[2], b[3], row, b[5]])
            vc["_exp"] = sorted(exp, key=str)
            vc["_meta"] = {"violation": v, "placement": placement, "spelling": sp_kind, "names": names, "suppressed": suppressed}
            variants.append(vc)
    vi, vm = kernel.run_both(ctx, variants)
    for c in variants:
        i, m = vi[c["id"]], vm[c["id"]]
        meta = c["_meta"]
        key = (c["w"], str(meta["violation"]), meta["placement"], meta["spelling"])
        ctx.seen(c, key if meta["suppressed"] else None)
        ctx.count("%s/%s" % (meta["placement"], meta["spelling"]))
        ctx.count("rule=" + meta["violation"][1])
        cc = {k: v for k, v in c.items() if not k.startswith("_")}
        kernel.compare(ctx, cc, i, m)
        if "error" in (i.get("out") or {"error": 1}):
            continue
        got = sorted((i.get("out") or {}).get("violations") or [], key=str)
        if got != c["_exp"]:
            ctx.fail("directive did not suppress exactly the named violations on its row / next row",
                     dict(kernel.slim(cc), directive=meta), None,
                     {"expected": c["_exp"], "got": got})
        elif meta["suppressed"]:
            ctx.sample({"directive": meta, "file_after": [f for f in c["files"] if f["name"] == meta["violation"][3]][0]["content"]}, limit=3)
