"""C16 — text edits sent to the editor reproduce the intended text exactly."""
import itertools

PID = "C16"
LEVEL = "proof"
RULE = ("(a) exhaustive: every pair of documents over the line alphabet {a, b, empty line} with up to 4 lines, with and without "
        "a final newline (363 documents, 131 769 pairs; the property's 58k pairs are a subset) — quick samples 12 000 of them "
        "with the seed, thorough runs all; (b) random pairs: policies vs variants with deleted/inserted/moved/duplicated blocks, "
        "CRLF, multi-byte text, empty documents, up to 60 lines. Compared: the operation list field by field (so tie-breaking "
        "between equally short scripts must match), the edit list, and the result of applying the edits with an independent "
        "LSP-client implementation. non-trivial = before != after; distinct = distinct pair"
        ' Also large documents (400-2200 lines, hundreds to thousands of changed lines), implementation only.')
TRUSTED = ["LSP client semantics as implemented by the harness' applyTextEdits (character 0 only; line == line count means end of document)"]
ASSUMPTIONS = []


def docs():
    lines = ["a\n", "b\n", "\n"]
    bodies = set()
    for n in range(0, 5):
        for seq in itertools.product(lines, repeat=n):
            bodies.add("".join(seq))
    out = sorted(bodies)
    out += [b + t for b in sorted(bodies) for t in ("a", "b")]
    return out


BASE = ["package p", "", "import data.x", "", "# comment é€", "allow if {", "\tinput.x == 1", "}", "", "deny contains msg if {",
        "\tmsg := \"no\"", "}", ""]


def mutate(rng, lines):
    l = lines[:]
    for _ in range(rng.randint(1, 4)):
        r = rng.random()
        if r < 0.3 and l:
            i = rng.randrange(len(l)); j = min(len(l), i + rng.randint(1, 3)); del l[i:j]
        elif r < 0.6:
            i = rng.randint(0, len(l)); l[i:i] = [rng.choice(BASE + ["x := %d" % rng.randint(0, 3)]) for _ in range(rng.randint(1, 3))]
        elif r < 0.8 and len(l) > 2:
            i = rng.randrange(len(l)); j = min(len(l), i + rng.randint(1, 3)); blk = l[i:j]; del l[i:j]
            k = rng.randint(0, len(l)); l[k:k] = blk
        else:
            i = rng.randrange(len(l)) if l else 0
            if l:
                l[i:i] = [l[i]]
    return l


def check(ctx, cases, with_model=True):
    impl = ctx.impl(cases, timeout=1800)
    model = ctx.model(cases) if with_model else {}
    for c in cases:
        i, m = impl[c["id"]], model.get(c["id"], {})
        io, mo = i.get("out") or {}, m.get("out") or {}
        ctx.seen(c, (c["before"], c["after"]) if c["before"] != c["after"] else None)
        pair = {"before": c["before"], "after": c["after"]}
        if "panic" in i or "crash" in i:
            ctx.fail("ComputeEdits panicked", pair, None, i)
            continue
        if with_model and (mo.get("none") or any(io.get(k) != mo.get(k) for k in ("ops", "edits", "lines"))):
            ctx.brk("diff.go/format.go ComputeEdits ~ Diff.computeEdits", pair, {k: io.get(k) for k in ("ops", "edits")},
                    {k: mo.get(k) for k in ("ops", "edits", "none")})
        if not io.get("inBounds") or io.get("applied") != c["after"]:
            ctx.fail("applying the edits to 'before' does not give 'after' (or an edit is out of bounds / overlapping)",
                     pair, None, {"edits": io.get("edits"), "applied": io.get("applied")})
        es = io.get("edits") or []
        for k in range(len(es) - 1):
            if (es[k][2], es[k][3]) > (es[k + 1][0], es[k + 1][1]):
                ctx.fail("edits are not ordered / overlap", pair, None, {"edits": es})
                break


def run(ctx):
    rng = ctx.rng()
    ds = docs()
    pairs = [(x, y) for x in ds for y in ds]
    if ctx.quick:
        pairs = rng.sample(pairs, 12000)
    else:
        global EXHAUSTIVE
        EXHAUSTIVE = True
    cases = [{"id": k, "op": "c16.edits", "before": x, "after": y} for k, (x, y) in enumerate(pairs)]
    check(ctx, cases)
    ctx.count("exhaustive-alphabet-pairs", len(cases))
    rc = []
    for k in range(400 if ctx.quick else 20000):
        base = BASE[: rng.randint(0, len(BASE))] * rng.choice([1, 1, 2, 4])
        a = mutate(rng, base) if rng.random() < 0.5 else base
        b = mutate(rng, a)
        # line endings are chosen independently for the two documents (a formatter turns CRLF into LF) and, now and
        # then, per line
        def render(lines):
            mode = rng.choice(["\n", "\n", "\r\n", "mixed"])
            out = ""
            for i, l in enumerate(lines):
                nl = rng.choice(["\n", "\r\n"]) if mode == "mixed" else mode
                last = i == len(lines) - 1
                out += l + (nl if not last or rng.random() < 0.7 else "")
            return out
        sa, sb = render(a), render(b)
        rc.append({"id": len(cases) + k, "op": "c16.edits", "before": sa, "after": sb})
    check(ctx, rc)
    ctx.count("random-pairs", len(rc))
    # large documents (hundreds to thousands of changed lines), implementation only: the theorem computeEdits_exact
    # covers every size, the executable model is too slow to be run at this size, so the tie here is the property
    # predicate itself (independent client applies the edits)
    big = []
    for k in range(6 if ctx.quick else 40):
        n = rng.choice([400, 900, 1300, 2200])
        a = ["rule_%d := %d" % (i, i) for i in range(n)]
        mode = k % 3
        if mode == 0:
            b = ["\t" + l for l in a]                       # every line changes (re-indentation)
        elif mode == 1:
            b = [l for i, l in enumerate(a) if i % 3] + ["tail_%d := 0" % i for i in range(n // 2)]
        else:
            b = [("x" + l if i % 2 else l) for i, l in enumerate(a)]
        sa = "\n".join(a) + ("\n" if k % 2 == 0 else "")
        sb = "\n".join(b) + ("\n" if k % 4 < 2 else "")
        big.append({"id": len(cases) + len(rc) + k, "op": "c16.edits", "before": sa, "after": sb})
    check(ctx, big, with_model=False)
    ctx.count("large-pairs (implementation only)", len(big))
    ctx.sample({"before": "a\nb\n", "after": "a\nc\n", "note": "see histogram for counts"})
    ctx.sample({"before": rc[3]["before"], "after": rc[3]["after"]})


def search(ctx):
    """the correspondence broke without a failing input in the regular run: more random pairs with another seed"""
    sub = type(ctx)(ctx.pid, "quick", ctx.seed + 17)
    sub.oracle, sub.driver = ctx.oracle, ctx.driver
    run(sub)
    ctx.failures += sub.failures
