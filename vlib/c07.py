"""C07 — reported locations are inside the file and move with the code (partial)."""
from . import corpus

PID = "C07"
LEVEL = "proof"
RULE = ("PROVED part: location helpers + kernel_shift_equivariant, tied function-level: result.location through the real OPA on "
        "random well-formed and malformed 'r:c:er:ec' strings over lines with tabs, multi-byte text and CRLF remnants vs "
        "Location.resultLocation. SAMPLED part (hypotheses 'every rule hands in a well-formed node' and Env.RowEquivariant): all "
        "rules over repository / conformance / generated modules: every violation has 1 <= row <= #lines, 1 <= col <= "
        "len(line)+1 (code points), end >= start, text == the reported line; k in {1,3,10,100} blank lines prepended move every "
        "row by k and change nothing else (rules excluded by definition: file-length, opa-fmt). non-trivial = module with >= 1 "
        "located violation; distinct = distinct module"
        ' Also: the LSP range of every located violation through the real getRangeForViolation vs Location.lspRange (ordered, inside the file); the generated corpus contains compiler-rejected shapes and comment placements.')
TRUSTED = ["OPA parser locations (code points, 1-based) and roast's end computation are Env side"]
ASSUMPTIONS = ["each rule passes a well-formed node to result.location / ranged_* (sampled)", "Env.RowEquivariant (sampled)"]

EXCLUDED_FROM_SHIFT = {"file-length": "the line count grows by k", "opa-fmt": "leading blank lines are not formatter-stable"}


def part_fn(ctx):
    rng = ctx.rng("fn")
    pool = ["package p", "", "x := \"é€\" # c", "\tallow if {", "a", "deny contains msg if input.x\r", "}", "é" * 5]
    cases = []
    for k in range(400 if ctx.quick else 6000):
        lines = [rng.choice(pool) for _ in range(rng.randint(0, 6))]
        r = rng.randint(0, 8)
        c = rng.randint(0, 12)
        er = r if rng.random() < 0.6 else rng.randint(0, 9)
        ec = rng.randint(0, 14)
        cases.append({"id": k, "op": "c07.loc", "lines": lines, "file": "p/a.rego", "loc": "%d:%d:%d:%d" % (r, c, er, ec)})
    impl, model = ctx.impl(cases), ctx.model(cases)
    for c in cases:
        a, b = impl[c["id"]].get("out"), model[c["id"]].get("out")
        ctx.seen(c, ("loc", c["id"]) if a and "location" in a else None)
        ctx.count("fn:" + ("defined" if a and "location" in a else "undefined"))
        if a != b:
            ctx.brk("result.rego location / util.rego to_location_object ~ Location.resultLocation", c, a, b)
        if a and "location" in a:
            loc = a["location"]
            r = loc["row"]
            if "file" in loc and 1 <= r <= len(c["lines"]) and loc.get("text") != c["lines"][r - 1]:
                ctx.fail("result.location text is not the reported line", c, None, loc)


def check_violation(ctx, name, lines, v):
    title, cat, level, file, row, col, er, ec, text, agg = v
    if row == 0 and col == 0 and file in ("", None):
        return
    desc = {"file": name, "violation": v}
    if file != name:
        ctx.fail("a violation names a file that was not linted", desc, None, None)
        return
    if row == 0 and col == 0 and er is None:
        return      # a file-level violation (testing/file-missing-test-suffix): it names the file and carries no position
    if not (1 <= row <= len(lines)):
        ctx.fail("violation row outside the file", desc, None, {"lines": len(lines)})
        return
    line = lines[row - 1]
    if not (1 <= col <= len(line) + 1):
        ctx.fail("violation column outside the reported line", desc, None, {"line": line})
    if er is not None and ((er, ec) < (row, col)):
        ctx.fail("violation end is before its start", desc, None, None)
    if text is not None and not agg and text != line:
        known = None
        if title == "impossible-not" and text.startswith("not ") and text in line:
            known = "C07-impossible-not-synthesised-text"
        ctx.fail("violation text is not the reported line", desc, known, {"line": line})


def run(ctx):
    part_fn(ctx)
    mods, stats = corpus.pick(ctx, "c07", 30 if ctx.quick else 277, 40 if ctx.quick else 800, 150 if ctx.quick else 1500)
    cases = [{"id": k, "op": "corpus.lint", "files": [{"name": n, "content": c}], "_k": 0, "_m": k} for k, (n, c) in enumerate(mods)]
    rng = ctx.rng("shift")
    shifted = rng.sample(range(len(mods)), min(len(mods), 90 if ctx.quick else 900))
    for m in shifted:
        for k in ([1, rng.choice([3, 10, 100])] if ctx.quick else [1, 3, 10, 100]):
            n, c = mods[m]
            nl = "\r\n" if "\r\n" in c else "\n"
            cases.append({"id": len(cases), "op": "corpus.lint", "files": [{"name": n, "content": nl * k + c}], "_k": k, "_m": m})
    impl = ctx.impl(cases, timeout=3000, procs=14)
    base = {}
    located = 0
    for c in cases:
        o = impl[c["id"]].get("out") or {}
        if o.get("status") != "ok":
            continue
        n, content = c["files"][0]["name"], c["files"][0]["content"]
        lines = corpus.split_lines(content)
        vs = o.get("violations") or []
        if c["_k"] == 0:
            base[c["_m"]] = vs
            has = any(v[4] > 0 for v in vs)
            located += sum(1 for v in vs if v[4] > 0)
            ctx.seen(c, ("m", n) if has else None)
            for v in vs:
                check_violation(ctx, n, lines, v)
        else:
            k = c["_k"]
            b = base.get(c["_m"])
            if b is None:
                continue
            ctx.seen(c, ("shift", n, k))
            ctx.count("shift k=%d" % k)
            want = sorted([[v[0], v[1], v[2], v[3], v[4] + k if v[4] > 0 else 0, v[5], (v[6] + k) if v[6] else v[6], v[7], v[8], v[9]]
                           for v in b if v[0] not in EXCLUDED_FROM_SHIFT], key=str)
            got = sorted([v for v in vs if v[0] not in EXCLUDED_FROM_SHIFT], key=str)
            if got != want:
                extra = [v for v in got if v not in want][:3]
                missing = [v for v in want if v not in got][:3]
                ctx.fail("prepending %d blank lines changed the findings beyond moving rows by %d" % (k, k),
                         {"file": n, "k": k, "content": content[:1500]}, None, {"extra": extra, "missing": missing})
    # the editor range of every located violation of the unshifted runs: the real getRangeForViolation vs the model
    # (theorem lsp_range_ordered), and the property itself: the range does not end before it starts and lies inside
    # the file
    rcases = []
    for m, vs in base.items():
        n, content = mods[m]
        nlines = len(corpus.split_lines(content))
        for v in vs:
            title, cat, level, file, row, col, er, ec, text, agg = v
            if not row:
                continue
            rc = {"id": len(rcases), "op": "c07.lsprange", "row": row, "col": col, "_file": n, "_v": v, "_nlines": nlines}
            if er is not None:
                rc["end"] = [er, ec]
            if text is not None:
                rc["text"] = text
            rcases.append(rc)
    if len(rcases) > (1500 if ctx.quick else 30000):
        rcases = ctx.rng("lsprange").sample(rcases, 1500 if ctx.quick else 30000)
        for k, rc in enumerate(rcases):
            rc["id"] = k
    if rcases:
        ri, rm = ctx.impl(rcases), ctx.model(rcases)
        multi = 0
        for rc in rcases:
            a, b = ri[rc["id"]].get("out"), rm[rc["id"]].get("out")
            desc = {"file": rc["_file"], "violation": rc["_v"]}
            if a != b:
                ctx.brk("lint.go getRangeForViolation ~ Location.lspRange", desc, a, b)
            if not a:
                continue
            multi += a[2] > a[0]
            ctx.seen(rc, ("lsprange", rc["_file"], str(rc["_v"])) if a[2] > a[0] else None)
            if (a[2], a[3]) < (a[0], a[1]):
                ctx.fail("the editor range of a violation ends before it starts", desc, None, {"range": a})
            if a[2] >= rc["_nlines"]:
                ctx.fail("the editor range of a violation ends outside the file", desc, None, {"range": a, "lines": rc["_nlines"]})
        ctx.count("lsp ranges checked", len(rcases))
        ctx.count("lsp ranges spanning several lines", multi)
    ctx.assumption_sampling["WellFormedNode+RowEquivariant"] = {"modules": len(mods), "located_violations": located,
                                                                "shift_runs": len(cases) - len(mods), **stats}
    ctx.sample({"module": mods[0][0], "violations": (base.get(0) or [])[:3]})
