"""C01 — lint verdict is a pure function of its inputs (schedule/order independent)."""
from . import core, kernel, aggworld
import itertools

PID = "C01"
LEVEL = "proof"
RULE = ("workspaces of 1-6 generated marker files (synthetic built-in/custom/aggregate rules + two real rules), random user "
        "config and CLI params; each linted free-running and with the completion order of the per-file workers FORCED to "
        "random permutations through schedule gates in an overlay copy of linter.go, and with the input list permuted; "
        "non-trivial = the report has at least one world violation; distinct = distinct (files,config,params)"
        ' Also: workspaces on which the six real aggregate rules and a custom one report, under all / many forced completion orders (full reports compared); a mixed-version project loaded through the concurrent rules.InputFromPaths under GOMAXPROCS 1/2/16; the same operations under an oracle built with -race; go/ast facts on the per-file goroutines.')
TRUSTED = ["Env boundary: rule packages, OPA parser/evaluator (marker world is an executable stand-in)",
           "Go mutex/channel semantics; atomicity of the mutex-protected merge block (checked: gates are inserted around it)"]
ASSUMPTIONS = ["Env.AggPermInvariant for real aggregate rules is sampled, not proved"]


def oracle_extra():
    extra, ok = core.gated_linter()
    return extra, ok


def run(ctx):
    rng = ctx.rng()
    n = 60 if ctx.quick else 600
    cases = []
    for w in range(n):
        base = kernel.gen_case(rng, 1, 6)
        base["w"] = w
        cases.append(base)
        names = [f["name"] for f in base["files"]]
        for k in range(2 if ctx.quick else 4):
            c = dict(base)
            c["enabled"] = False
            order = names[:]
            rng.shuffle(order)
            c["order"] = order
            cases.append(c)
        c = dict(base)
        c["enabled"] = False
        fl = base["files"][:]
        rng.shuffle(fl)
        c["files"] = fl
        c["perm_input"] = True
        cases.append(c)
    impl, model = kernel.run_both(ctx, cases)
    byw = {}
    for c in cases:
        i, m = impl[c["id"]], model[c["id"]]
        io = i.get("out") or {}
        nz = bool(io.get("violations"))
        ctx.seen(c, (c["w"]) if nz else None)
        ctx.count("files=%d" % len(c["files"]))
        ctx.count("forced-order" if c.get("order") else "input-permuted" if c.get("perm_input") else "free")
        if "panic" in i or "crash" in i:
            ctx.fail("panic/crash in Lint", kernel.slim(c), None, i)
            continue
        kernel.compare(ctx, c, i, m)
        if "error" not in io and io:
            kernel.selfcheck(ctx, c, io)
        byw.setdefault(c["w"], []).append((c, io))
        if nz:
            ctx.sample({"files": [f["name"] for f in c["files"]], "order": c.get("order"),
                        "violations": io.get("violations")[:4], "summary": io.get("summary")}, limit=4)
    lost_error(ctx)
    facts(ctx)
    agg_orders(ctx)
    paths_and_race(ctx)
    procs_and_concurrency(ctx, [c for c in cases if not c.get("order") and not c.get("perm_input")], impl)
    # property predicate on the implementation alone: all runs of one workspace give the same verdict
    for w, runs in byw.items():
        ref = runs[0][1]
        for c, io in runs[1:]:
            for k in ("violations", "notices", "summary", "aggregates"):
                if io.get(k) != ref.get(k):
                    ctx.fail("two runs of the same workspace differ in %s" % k, kernel.slim(c), None,
                             {"first": ref.get(k), "this": io.get(k), "order": c.get("order")})
                    break


def agg_orders(ctx):
    """Env.AggPermInvariant sampled on the REAL aggregate rules: workspaces on which the six built-in aggregate rules
    and a custom one report, linted free-running, with every (<= 4 files) or several random forced completion orders
    of the per-file workers, and with the input list permuted; the complete reports (all rules) must be identical."""
    rng = ctx.rng("aggorders")
    n = 14 if ctx.quick else 150
    cases = []
    for w in range(n):
        files = aggworld.gen_workspace(rng, 2, 4 if ctx.quick else 6)
        names = [f["name"] for f in files]
        cases.append(aggworld.case(files, id=len(cases), w=w))
        perms = list(itertools.permutations(names))
        if len(perms) > (6 if ctx.quick else 24):
            perms = rng.sample(perms, 6 if ctx.quick else 24)
        for order in perms:
            cases.append(aggworld.case(files, id=len(cases), w=w, order=list(order)))
        fl = files[:]
        rng.shuffle(fl)
        cases.append(aggworld.case(fl, id=len(cases), w=w, perm_input=True))
    impl = ctx.impl(cases, procs=12)
    ref = {}
    for c in cases:
        i = impl[c["id"]]
        io = i.get("out") or {}
        if "panic" in i or "crash" in i or "error" in io:
            ctx.brk("aggregate-rule workspace could not be linted (harness)", kernel.slim(c), i, None)
            continue
        vs = io.get("violations") or []
        ctx.seen(c, ("agg", c["w"], str(c.get("order")), bool(c.get("perm_input"))) if any(v[5] for v in vs) else None)
        if c["w"] not in ref:
            ref[c["w"]] = io
            for t in sorted({v[1] for v in vs if v[5]}):
                ctx.count("agg-reporting:" + t)
            continue
        for k in ("violations", "notices", "summary", "aggregates"):
            if io.get(k) != ref[c["w"]].get(k):
                a, b = ref[c["w"]].get(k), io.get(k)
                diff = {"only_first": [x for x in a if x not in b], "only_this": [x for x in b if x not in a]} \
                    if isinstance(a, list) else {"first": a, "this": b}
                ctx.fail("two runs of the same workspace (real aggregate rules) differ in %s: the verdict depends on the "
                         "completion order of the per-file workers / the input order" % k, kernel.slim(c), None,
                         dict(diff, order=c.get("order"), perm_input=c.get("perm_input", False)))
                break


def paths_and_race(ctx):
    """(a) mixed-version project loaded through the concurrent rules.InputFromPaths: every file must be parsed with the
    version of its own directory, in every run and under every GOMAXPROCS (a file parsed with another file's version
    changes its verdict: the shared-state hazard named in the property's anchors);
    (b) the same operations and a few lints / concurrent lints under Go's race detector (an oracle binary built with
    -race from the current tree): an unsynchronised access to shared state is exactly an interleaving on which the
    verdict may differ, and the detector reports it on schedules where the values happened to agree."""
    import os, subprocess, json as _json, re
    reps = 3 if ctx.quick else 20
    cases = [{"id": k, "op": "c01.paths", "n": 60 if ctx.quick else 300, "lint": k == 0} for k in range(reps)]
    for procs in ("1", "2", "16"):
        env = dict(os.environ, GOMAXPROCS=procs)
        res = ctx.impl(cases, env=env, procs=1)
        for c in cases:
            o = res[c["id"]].get("out") or {}
            ctx.seen(dict(c, procs=procs), ("paths", procs, c["id"]))
            ctx.count("paths:GOMAXPROCS=" + procs)
            if "error" in o or "crash" in res[c["id"]]:
                ctx.fail("loading a mixed-version project failed on some run", dict(c, procs=procs), None, res[c["id"]])
            elif o.get("wrongVersion"):
                ctx.fail("a file was parsed with the Rego version of another directory (InputFromPaths, concurrent parse)",
                         dict(c, procs=procs), None, {"wrong": o["wrongVersion"][:5], "count": len(o["wrongVersion"])})
    # (b) race detector
    try:
        extra, _ = core.gated_linter()
        racebin = core.build_oracle(extra=extra, name="oracle-race", race=True)
    except core.BuildBroken as e:
        ctx.notes.append("race-detector build of the oracle failed: %s" % str(e)[-300:])
        ctx.brk("race-detector oracle build", {"op": "build -race"}, str(e)[-500:], None)
        return
    rng = ctx.rng("race")
    rc = [{"id": 0, "op": "c01.paths", "n": 40 if ctx.quick else 200, "lint": True}]
    for k in range(2 if ctx.quick else 10):
        files = aggworld.gen_workspace(rng, 3, 6)
        rc.append(aggworld.case(files, id=len(rc)))
        rc.append(dict(aggworld.case(files, id=len(rc)), op="kernel.concurrent", n=3))
        base = kernel.gen_case(rng, 2, 6)
        rc.append(dict(base, id=len(rc), enabled=False))
    data = "".join(_json.dumps(c, ensure_ascii=False) + "\n" for c in rc)
    env = dict(os.environ, GORACE="halt_on_error=0", GOMAXPROCS="16")
    p = subprocess.run([racebin], input=data, env=env, stdout=subprocess.PIPE, stderr=subprocess.PIPE, text=True, timeout=1800)
    answered = sum(1 for l in p.stdout.splitlines() if l.strip().startswith("{"))
    races = p.stderr.split("WARNING: DATA RACE")[1:]
    ctx.count("race-detector-ops", len(rc))
    for c in rc:
        ctx.seen({"race": c["id"], "op": c["op"]}, ("race", c["id"]))
    if answered < len(rc):
        ctx.brk("race-detector run did not answer every operation", {"answered": answered, "of": len(rc)}, p.stderr[-1500:], None)
    sites = []
    for r in races:
        fr = re.findall(r"^\s+(/\S+\.go:\d+)", r, re.M)
        fn = re.findall(r"^\s{2}(\S+\(\))", r, re.M)
        key = (fn[0] if fn else "?", fr[0] if fr else "?")
        if key not in sites:
            sites.append(key)
    # only races inside the repository's own code count (not in the harness)
    own = [s for s in sites if "/verifharness/" not in s[1]]
    if own:
        # the Kernel model treats parsing/evaluating one file as a pure function and the merge block as atomic; a data
        # race breaks that tie. It is reported as a broken correspondence; `search` then hunts for a run whose verdict
        # actually differs.
        ctx.brk("no data race on state shared by concurrent workers (purity/atomicity assumed by the Kernel model) — "
                "Go race detector, %d report(s)" % len(races), {"ops": [c["op"] for c in rc]},
                {"sites": own[:6], "first_report": races[0][:1800]}, None)


def search(ctx):
    """a proof obligation / the correspondence / the race check broke: look for a run whose verdict differs"""
    import os
    reps = 40
    cases = [{"id": k, "op": "c01.paths", "n": 300, "lint": False} for k in range(reps)]
    env = dict(os.environ, GOMAXPROCS="16")
    res = ctx.impl(cases, env=env, procs=4)
    for c in cases:
        o = res[c["id"]].get("out") or {}
        ctx.seen(dict(c, procs="16"), ("search-paths", c["id"]))
        if o.get("wrongVersion"):
            ctx.fail("a file was parsed with the Rego version of another directory (InputFromPaths, concurrent parse; "
                     "found by repeated runs at GOMAXPROCS=16)", dict(c, procs="16"), None,
                     {"wrong": o["wrongVersion"][:5], "count": len(o["wrongVersion"])})
            return
    sub = type(ctx)(ctx.pid, "thorough", ctx.seed + 11)
    sub.oracle, sub.driver, sub.gated = ctx.oracle, ctx.driver, ctx.gated
    agg_orders(sub)
    ctx.failures += sub.failures


def lost_error(ctx):
    """SelectProto tie: a worker errs while the others succeed, and the main goroutine is held before its final
    `select` until every worker is done, so that errCh and doneCh are both ready (the schedule that loses the error
    if `select` may return the report). Every run must return the error."""
    if not ctx.gated:
        ctx.notes.append("schedule gates could not be inserted (anchors missing in linter.go): select schedule not forced")
    rng = ctx.rng("boom")
    cases = []
    n = 24 if ctx.quick else 120
    for k in range(n):
        files = kernel.gen_files(rng, 1, 4)
        bad = rng.randrange(len(files))
        files[bad]["content"] += "# BOOM\n"
        cases.append({"id": k, "op": "kernel.lint", "files": files, "user": None, "params": kernel.gen_params(rng, 1.0),
                      "prefix": "", "collect": False, "export": False, "boom": True, "selectWaitMs": 120,
                      "vcatx": True})
    impl = ctx.impl(cases, procs=12)
    lost = 0
    for c in cases:
        io = impl[c["id"]].get("out") or {}
        ctx.seen(c, ("boom", c["id"]))
        ctx.count("boom:" + ("error-returned" if "error" in io else "error-lost"))
        if "error" not in io:
            lost += 1
            ctx.fail("an evaluation error of one file was dropped: Lint returned a report (schedule: all workers done "
                     "before the final select)", kernel.slim(c), "C01-lost-error", {"summary": io.get("summary")})
    return lost


def facts(ctx):
    """structural facts of the current linter.go the SelectProto / merge models rely on (go/ast)"""
    r = ctx.impl([{"id": 0, "op": "facts.linter"}])[0].get("out") or {}
    want = {"sharedWritesOutsideLock": 0, "errChBuffered": True, "finalSelect": True, "doneRepollsErrCh": True}
    ctx.seen({"facts": r}, ("facts",))
    bad = {k: r.get(k) for k, v in want.items() if r.get(k) != v}
    if bad or not r.get("sharedWrites"):
        ctx.brk("linter.go lintWithRegoRules structure ~ SelectProto/merge model (lock discipline, buffered errCh, "
                "doneCh case re-polls errCh)", {"op": "facts.linter"}, r, want)
    ctx.notes.append("facts.linter: %s" % r)
    g = ctx.impl([{"id": 0, "op": "facts.goroutines"}])[0].get("out") or {}
    ctx.seen({"facts.goroutines": g}, ("facts.goroutines",))
    bad = {k: v for k, v in g.items() if v}
    if bad or not g:
        ctx.brk("per-file goroutines write captured (shared) variables before taking the lock — the kernel model treats "
                "parsing / evaluating one file as a pure function of that file", {"op": "facts.goroutines"}, g, {k: [] for k in g})


def procs_and_concurrency(ctx, bases, ref_impl):
    """same workspaces under GOMAXPROCS 1/2/16 and as 4 concurrent Lint calls in one process"""
    import os
    rng = ctx.rng("procs")
    pick = rng.sample(bases, min(len(bases), 12 if ctx.quick else 80))
    for procs in ("1", "2", "16"):
        env = dict(os.environ)
        env["GOMAXPROCS"] = procs
        sub = [dict(c, id=i, enabled=False) for i, c in enumerate(pick)]
        res = ctx.impl(sub, env=env, procs=6)
        for c0, c in zip(pick, sub):
            a = (ref_impl[c0["id"]].get("out") or {})
            b = (res[c["id"]].get("out") or {})
            ctx.seen(c, ("procs", procs, c0["id"]))
            ctx.count("GOMAXPROCS=" + procs)
            for k in ("violations", "notices", "summary", "aggregates"):
                if a.get(k) != b.get(k):
                    ctx.fail("verdict differs under GOMAXPROCS=%s in %s" % (procs, k), kernel.slim(c0), None,
                             {"ref": a.get(k), "this": b.get(k)})
                    break
    conc = [dict(c, id=i, op="kernel.concurrent", n=4) for i, c in enumerate(pick[:6 if ctx.quick else 40])]
    res = ctx.impl(conc, procs=3)
    for c in conc:
        outs = res[c["id"]].get("out") or []
        ctx.seen(c, ("conc", c["id"]))
        ctx.count("concurrent-lints")
        for o in outs[1:]:
            if o != outs[0]:
                ctx.fail("concurrent Lint calls in one process disagree", kernel.slim(c), None, {"a": outs[0], "b": o})
                break
