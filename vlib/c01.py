"""C01 — lint verdict is a pure function of its inputs (schedule/order independent)."""
from . import core, kernel

PID = "C01"
LEVEL = "proof"
RULE = ("workspaces of 1-6 generated marker files (synthetic built-in/custom/aggregate rules + two real rules), random user "
        "config and CLI params; each linted free-running and with the completion order of the per-file workers FORCED to "
        "random permutations through schedule gates in an overlay copy of linter.go, and with the input list permuted; "
        "non-trivial = the report has at least one world violation; distinct = distinct (files,config,params)")
TRUSTED = ["Env boundary: rule packages, OPA parser/evaluator (marker world is an executable stand-in)",
           "Go mutex/channel semantics; atomicity of the mutex-protected merge block (checked: gates are inserted around it)"]
ASSUMPTIONS = ["Env.AggPermInvariant for real aggregate rules is sampled, not proved"]


def oracle_extra():
    extra, ok = core.gated_linter()
    return extra, ok


def run(ctx):
    rng = ctx.rng()
    n = 60 if ctx.quick else 600
    cases = []
    for w in range(n):
        base = kernel.gen_case(rng, 1, 6)
        base["w"] = w
        cases.append(base)
        names = [f["name"] for f in base["files"]]
        for k in range(2 if ctx.quick else 4):
            c = dict(base)
            c["enabled"] = False
            order = names[:]
            rng.shuffle(order)
            c["order"] = order
            cases.append(c)
        c = dict(base)
        c["enabled"] = False
        fl = base["files"][:]
        rng.shuffle(fl)
        c["files"] = fl
        c["perm_input"] = True
        cases.append(c)
    impl, model = kernel.run_both(ctx, cases)
    byw = {}
    for c in cases:
        i, m = impl[c["id"]], model[c["id"]]
        io = i.get("out") or {}
        nz = bool(io.get("violations"))
        ctx.seen(c, (c["w"]) if nz else None)
        ctx.count("files=%d" % len(c["files"]))
        ctx.count("forced-order" if c.get("order") else "input-permuted" if c.get("perm_input") else "free")
        if "panic" in i or "crash" in i:
            ctx.fail("panic/crash in Lint", kernel.slim(c), None, i)
            continue
        kernel.compare(ctx, c, i, m)
        if "error" not in io and io:
            kernel.selfcheck(ctx, c, io)
        byw.setdefault(c["w"], []).append((c, io))
        if nz:
            ctx.sample({"files": [f["name"] for f in c["files"]], "order": c.get("order"),
                        "violations": io.get("violations")[:4], "summary": io.get("summary")}, limit=4)
    lost_error(ctx)
    facts(ctx)
    procs_and_concurrency(ctx, [c for c in cases if not c.get("order") and not c.get("perm_input")], impl)
    # property predicate on the implementation alone: all runs of one workspace give the same verdict
    for w, runs in byw.items():
        ref = runs[0][1]
        for c, io in runs[1:]:
            for k in ("violations", "notices", "summary", "aggregates"):
                if io.get(k) != ref.get(k):
                    ctx.fail("two runs of the same workspace differ in %s" % k, kernel.slim(c), None,
                             {"first": ref.get(k), "this": io.get(k), "order": c.get("order")})
                    break


def lost_error(ctx):
    """SelectProto tie: a worker errs while the others succeed, and the main goroutine is held before its final
    `select` until every worker is done, so that errCh and doneCh are both ready (the schedule that loses the error
    if `select` may return the report). Every run must return the error."""
    if not ctx.gated:
        ctx.notes.append("schedule gates could not be inserted (anchors missing in linter.go): select schedule not forced")
    rng = ctx.rng("boom")
    cases = []
    n = 24 if ctx.quick else 120
    for k in range(n):
        files = kernel.gen_files(rng, 1, 4)
        bad = rng.randrange(len(files))
        files[bad]["content"] += "# BOOM\n"
        cases.append({"id": k, "op": "kernel.lint", "files": files, "user": None, "params": kernel.gen_params(rng, 1.0),
                      "prefix": "", "collect": False, "export": False, "boom": True, "selectWaitMs": 120,
                      "vcatx": True})
    impl = ctx.impl(cases, procs=12)
    lost = 0
    for c in cases:
        io = impl[c["id"]].get("out") or {}
        ctx.seen(c, ("boom", c["id"]))
        ctx.count("boom:" + ("error-returned" if "error" in io else "error-lost"))
        if "error" not in io:
            lost += 1
            ctx.fail("an evaluation error of one file was dropped: Lint returned a report (schedule: all workers done "
                     "before the final select)", kernel.slim(c), "C01-lost-error", {"summary": io.get("summary")})
    return lost


def facts(ctx):
    """structural facts of the current linter.go the SelectProto / merge models rely on (go/ast)"""
    r = ctx.impl([{"id": 0, "op": "facts.linter"}])[0].get("out") or {}
    want = {"sharedWritesOutsideLock": 0, "errChBuffered": True, "finalSelect": True, "doneRepollsErrCh": True}
    ctx.seen({"facts": r}, ("facts",))
    bad = {k: r.get(k) for k, v in want.items() if r.get(k) != v}
    if bad or not r.get("sharedWrites"):
        ctx.brk("linter.go lintWithRegoRules structure ~ SelectProto/merge model (lock discipline, buffered errCh, "
                "doneCh case re-polls errCh)", {"op": "facts.linter"}, r, want)
    ctx.notes.append("facts.linter: %s" % r)


def procs_and_concurrency(ctx, bases, ref_impl):
    """same workspaces under GOMAXPROCS 1/2/16 and as 4 concurrent Lint calls in one process"""
    import os
    rng = ctx.rng("procs")
    pick = rng.sample(bases, min(len(bases), 12 if ctx.quick else 80))
    for procs in ("1", "2", "16"):
        env = dict(os.environ)
        env["GOMAXPROCS"] = procs
        sub = [dict(c, id=i, enabled=False) for i, c in enumerate(pick)]
        res = ctx.impl(sub, env=env, procs=6)
        for c0, c in zip(pick, sub):
            a = (ref_impl[c0["id"]].get("out") or {})
            b = (res[c["id"]].get("out") or {})
            ctx.seen(c, ("procs", procs, c0["id"]))
            ctx.count("GOMAXPROCS=" + procs)
            for k in ("violations", "notices", "summary", "aggregates"):
                if a.get(k) != b.get(k):
                    ctx.fail("verdict differs under GOMAXPROCS=%s in %s" % (procs, k), kernel.slim(c0), None,
                             {"ref": a.get(k), "this": b.get(k)})
                    break
    conc = [dict(c, id=i, op="kernel.concurrent", n=4) for i, c in enumerate(pick[:6 if ctx.quick else 40])]
    res = ctx.impl(conc, procs=3)
    for c in conc:
        outs = res[c["id"]].get("out") or []
        ctx.seen(c, ("conc", c["id"]))
        ctx.count("concurrent-lints")
        for o in outs[1:]:
            if o != outs[0]:
                ctx.fail("concurrent Lint calls in one process disagree", kernel.slim(c), None, {"a": outs[0], "b": o})
                break
