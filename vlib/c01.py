"""C01 — lint verdict is a pure function of its inputs (schedule/order independent)."""
from . import core, kernel

PID = "C01"
LEVEL = "proof"
RULE = ("workspaces of 1-6 generated marker files (synthetic built-in/custom/aggregate rules + two real rules), random user "
        "config and CLI params; each linted free-running and with the completion order of the per-file workers FORCED to "
        "random permutations through schedule gates in an overlay copy of linter.go, and with the input list permuted; "
        "non-trivial = the report has at least one world violation; distinct = distinct (files,config,params)")
TRUSTED = ["Env boundary: rule packages, OPA parser/evaluator (marker world is an executable stand-in)",
           "Go mutex/channel semantics; atomicity of the mutex-protected merge block (checked: gates are inserted around it)"]
ASSUMPTIONS = ["Env.AggPermInvariant for real aggregate rules is sampled, not proved"]


def oracle_extra():
    extra, ok = core.gated_linter()
    return extra, ok


def run(ctx):
    rng = ctx.rng()
    n = 60 if ctx.quick else 600
    cases = []
    for w in range(n):
        base = kernel.gen_case(rng, 1, 6)
        base["w"] = w
        cases.append(base)
        names = [f["name"] for f in base["files"]]
        for k in range(2 if ctx.quick else 4):
            c = dict(base)
            c["enabled"] = False
            order = names[:]
            rng.shuffle(order)
            c["order"] = order
            cases.append(c)
        c = dict(base)
        c["enabled"] = False
        fl = base["files"][:]
        rng.shuffle(fl)
        c["files"] = fl
        c["perm_input"] = True
        cases.append(c)
    impl, model = kernel.run_both(ctx, cases)
    byw = {}
    for c in cases:
        i, m = impl[c["id"]], model[c["id"]]
        io = i.get("out") or {}
        nz = bool(io.get("violations"))
        ctx.seen(c, (c["w"]) if nz else None)
        ctx.count("files=%d" % len(c["files"]))
        ctx.count("forced-order" if c.get("order") else "input-permuted" if c.get("perm_input") else "free")
        if "panic" in i or "crash" in i:
            ctx.fail("panic/crash in Lint", kernel.slim(c), None, i)
            continue
        kernel.compare(ctx, c, i, m)
        if "error" not in io and io:
            kernel.selfcheck(ctx, c, io)
        byw.setdefault(c["w"], []).append((c, io))
        if nz:
            ctx.sample({"files": [f["name"] for f in c["files"]], "order": c.get("order"),
                        "violations": io.get("violations")[:4], "summary": io.get("summary")}, limit=4)
    # property predicate on the implementation alone: all runs of one workspace give the same verdict
    for w, runs in byw.items():
        ref = runs[0][1]
        for c, io in runs[1:]:
            for k in ("violations", "notices", "summary", "aggregates"):
                if io.get(k) != ref.get(k):
                    ctx.fail("two runs of the same workspace differ in %s" % k, kernel.slim(c), None,
                             {"first": ref.get(k), "this": io.get(k), "order": c.get("order")})
                    break
