"""C02 — no file is silently skipped; per-file verdicts compose."""
from . import kernel

PID = "C02"
LEVEL = "proof"
RULE = ("(a) generated directory trees (depth <= 4; .git/.idea/node_modules dirs at any level, non-.rego files, names that merely "
        "contain a skip name or '.rego', duplicate / overlapping / missing path arguments) created on disk and discovered with "
        "FilterIgnoredPaths(checkFileExists); (b) marker workspaces linted as a batch and file by file: non-aggregate violations "
        "per file must be identical; summary counts measured against the returned violation list. distinct = distinct tree+args "
        "/ workspace; non-trivial = at least one file is skipped or filtered, resp. at least one violation"
        ' Also: the composition predicate with every real rule active (implementation only), and batches of 5-70 (thorough 3-200) files under GOMAXPROCS 1/2/16.')
TRUSTED = ["os / filepath.WalkDir visit entries in lexical order (the model sorts children)", "Env boundary for (b)"]
ASSUMPTIONS = ["Env.OpsIrrelevant: a rule's report does not depend on 'collect' being among the operations (sampled by (b))"]

NAMES_D = ["a", "b", "pol", ".git", "node_modules", ".idea", "x.git", "node_modules2", "c.rego"]
NAMES_F = ["p.rego", "q.rego", "r.json", "rego", "s.rego.bak", "t_test.rego", ".manifest", "u.REGO"]


def gen_tree(rng, depth):
    kids = []
    used = set()
    for _ in range(rng.randint(0, 4)):
        if depth > 0 and rng.random() < 0.45:
            n = rng.choice(NAMES_D)
            if n in used:
                continue
            used.add(n)
            kids.append({"name": n, "children": gen_tree(rng, depth - 1)})
        else:
            n = rng.choice(NAMES_F)
            if n in used:
                continue
            used.add(n)
            kids.append({"name": n, "file": True})
    return kids


def all_paths(nodes, prefix=""):
    out = []
    for n in nodes:
        p = prefix + n["name"]
        out.append(p)
        if "children" in n:
            out += all_paths(n["children"], p + "/")
    return out


def spec_walk(nodes, prefix, skipped):
    """independent reading of the property: .rego files with no skipped directory between the argument and the file"""
    out = []
    for n in sorted(nodes, key=lambda x: x["name"]):
        p = prefix + n["name"]
        if "children" in n:
            sk = skipped or n["name"] in (".git", ".idea", "node_modules")
            out += spec_walk(n["children"], p + "/", sk)
        elif not skipped and p.endswith(".rego"):
            out.append(p)
    return out


def find(nodes, comps):
    for n in nodes:
        if n["name"] == comps[0]:
            if len(comps) == 1:
                return n
            if "children" in n:
                return find(n["children"], comps[1:])
    return None


def part_walk(ctx):
    rng = ctx.rng("walk")
    cases = []
    for k in range(200 if ctx.quick else 3000):
        roots = [{"name": "w", "children": gen_tree(rng, 3)}]
        paths = all_paths(roots)
        args = rng.sample(paths, min(len(paths), rng.randint(1, 3)))
        if rng.random() < 0.25:
            args.append(rng.choice(args))           # duplicate argument
        if rng.random() < 0.08:
            args.append("w/missing")
        cases.append({"id": k, "op": "c02.walk", "roots": roots, "args": args, "ignore": []})
    impl, model = ctx.impl(cases), ctx.model(cases)
    for c in cases:
        a, b = impl[c["id"]].get("out"), model[c["id"]].get("out")
        want = []
        missing = False
        for arg in c["args"]:
            n = find(c["roots"], arg.split("/"))
            if n is None:
                missing = True
                continue
            if "children" in n:
                sk = n["name"] in (".git", ".idea", "node_modules")
                want += spec_walk(n["children"], arg + "/", sk)
            elif arg.endswith(".rego"):
                want.append(arg)
        want = "error" if missing else want
        nontriv = a != "error" and len(a or []) != sum(1 for p in all_paths(c["roots"]) if p.endswith(".rego"))
        ctx.seen(c, ("walk", c["id"]) if nontriv else None)
        ctx.count("walk:" + ("error" if a == "error" else "files=%d" % min(len(a or []), 6)))
        if a != b:
            ctx.brk("filter.go walkPaths/FilterIgnoredPaths ~ Walk.walkArgs", c, a, b)
        if a != want:
            ctx.fail("discovered files differ from 'every .rego file not under a skipped directory'", c, None, {"got": a, "want": want})
        elif nontriv:
            ctx.sample({"args": c["args"], "found": a, "tree": c["roots"]}, limit=2)


def part_compose(ctx):
    rng = ctx.rng("compose")
    cases = []
    for w in range(16 if ctx.quick else 150):
        base = kernel.gen_case(rng, 2, 5)
        base.update({"collect": False, "export": False, "enabled": False, "w": w, "k": "batch"})
        cases.append(base)
        for f in base["files"]:
            c = dict(base)
            c.update({"files": [f], "k": "single"})
            cases.append(c)
    impl, model = kernel.run_both(ctx, cases)
    batch = {}
    for c in cases:
        i, m = impl[c["id"]], model[c["id"]]
        kernel.compare(ctx, c, i, m)
        io = i.get("out") or {}
        if "error" in io or not io:
            continue
        kernel.selfcheck(ctx, c, io)
        ctx.seen(c, ("compose", c["w"], c["k"], c["files"][0]["name"]) if io.get("violations") else None)
        nonagg = [v for v in io.get("violations") or [] if not v[5]]
        if c["k"] == "batch":
            batch[c["w"]] = (c, nonagg, io)
            if io["summary"]["filesScanned"] != len(set(f["name"] for f in c["files"])) - _ignored_count(c, io):
                pass
        else:
            bc, bn, bio = batch[c["w"]]
            name = c["files"][0]["name"]
            mine = sorted([v for v in bn if v[3] == name], key=str)
            alone = sorted(nonagg, key=str)
            if mine != alone:
                ctx.fail("a file's single-file violations differ between the batch run and linting it alone",
                         kernel.slim(bc), None, {"file": name, "batch": mine, "alone": alone})


def part_compose_real(ctx):
    """the same composition predicate with EVERY real rule of the bundle active (default configuration + the
    aggregate rules that are off by default): workspaces from the aggregate-rule world and the marker world, batch run
    vs each file alone; compared: the non-aggregate violations (all titles) of each file. Implementation-only: this
    samples the Env-side hypothesis of `per_file_verdicts_compose` (a rule's per-file report depends on that file
    only) on the real Rego rules, which are outside the Lean model."""
    from . import aggworld
    rng = ctx.rng("compose-real")
    cases = []
    for w in range(10 if ctx.quick else 120):
        files = aggworld.gen_workspace(rng, 2, 5) if w % 2 == 0 else \
            [{"name": f["name"], "content": f["content"]} for f in kernel.gen_files(rng, 2, 5)]
        params = {"disable": [], "enable": ["missing-metadata", "agg-x"] if w % 2 == 0 else [], "disableCategory": [],
                  "enableCategory": [], "disableAll": False, "enableAll": w % 4 == 2, "ignoreFiles": []}
        for collect in ((False, True) if w % 3 == 0 else (False,)):
            base = {"op": "kernel.lint", "files": files, "user": None, "params": params, "prefix": "", "collect": collect,
                    "export": False, "enabled": False, "all": True, "w": (w, collect), "k": "batch"}
            cases.append(dict(base, id=len(cases)))
            for f in files:
                cases.append(dict(base, id=len(cases), files=[f], k="single"))
    impl = ctx.impl(cases, procs=12)
    batch = {}
    for c in cases:
        i = impl[c["id"]]
        io = i.get("out") or {}
        if "panic" in i or "crash" in i:
            ctx.fail("panic/crash in Lint", kernel.slim(c), None, i)
            continue
        if "error" in io:
            ctx.brk("real-rule workspace could not be linted (harness)", kernel.slim(c), io, None)
            continue
        kernel.selfcheck(ctx, c, io)
        nonagg = [v for v in io.get("violations") or [] if not v[5]]
        ctx.seen(c, ("compose-real", c["w"], c["k"], c["files"][0]["name"]) if nonagg else None)
        if c["k"] == "batch":
            batch[c["w"]] = (c, nonagg)
            for t in sorted({v[1] for v in nonagg}):
                ctx.count("real-rule-reporting:" + t)
            continue
        if c["w"] not in batch:
            continue
        bc, bn = batch[c["w"]]
        name = c["files"][0]["name"]
        mine = sorted([v for v in bn if v[3] == name], key=str)
        alone = sorted(nonagg, key=str)
        if mine != alone:
            ctx.fail("a file's single-file violations (real rules) differ between the batch run and linting it alone",
                     kernel.slim(bc), None, {"file": name, "only_batch": [v for v in mine if v not in alone],
                                             "only_alone": [v for v in alone if v not in mine], "collect": c["collect"]})


def part_many_files(ctx):
    """the same composition predicate for runs of many files (more files than any fixed number of workers) under
    GOMAXPROCS 1, 2 and 16: every file of the batch gets exactly the violations it gets alone, none is left out"""
    import os
    sizes = [5, 9, 17, 33, 65, 70] if ctx.quick else [3, 4, 5, 6, 7, 9, 13, 17, 31, 33, 64, 65, 70, 129, 200]
    for procs in ("1", "2", "16"):
        cases = []
        for n in sizes:
            files = [{"name": "d%d/f%d.rego" % (i % 3, i), "content": "package f%d\n\n# TODO: %d\nx%d := %d\n" % (i, i, i, i)} for i in range(n)]
            base = {"op": "kernel.lint", "files": files, "user": None, "prefix": "", "collect": False, "export": False,
                    "enabled": False, "all": True, "noCustom": True,
                    "params": {"disable": [], "enable": ["todo-comment"], "disableCategory": [], "enableCategory": [],
                               "disableAll": True, "enableAll": False, "ignoreFiles": []}}
            cases.append(dict(base, id=len(cases), _n=n, _k="batch"))
            for f in (files[0], files[n // 2], files[-1]):
                cases.append(dict(base, id=len(cases), files=[f], _n=n, _k="single"))
        res = ctx.impl(cases, env=dict(os.environ, GOMAXPROCS=procs), procs=3)
        batch = {}
        for c in cases:
            o = res[c["id"]].get("out") or {}
            if "error" in o or not o:
                ctx.brk("many-file run could not be linted (harness)", {"n": c["_n"], "GOMAXPROCS": procs}, res[c["id"]], None)
                continue
            vs = [v for v in o.get("violations") or [] if not v[5]]
            ctx.seen({"n": c["_n"], "k": c["_k"], "procs": procs, "file": c["files"][0]["name"]}, ("many", procs, c["_n"], c["_k"], c["files"][0]["name"]))
            if c["_k"] == "batch":
                batch[c["_n"]] = vs
                ctx.count("many-files n=%d GOMAXPROCS=%s" % (c["_n"], procs))
                files_with = {v[3] for v in vs}
                missing = [f["name"] for f in c["files"] if f["name"] not in files_with]
                if o["summary"]["filesScanned"] != c["_n"] or missing:
                    ctx.fail("files of a large batch were scanned but not evaluated (no violations although each file has one "
                             "when linted alone)", {"n": c["_n"], "GOMAXPROCS": procs}, None,
                             {"filesScanned": o["summary"]["filesScanned"], "files_without_verdict": missing[:8], "count": len(missing)})
            else:
                name = c["files"][0]["name"]
                mine = sorted([v for v in batch.get(c["_n"], []) if v[3] == name], key=str)
                if mine != sorted(vs, key=str):
                    ctx.fail("a file's single-file violations differ between a large batch and linting it alone",
                             {"n": c["_n"], "GOMAXPROCS": procs, "file": name}, None, {"batch": mine, "alone": vs})


def _ignored_count(c, io):
    return 0


def run(ctx):
    part_walk(ctx)
    part_compose(ctx)
    part_compose_real(ctx)
    part_many_files(ctx)
