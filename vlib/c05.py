"""C05 — ignored files never produce violations; both matchers agree."""
import itertools

PID = "C05"
LEVEL = "proof"
RULE = ("patterns from the gitignore grammar {name,*,**,?,[a-c],{a,b},*.rego,multi-byte} x leading/trailing/inner '/' "
        "up to 4 segments; relative files up to depth 4; prefixes none / abs dir / file:// URI. Enumerated in "
        "order of size and sampled with the seed when above the tier budget. A case is non-trivial when at least "
        "one side excludes the file (distinct = distinct (pattern,file,prefix))"
        ' Also end to end through the real Linter: config ignore.files x --ignore-files x per-rule ignore; files scanned == files the Rego matcher leaves under the effective patterns.')
TRUSTED = ["gobwas/glob is one abstract matcher shared by both sides (theorems are for every matcher)",
           "byte-level Go string tests against ASCII literals coincide with code-point tests (UTF-8 fact; sampled)"]
ASSUMPTIONS = ["prefix is empty (then file names are relative) or a directory/URI not ending in '/'",
               "ignore patterns are non-empty (the empty pattern is a recorded finding)"]

SEGS = ["foo", "bar", "*", "**", "?", "[a-c]", "{foo,b}", "*.rego", "é", "b.rego", "fo*"]
NAMES = ["foo", "bar", "a", "é", "b"]
FILES = ["b.rego", "foo.rego", "é.rego", "foo"]
PREFIXES = ["", "/w/proj", "file:///w/proj"]


def patterns(max_seg):
    out = []
    for n in range(1, max_seg + 1):
        for segs in itertools.product(SEGS, repeat=n):
            body = "/".join(segs)
            for lead in ("", "/"):
                for trail in ("", "/"):
                    out.append(lead + body + trail)
    return out


def rel_files(max_depth):
    out = []
    for d in range(0, max_depth):
        for dirs in itertools.product(NAMES, repeat=d):
            for f in FILES:
                out.append("/".join(list(dirs) + [f]))
    return out


def build_cases(ctx, extra_patterns=()):
    rng = ctx.rng()
    pats_small = patterns(2)
    pats_big = patterns(3) if ctx.quick else patterns(4)
    files = rel_files(4)
    triples = []
    budget = 6000 if ctx.quick else 60000
    # exhaustive for the small patterns over a fixed file sample, random above
    files_small = rel_files(3)
    small = [(p, f, q) for p in pats_small for f in rng.sample(files_small, 8) for q in PREFIXES]
    rng.shuffle(small)
    triples += small[: budget // 2]
    while len(triples) < budget:
        triples.append((rng.choice(pats_big), rng.choice(files), rng.choice(PREFIXES)))
    for p in extra_patterns:
        for f in files[:40]:
            for q in PREFIXES:
                triples.append((p, f, q))
    # malformed / edge stream
    for p in ["", "/", "//", "**", "***", "a//b", "[", "{a", "\\", "foo/**/", "**/"]:
        for f in ["a/b.rego", "b.rego", "foo/b.rego"]:
            for q in PREFIXES:
                triples.append((p, f, q))
    return triples


def full(prefix, rel):
    return rel if prefix == "" else prefix + "/" + rel


def run(ctx, triples=None):
    full_run = triples is None
    triples = triples if triples is not None else build_cases(ctx)
    triples = list(dict.fromkeys(triples))
    # --- 1. Rego pattern compiler vs model, Go/Rego relativisation vs model
    pats = sorted({t[0] for t in triples})
    cases = [{"id": i, "op": "c05.patterns", "pattern": p} for i, p in enumerate(pats)]
    impl, model = ctx.impl(cases), ctx.model(cases)
    modelpats = {}
    for c in cases:
        i, m = impl[c["id"]], model[c["id"]]
        mo = m.get("out") or {}
        modelpats[c["pattern"]] = mo
        irego = (i.get("out") or {}).get("rego")
        mrego = sorted(set(mo.get("rego") or []))
        ctx.seen(c)
        if irego is None or sorted(irego) != mrego:
            ctx.brk("exclusion.rego:_pattern_compiler ~ Glob.regoPatterns", c, i, m)
    rels = sorted({(full(q, f), q) for (_, f, q) in triples})
    cases = [{"id": i, "op": "c05.rel", "file": f, "prefix": q} for i, (f, q) in enumerate(rels)]
    impl, model = ctx.impl(cases), ctx.model(cases)
    modelrel = {}
    for c in cases:
        i, m = impl[c["id"]], model[c["id"]]
        mo = m.get("out") or {}
        modelrel[(c["file"], c["prefix"])] = mo
        ctx.seen(c)
        if (i.get("out") or {}).get("rego") != mo.get("rego"):
            ctx.brk("main.rego:_file_name_relative_to_root ~ Glob.regoRel", c, i, m)
    # --- 2. behaviour: exclude(pattern, file, prefix) on both implementations
    cases = [{"id": i, "op": "c05.exclude", "pattern": p, "file": full(q, f), "prefix": q}
             for i, (p, f, q) in enumerate(triples)]
    impl = ctx.impl(cases)
    # model prediction = model pattern list + model relativisation, matcher = the real gobwas
    gcases = []
    for c in cases:
        mp = modelpats[c["pattern"]]
        mr = modelrel[(c["file"], c["prefix"])]
        gcases.append({"id": "g%d" % c["id"], "op": "c05.globany", "patterns": mp.get("goEff") or [], "file": mr.get("go")})
        gcases.append({"id": "r%d" % c["id"], "op": "c05.globany", "patterns": mp.get("regoEff") or [], "file": mr.get("rego")})
    gres = ctx.impl(gcases)
    for c in cases:
        i = impl[c["id"]]
        io = i.get("out") or {}
        cid = c["id"]
        mgo = gres.get("g%d" % cid, {}).get("out")
        mrego = gres.get("r%d" % cid, {}).get("out")
        if mrego == "error":
            mrego = False   # OPA: a built-in error is undefined under non-strict evaluation
        nontriv = (c["pattern"], c["file"], c["prefix"]) if (io.get("go") is True or io.get("rego") is True) else None
        ctx.seen(c, nontriv)
        ctx.count("prefix=" + ("none" if c["prefix"] == "" else "uri" if c["prefix"].startswith("file:") else "abs"))
        ctx.count("go_excl=%s rego_excl=%s" % (io.get("go"), io.get("rego")))
        if "panic" in i or "crash" in i:
            ctx.fail("panic in exclude", c, None, i)
            continue
        if io.get("go") != mgo or (c["pattern"] != "" and io.get("goDirect") != mgo):
            ctx.brk("filter.go:excludeFile ~ Glob.goExclude", c, io, {"go": mgo})
        if io.get("rego") != mrego:
            ctx.brk("exclusion.rego:_exclude ~ Glob.regoExclude", c, io, {"rego": mrego})
        # property predicate on the implementation itself: both matchers agree
        if io.get("go") != io.get("rego"):
            finding = None
            if c["pattern"] == "":
                finding = "C05-empty-pattern"
            elif io.get("go") == "error" and io.get("rego") in (False, "error"):
                # an uncompilable glob: Go reports an error (run fails loudly), Rego's glob.match is
                # undefined/erroring -> nothing is silently mis-ignored; not a disagreement of verdicts
                ctx.count("uncompilable-pattern")
                continue
            ctx.fail("Go and Rego matchers disagree", c, finding, io)
        if nontriv:
            ctx.sample({"pattern": c["pattern"], "file": c["file"], "prefix": c["prefix"], "impl": io,
                        "model": {"go": mgo, "rego": mrego}})
    # --- 3. filterPaths over lists: order-preserving, never drops unmatched
    rng = ctx.rng("filter")
    files = rel_files(3)
    fcases = []
    for n in range(150 if ctx.quick else 1500):
        q = rng.choice(PREFIXES)
        paths = [full(q, f) for f in rng.sample(files, rng.randint(0, 6))]
        ign = [rng.choice(patterns(2)) for _ in range(rng.randint(0, 3))]
        if rng.random() < 0.2:
            ign.append("")
        fcases.append({"id": n, "op": "c05.filter", "paths": paths, "ignore": ign, "prefix": q})
    impl = ctx.impl(fcases)
    ecases = []
    for c in fcases:
        for f in c["paths"]:
            for p in c["ignore"]:
                ecases.append({"id": len(ecases), "op": "c05.exclude", "pattern": p, "file": f, "prefix": c["prefix"],
                               "_of": c["id"]})
    eres = ctx.impl(ecases)
    excl = {}
    for e in ecases:
        o = (eres[e["id"]].get("out") or {})
        if e["pattern"] != "" and o.get("go") is True:
            excl[(e["_of"], e["file"])] = True
    for c in fcases:
        kept = impl[c["id"]].get("out")
        want = [f for f in c["paths"] if not excl.get((c["id"], f))]
        ctx.seen(c, ("filter", tuple(c["paths"]), tuple(c["ignore"])) if len(want) != len(c["paths"]) else None)
        if kept == "error":
            continue
        if kept != want:
            ctx.fail("filterPaths result is not 'paths minus excluded, in order'", c, None, {"kept": kept, "want": want})
    if full_run:
        part_e2e(ctx)


def part_e2e(ctx):
    """end to end through the real Linter: config `ignore.files` x `--ignore-files` (the flag REPLACES the configured
    list, on the Go side where files are collected and on the Rego side where rules are applied) x per-rule
    `ignore.files`. Oracles: (a) whole-report prediction of the kernel model; (b) on the implementation alone: the number
    of files scanned equals the number of files the REGO matcher does not exclude under the effective global patterns,
    and no violation is located in a file the effective patterns exclude."""
    from . import kernel
    rng = ctx.rng("e2e")
    cases = []
    for k in range(40 if ctx.quick else 400):
        c = kernel.gen_case(rng, 2, 6)
        c.update({"collect": False, "export": False, "enabled": False})
        user = c["user"] or {"rules": {}}
        mode = k % 4
        if mode in (0, 1, 2):
            user["ignore"] = {"files": rng.sample(kernel.IGN_PATTERNS, rng.randint(1, 2))}
        else:
            user.pop("ignore", None)
        c["user"] = user
        c["params"]["ignoreFiles"] = rng.sample(kernel.IGN_PATTERNS, rng.randint(1, 2)) if mode in (1, 2, 3) else []
        cases.append(c)
    impl, model = kernel.run_both(ctx, cases)
    ecases = []
    for c in cases:
        eff = c["params"]["ignoreFiles"] or ((c["user"] or {}).get("ignore") or {}).get("files") or []
        c["_eff"] = eff
        for f in c["files"]:
            for pat in eff:
                ecases.append({"id": len(ecases), "op": "c05.exclude", "pattern": pat, "file": f["name"], "prefix": c["prefix"],
                               "_of": c["id"]})
    eres = ctx.impl(ecases) if ecases else {}
    excluded = {}
    for e in ecases:
        if (eres[e["id"]].get("out") or {}).get("rego") is True:
            excluded.setdefault(e["_of"], set()).add(e["file"])
    for c in cases:
        i, m = impl[c["id"]], model[c["id"]]
        kernel.compare(ctx, c, i, m)
        io = i.get("out") or {}
        if "error" in io or not io:
            continue
        names = {f["name"] for f in c["files"]}
        ex = excluded.get(c["id"], set())
        cfg_ign = ((c["user"] or {}).get("ignore") or {}).get("files") or []
        ctx.seen(c, ("e2e", c["id"]) if ex else None)
        ctx.count("e2e config-ignore=%s flag=%s" % (bool(cfg_ign), bool(c["params"]["ignoreFiles"])))
        desc = {"files": sorted(names), "prefix": c["prefix"], "config_ignore": cfg_ign,
                "flag_ignore_files": c["params"]["ignoreFiles"]}
        if io["summary"]["filesScanned"] != len(names - ex):
            ctx.fail("the number of files scanned differs from the files the effective ignore patterns leave (Go collects "
                     "other files than Rego would lint)", desc, None,
                     {"filesScanned": io["summary"]["filesScanned"], "excluded_by_rego_matcher": sorted(ex)})
        bad = [v for v in io.get("violations") or [] if v[3] in ex]
        if bad:
            ctx.fail("a violation is reported in a file the effective ignore patterns exclude", desc, None, bad[:3])


def search(ctx):
    """wider stream targeted at the patterns of the disagreeing cases"""
    pats = []
    for b in ctx.breaks[:20]:
        p = b["case"].get("pattern")
        if p is not None:
            pats.append(p)
    sub = type(ctx)(ctx.pid, "thorough", ctx.seed + 7)
    sub.oracle, sub.driver = ctx.oracle, ctx.driver
    run(sub, build_cases(sub, extra_patterns=pats))
    ctx.failures += sub.failures
    ctx.evaluations += sub.evaluations


def replay(ctx, payload):
    c = payload.get("case") or {}
    run(ctx, [(c.get("pattern", ""), c.get("file", ""), "")] if "pattern" in c else None)
