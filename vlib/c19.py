"""C19 — rules needing a missing engine capability are skipped, never misfire."""
from . import kernel

PID = "C19"
LEVEL = "proof"
RULE = ("marker workspaces (1-4 files) that trigger the gated rules idiomatic/use-strings-count (needs built-in strings.count) "
        "and bugs/if-empty-object (needs keyword `if`), linted with the target capabilities = every embedded OPA version "
        "(capabilities.from.engine/version) and with plus/minus edits; one file vs many. non-trivial = at least one notice "
        "or one violation of a gated rule; distinct = (workspace, capabilities)")
TRUSTED = ["capabilities lookup (embedded JSON files) and the per-rule notice conditions are the Env side; the gating table is "
           "checked on the implementation's own report: a rule with a notice has no violation"]
ASSUMPTIONS = []

GATED_FILE = "\n".join(["package p%d", "", 'sc1 := count(indexof_n("a", "a"))', "ieo1 if {}", "# TODO: x", ""])


def run(ctx):
    rng = ctx.rng()
    vers = (ctx.impl([{"id": 0, "op": "c19.versions"}])[0].get("out")) or []
    ctx.notes.append("embedded OPA versions: %d" % len(vers))
    pick = vers if not ctx.quick else (vers[:3] + rng.sample(vers, min(9, len(vers))) + vers[-3:])
    cases = []
    # (1) kernel correspondence with strings.count removed / present
    for k in range(16 if ctx.quick else 120):
        c = kernel.gen_case(rng, 1, 4)
        c["enabled"] = True
        cases.append(c)
    impl, model = kernel.run_both(ctx, cases)
    for c in cases:
        i, m = impl[c["id"]], model[c["id"]]
        kernel.compare(ctx, c, i, m)
        io = i.get("out") or {}
        ctx.seen(c, ("k", c["id"]) if io.get("notices") else None)
        ctx.count("noStringsCount=%s" % c["noStringsCount"])
    # (2) every (sampled) embedded version, one file and three files, all rules at error
    vcases = []
    for v in dict.fromkeys(pick):
        for nfiles in (1, 3):
            files = [{"name": "p%d.rego" % k, "content": GATED_FILE % k} for k in range(nfiles)]
            user = {"rules": {"bugs": {"if-empty-object": {"level": "error"}}},
                    "capabilities": {"from": {"engine": "opa", "version": v}}}
            vcases.append({"id": len(vcases), "op": "kernel.lint", "files": files, "user": user, "params": kernel.gen_params(rng, 1.0),
                           "prefix": "", "collect": False, "export": False, "all": True, "_v": v, "_n": nfiles})
    vres = ctx.impl(vcases, timeout=3000)
    byv = {}
    for c in vcases:
        r = vres[c["id"]]
        io = r.get("out") or {}
        if "panic" in r or "crash" in r or "error" in io:
            ctx.fail("linting failed with target capabilities", {"version": c["_v"], "files": c["_n"]}, None, r)
            continue
        notices = io.get("notices") or []
        viol = io.get("violations") or []
        ctx.seen(c, ("v", c["_v"], c["_n"]) if notices else None)
        ctx.count("version-run notices=%d" % len(notices))
        titles_noticed = {(n[0], n[1]) for n in notices}
        for v in viol:
            if (v[0], v[1]) in titles_noticed:
                ctx.fail("a rule listed as skipped (notice) still reported a violation", {"version": c["_v"], "files": c["_n"]},
                         None, {"violation": v})
        skipped = len({tuple(n) for n in notices if n[2] != "none"})
        if io["summary"]["rulesSkipped"] != skipped:
            ctx.fail("rules_skipped differs from the number of distinct notices with severity != none",
                     {"version": c["_v"], "files": c["_n"]}, None, {"summary": io["summary"], "notices": notices})
        byv.setdefault(c["_v"], {})[c["_n"]] = (sorted(map(tuple, notices)), io["summary"]["rulesSkipped"])
        if notices:
            ctx.sample({"version": c["_v"], "files": c["_n"], "notices": notices[:5], "rulesSkipped": io["summary"]["rulesSkipped"]}, limit=4)
    for v, d in byv.items():
        if 1 in d and 3 in d and d[1] != d[3]:
            ctx.fail("skipped rules differ between one file and many", {"version": v}, None, {"one": d[1], "many": d[3]})
    # (3) capability resolution (from \ minus) ∪ plus through config unmarshalling vs Caps.resolve
    ccases = []
    names = ["strings.count", "object.keys", "count", "http.send", "verif.fake", "verif.other"]
    for k in range(40 if ctx.quick else 300):
        minus = rng.sample(names, rng.randint(0, 3))
        plus = rng.sample(names, rng.randint(0, 3))
        ccases.append({"id": k, "op": "c19.resolve", "minus": minus, "plus": plus, "probe": names})
    cres, mres = ctx.impl(ccases), ctx.model(ccases)
    for c in ccases:
        a, b = cres[c["id"]].get("out"), mres[c["id"]].get("out")
        ctx.seen(c, ("caps", tuple(c["minus"]), tuple(c["plus"])))
        if a != b:
            ctx.brk("config.go capabilities minus/plus ~ Caps.resolve", c, a, b)
