"""C19 — rules needing a missing engine capability are skipped, never misfire."""
from . import kernel

PID = "C19"
LEVEL = "proof"
RULE = ("marker workspaces (1-4 files) that trigger the gated rules idiomatic/use-strings-count (needs built-in strings.count) "
        "and bugs/if-empty-object (needs keyword `if`), linted with the target capabilities = every embedded OPA version "
        "(capabilities.from.engine/version) and with plus/minus edits; one file vs many. non-trivial = at least one notice "
        "or one violation of a gated rule; distinct = (workspace, capabilities)"
        " Also: Caps.mustSkip on the capabilities of every sampled version (read with OPA's loader) vs notices and violations; every version also given as a capabilities file.")
TRUSTED = ["capabilities lookup (embedded JSON files) and the per-rule notice conditions are the Env side; the gating table is "
           "checked on the implementation's own report: a rule with a notice has no violation"]
ASSUMPTIONS = []

GATED_FILE = "\n".join(["package p%d", "", 'sc1 := count(indexof_n("a", "a"))', "ieo1 if {}", "# TODO: x",
                        'iol1 if {"a": input.x}', "olr1 if {", "\tinput.y", "}", 'sp1 := sprintf("%%d %%d", [1])',
                        "has_key(m, k) if {", "\t_ = m[k]", "}", ""])
GATED_TITLES = {"use-strings-count", "custom-has-key-construct", "sprintf-arguments-mismatch", "if-object-literal",
                "if-empty-object", "one-liner-rule", "use-if", "use-contains", "use-rego-v1"}


def run(ctx):
    rng = ctx.rng()
    vers = (ctx.impl([{"id": 0, "op": "c19.versions"}])[0].get("out")) or []
    ctx.notes.append("embedded OPA versions: %d" % len(vers))
    # quick: at least one version of every distinct capability profile (keywords, features, gating-relevant built-ins)
    # plus a few random ones; thorough: all
    allcaps = ctx.impl([{"id": k, "op": "c19.caps", "version": v} for k, v in enumerate(vers)])
    groups = {}
    for k, v in enumerate(vers):
        o = allcaps[k].get("out") or {}
        key = (tuple(o.get("futureKeywords") or []), tuple(o.get("features") or []),
               tuple(b for b in ("strings.count", "object.keys", "sprintf") if b in (o.get("builtins") or [])))
        groups.setdefault(key, []).append(v)
    ctx.notes.append("distinct capability profiles among embedded versions: %d" % len(groups))
    pick = vers if not ctx.quick else ([g[0] for g in groups.values()] + [g[-1] for g in groups.values()] +
                                       rng.sample(vers, min(4, len(vers))))
    cases = []
    # (1) kernel correspondence with strings.count removed / present
    for k in range(16 if ctx.quick else 120):
        c = kernel.gen_case(rng, 1, 4)
        c["enabled"] = True
        cases.append(c)
    impl, model = kernel.run_both(ctx, cases)
    for c in cases:
        i, m = impl[c["id"]], model[c["id"]]
        kernel.compare(ctx, c, i, m)
        io = i.get("out") or {}
        ctx.seen(c, ("k", c["id"]) if io.get("notices") else None)
        ctx.count("noStringsCount=%s" % c["noStringsCount"])
    # (2) every (sampled) embedded version, one file and three files, all rules at error
    vcases = []
    for v in dict.fromkeys(pick):
        for nfiles in (1, 3):
            files = [{"name": "p%d.rego" % k, "content": GATED_FILE % k} for k in range(nfiles)]
            user = {"rules": {"bugs": {"if-empty-object": {"level": "error"}}, "custom": {"one-liner-rule": {"level": "error"}}},
                    "capabilities": {"from": {"engine": "opa", "version": v}}}
            vcases.append({"id": len(vcases), "op": "kernel.lint", "files": files, "user": user, "params": kernel.gen_params(rng, 1.0),
                           "prefix": "", "collect": False, "export": False, "all": True, "_v": v, "_n": nfiles})
            if nfiles == 1:
                # the same target named as a capabilities FILE (the version's original document): must gate identically
                fuser = {"rules": user["rules"]}
                vcases.append({"id": len(vcases), "op": "kernel.lint", "files": files, "user": fuser, "capsFileOfVersion": v,
                               "params": kernel.gen_params(rng, 1.0), "prefix": "", "collect": False, "export": False,
                               "all": True, "_v": v, "_n": "file"})
    vres = ctx.impl(vcases, timeout=3000)
    # what each version provides, read with OPA's loader, and what the model says must be skipped for it
    vlist = list(dict.fromkeys(pick))
    capq = [{"id": k, "op": "c19.caps", "version": v} for k, v in enumerate(vlist)]
    capr = ctx.impl(capq)
    gq = [dict(capr[k].get("out") or {}, id=k, op="c19.gating") for k in range(len(vlist))]
    gr = ctx.model([g for g in gq if "builtins" in g])
    must = {}
    for k, v in enumerate(vlist):
        if "builtins" not in gq[k]:
            ctx.brk("c19.caps harness (OPA loader)", {"version": v}, capr[k], None)
            continue
        must[v] = {tuple(x) for x in (gr[k].get("out") or [])}
        ctx.count("versions with %d rule(s) to skip" % len(must[v]))
    byv = {}
    for c in vcases:
        r = vres[c["id"]]
        io = r.get("out") or {}
        if "panic" in r or "crash" in r or "error" in io:
            ctx.fail("linting failed with target capabilities", {"version": c["_v"], "files": c["_n"]}, None, r)
            continue
        notices = io.get("notices") or []
        viol = io.get("violations") or []
        ctx.seen(c, ("v", c["_v"], c["_n"]) if notices else None)
        ctx.count("version-run notices=%d" % len(notices))
        titles_noticed = {(n[0], n[1]) for n in notices}
        for v in viol:
            if (v[0], v[1]) in titles_noticed:
                ctx.fail("a rule listed as skipped (notice) still reported a violation", {"version": c["_v"], "files": c["_n"]},
                         None, {"violation": v})
        # the property's positive half, against the gating table of the model (Caps.mustSkip) evaluated on the
        # version's own capabilities file: a rule whose requirement the target lacks has a notice and no violation
        if c["_v"] in must and not any(c["params"].get(k) for k in ("disable", "disableCategory", "disableAll", "ignoreFiles")):
            got = {(n[0], n[1]) for n in notices if n[2] != "none" and n[1] in GATED_TITLES}
            for r in sorted(must[c["_v"]] - got):
                misfire = [v for v in viol if (v[0], v[1]) == r]
                ctx.fail("the target lacks what rule %s/%s needs, but the rule is not listed as skipped%s" %
                         (r[0], r[1], " and reports a violation" if misfire else ""),
                         {"version": c["_v"], "files": c["_n"], "content": GATED_FILE}, None,
                         {"must_skip": sorted(must[c["_v"]]), "noticed": sorted(got), "violations_of_rule": misfire[:3]})
            if got - must[c["_v"]]:
                ctx.brk("rule notices / capabilities.rego ~ Caps.mustSkip (a rule is skipped although the target provides "
                        "what it needs)", {"version": c["_v"]}, sorted(got), sorted(must[c["_v"]]))
        skipped = len({tuple(n) for n in notices if n[2] != "none"})
        if io["summary"]["rulesSkipped"] != skipped:
            ctx.fail("rules_skipped differs from the number of distinct notices with severity != none",
                     {"version": c["_v"], "files": c["_n"]}, None, {"summary": io["summary"], "notices": notices})
        byv.setdefault(c["_v"], {})[c["_n"]] = (sorted(map(tuple, notices)), io["summary"]["rulesSkipped"])
        if notices:
            ctx.sample({"version": c["_v"], "files": c["_n"], "notices": notices[:5], "rulesSkipped": io["summary"]["rulesSkipped"]}, limit=4)
    for v, d in byv.items():
        if 1 in d and "file" in d and d[1] != d["file"]:
            ctx.fail("the same target gates differently when given as embedded version and as capabilities file",
                     {"version": v}, None, {"engine_version": d[1], "from_file": d["file"]})
        if 1 in d and 3 in d and d[1] != d[3]:
            ctx.fail("skipped rules differ between one file and many", {"version": v}, None, {"one": d[1], "many": d[3]})
    # (3) capability resolution (from \ minus) ∪ plus through config unmarshalling vs Caps.resolve
    ccases = []
    names = ["strings.count", "object.keys", "count", "http.send", "verif.fake", "verif.other"]
    for k in range(40 if ctx.quick else 300):
        minus = rng.sample(names, rng.randint(0, 3))
        plus = rng.sample(names, rng.randint(0, 3))
        ccases.append({"id": k, "op": "c19.resolve", "minus": minus, "plus": plus, "probe": names})
    cres, mres = ctx.impl(ccases), ctx.model(ccases)
    for c in ccases:
        a, b = cres[c["id"]].get("out"), mres[c["id"]].get("out")
        ctx.seen(c, ("caps", tuple(c["minus"]), tuple(c["plus"])))
        if a != b:
            ctx.brk("config.go capabilities minus/plus ~ Caps.resolve", c, a, b)
