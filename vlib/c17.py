"""C17 — the language server survives any message sequence (partial)."""
PID = "C17"
LEVEL = "proof"
RULE = ("PROVED part: the Lsp pipeline model (no step is ever blocked, queues drain) and the decision model of the didSave "
        "guard. SAMPLED part: random sequences (length <= 30 thorough / <= 14 quick) over every handled method — document sync, "
        "hover, completion, codeAction, formatting, documentSymbol, foldingRange, inlayHint, codeLens, definition, symbols, "
        "diagnostics, file create/rename/delete, executeCommand — on opened, never-opened, unknown, ignored and deleted URIs, "
        "with parseable and syntactically broken documents, CRLF, the config file disappearing and re-appearing, against the "
        "real server with all workers (thorough: built with -race); the client answers server requests; oracle: no crash, "
        "every request answered within 10 s, idle afterwards, still answering. distinct = distinct sequence; non-trivial = "
        "contains a feature request on a document that was changed before")
TRUSTED = ["sourcegraph/jsonrpc2 (synchronous dispatch of HandlerWithError)"]
ASSUMPTIONS = ["absence of panics and data races in the ~25 handlers over arbitrary documents is explored, not proved"]

DOCS = ["package p\n\nimport rego.v1\n\nallow if input.x == 1\n", "package p\n\nimport rego.v1\n\nallow if {\n", "",
        "package p\r\n\r\nimport rego.v1\r\n\r\nx = 1\r\n", "not rego at all {{{", "package p\n\nimport rego.v1\n\n# METADATA\n# entrypoint: true\nallow := regex.match(\"a\\\\d\", input.x)\n",
        "package é\n\nimport rego.v1\n\nx := \"é€\"\n"]
URIS = ["$ROOT/p/a.rego", "$ROOT/p/b.rego", "$ROOT/q/new.rego", "$ROOT/ignored/i.rego", "$ROOT/nope/missing.rego", "$ROOT/.regal/config.yaml"]
CFG = "rules:\n  idiomatic:\n    directory-package-mismatch:\n      level: ignore\nignore:\n  files:\n    - ignored/\n"


def pos(rng):
    return {"line": rng.choice([0, 0, 2, 4, 6, 99]), "character": rng.choice([0, 3, 9, 40])}


def gen_seq(rng, k, maxlen):
    files = {"p/a.rego": DOCS[0], "p/b.rego": DOCS[5], "ignored/i.rego": DOCS[0], ".regal/config.yaml": CFG}
    msgs = []
    for _ in range(rng.randint(3, maxlen)):
        u = rng.choice(URIS)
        td = {"textDocument": {"uri": u}}
        r = rng.random()
        if r < 0.10:
            msgs.append({"method": "textDocument/didOpen", "params": {"textDocument": {"uri": u, "text": rng.choice(DOCS), "languageId": "rego", "version": 1}}})
        elif r < 0.25:
            msgs.append({"method": "textDocument/didChange", "params": {"textDocument": {"uri": u, "version": 2}, "contentChanges": [{"text": rng.choice(DOCS)}] if rng.random() < 0.9 else []}})
        elif r < 0.31:
            p = {"textDocument": {"uri": u}}
            if rng.random() < 0.8:
                p["text"] = rng.choice(DOCS)
            msgs.append({"method": "textDocument/didSave", "params": p})
        elif r < 0.34:
            msgs.append({"method": "textDocument/didClose", "params": td})
        elif r < 0.42:
            msgs.append({"method": "textDocument/hover", "params": dict(td, position=pos(rng))})
        elif r < 0.50:
            msgs.append({"method": "textDocument/completion", "params": dict(td, position=pos(rng), context={"triggerKind": 1})})
        elif r < 0.56:
            rg = {"start": pos(rng), "end": pos(rng)}
            msgs.append({"method": "textDocument/codeAction", "params": dict(td, range=rg, context={"diagnostics": [
                {"range": rg, "message": "m", "code": rng.choice(["opa-fmt", "use-assignment-operator", "directory-package-mismatch", "x"]), "source": "regal/style"}]})})
        elif r < 0.61:
            msgs.append({"method": "textDocument/formatting", "params": dict(td, options={"tabSize": 4, "insertSpaces": False})})
        elif r < 0.65:
            msgs.append({"method": "textDocument/documentSymbol", "params": td})
        elif r < 0.69:
            msgs.append({"method": "textDocument/foldingRange", "params": td})
        elif r < 0.73:
            msgs.append({"method": "textDocument/inlayHint", "params": dict(td, range={"start": pos(rng), "end": pos(rng)})})
        elif r < 0.77:
            msgs.append({"method": "textDocument/codeLens", "params": td})
        elif r < 0.81:
            msgs.append({"method": "textDocument/definition", "params": dict(td, position=pos(rng))})
        elif r < 0.84:
            msgs.append({"method": rng.choice(["workspace/symbol", "workspace/diagnostic", "textDocument/diagnostic"]), "params": {"query": ""}})
        elif r < 0.88:
            msgs.append({"fs": "write", "file": "q/new.rego", "text": rng.choice(DOCS)})
            msgs.append({"method": "workspace/didCreateFiles", "params": {"files": [{"uri": "$ROOT/q/new.rego"}]}})
        elif r < 0.91:
            msgs.append({"method": "workspace/didDeleteFiles", "params": {"files": [{"uri": u}]}})
        elif r < 0.94:
            msgs.append({"method": "workspace/didRenameFiles", "params": {"files": [{"oldUri": u, "newUri": rng.choice(URIS)}]}})
        elif r < 0.97:
            if rng.random() < 0.5:
                msgs.append({"fs": "remove", "file": ".regal/config.yaml"})
            else:
                msgs.append({"fs": "write", "file": ".regal/config.yaml", "text": CFG})
        else:
            msgs.append({"method": "workspace/executeCommand", "params": {"command": rng.choice(["regal.fix.opa-fmt", "regal.fix.use-assignment-operator", "regal.debug", "nope"]),
                                                                        "arguments": [rng.choice(['{"target":"$ROOT/p/a.rego"}', "x"])]}})
        if rng.random() < 0.3:
            msgs[-1]["pauseMs"] = rng.choice([50, 300])
    return {"id": k, "op": "lsp.fuzz", "files": files, "messages": msgs}


def run(ctx):
    rng = ctx.rng()
    cases = [gen_seq(rng, k, 14 if ctx.quick else 30) for k in range(24 if ctx.quick else 400)]
    impl = ctx.impl(cases, timeout=3000, procs=6)
    for c in cases:
        r = impl[c["id"]]
        o = r.get("out") or {}
        desc = {"messages": c["messages"]}
        nontriv = any(m.get("method", "").startswith("textDocument/") and "did" not in m.get("method", "") for m in c["messages"])
        ctx.seen(c, ("seq", c["id"]) if nontriv else None)
        if "crash" in r or "panic" in r:
            text = str(r.get("crash") or r.get("panic"))
            ctx.fail("the language server process panicked / died", desc, None, text[-1500:])
            continue
        if "error" in o:
            ctx.brk("lsp.fuzz harness", desc, o, None)
            continue
        res = o.get("results") or []
        for m, x in zip(c["messages"], res):
            ctx.count("%s:%s" % (m.get("method") or "fs", x))
        if "timeout" in res:
            k = res.index("timeout")
            ctx.fail("a request was not answered within 10 s", desc, None, {"index": k, "message": c["messages"][k]})
        if not o.get("idle"):
            ctx.fail("the server did not become idle after the last message", desc, None, None)
        if o.get("alive") not in ("ok", "error"):
            ctx.fail("the server stopped answering", desc, None, o.get("alive"))
    ctx.sample({"messages": cases[0]["messages"][:6], "results": (impl[0].get("out") or {}).get("results")})
