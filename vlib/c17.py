"""C17 — the language server survives any message sequence (partial)."""
PID = "C17"
LEVEL = "proof"
REPLAY_OP = "lsp.fuzz"
RULE = ("PROVED part: the Lsp pipeline model (no step is ever blocked, queues drain) and the decision model of the didSave "
        "guard. SAMPLED part: random sequences (length <= 30 thorough / <= 14 quick) over every handled method — document sync, "
        "hover, completion, codeAction, formatting, documentSymbol, foldingRange, inlayHint, codeLens, definition, symbols, "
        "diagnostics, file create/rename/delete, executeCommand — on opened, never-opened, unknown, ignored and deleted URIs, "
        "with parseable and syntactically broken documents, CRLF, the config file disappearing and re-appearing, against the "
        "real server with all workers (thorough: built with -race); the client answers server requests; oracle: no crash, "
        "every request answered within 10 s, idle afterwards, still answering. distinct = distinct sequence; non-trivial = "
        "contains a feature request on a document that was changed before"
        ' Also: a directed scenario library (stale parse state + feature requests, vanishing files + queue overflow, empty lists / omitted optional fields per client flavour, config reloads with true notifications), the field-write inventory facts.lsp, and sequences under an oracle built with -race in every tier.')
TRUSTED = ["sourcegraph/jsonrpc2 (synchronous dispatch of HandlerWithError)"]
ASSUMPTIONS = ["absence of panics and data races in the ~25 handlers over arbitrary documents is explored, not proved"]

DOCS = ["package p\n\nimport rego.v1\n\nallow if input.x == 1\n", "package p\n\nimport rego.v1\n\nallow if {\n", "",
        "package p\r\n\r\nimport rego.v1\r\n\r\nx = 1\r\n", "not rego at all {{{", "package p\n\nimport rego.v1\n\n# METADATA\n# entrypoint: true\nallow := regex.match(\"a\\\\d\", input.x)\n",
        "package é\n\nimport rego.v1\n\nx := \"é€\"\n"]
LONG_BROKEN = "package p\n\nimport rego.v1\n\n" + "".join("r%d := %d\n\n" % (i, i) for i in range(8)) + "broken if {\n"
DOCS += [LONG_BROKEN, "package p\n", "package p\n\nimport rego.v1\n\nf(x) := y if {\n\ty := x\n}\n\nr := f(1)\n"]
CLIENTS = ["verif", "Visual Studio Code", "Neovim", "Zed"]
URIS = ["$ROOT/p/a.rego", "$ROOT/p/b.rego", "$ROOT/q/new.rego", "$ROOT/ignored/i.rego", "$ROOT/nope/missing.rego", "$ROOT/.regal/config.yaml"]
CFG = "rules:\n  idiomatic:\n    directory-package-mismatch:\n      level: ignore\nignore:\n  files:\n    - ignored/\n"


def pos(rng):
    return {"line": rng.choice([0, 0, 2, 4, 6, 99]), "character": rng.choice([0, 3, 9, 40])}


def gen_seq(rng, k, maxlen):
    files = {"p/a.rego": DOCS[0], "p/b.rego": DOCS[5], "ignored/i.rego": DOCS[0], ".regal/config.yaml": CFG}
    msgs = []
    for _ in range(rng.randint(3, maxlen)):
        u = rng.choice(URIS)
        td = {"textDocument": {"uri": u}}
        r = rng.random()
        if r < 0.10:
            msgs.append({"method": "textDocument/didOpen", "params": {"textDocument": {"uri": u, "text": rng.choice(DOCS), "languageId": "rego", "version": 1}}})
        elif r < 0.25:
            msgs.append({"method": "textDocument/didChange", "params": {"textDocument": {"uri": u, "version": 2}, "contentChanges": [{"text": rng.choice(DOCS)}] if rng.random() < 0.9 else []}})
        elif r < 0.31:
            p = {"textDocument": {"uri": u}}
            if rng.random() < 0.8:
                p["text"] = rng.choice(DOCS)
            msgs.append({"method": "textDocument/didSave", "params": p})
        elif r < 0.34:
            msgs.append({"method": "textDocument/didClose", "params": td})
        elif r < 0.42:
            msgs.append({"method": "textDocument/hover", "params": dict(td, position=pos(rng))})
        elif r < 0.50:
            msgs.append({"method": "textDocument/completion", "params": dict(td, position=pos(rng), context={"triggerKind": 1})})
        elif r < 0.56:
            rg = {"start": pos(rng), "end": pos(rng)}
            msgs.append({"method": "textDocument/codeAction", "params": dict(td, range=rg, context={"diagnostics": [
                dict({"range": rg, "message": "m", "code": rng.choice(["opa-fmt", "use-assignment-operator", "directory-package-mismatch", "x"]), "source": "regal/style"},
                     **({"codeDescription": {"href": "https://docs.styra.com/regal/rules/style/opa-fmt"}} if rng.random() < 0.5 else {}))]})})
        elif r < 0.61:
            msgs.append({"method": "textDocument/formatting", "params": dict(td, options={"tabSize": 4, "insertSpaces": False})})
        elif r < 0.65:
            msgs.append({"method": "textDocument/documentSymbol", "params": td})
        elif r < 0.69:
            msgs.append({"method": "textDocument/foldingRange", "params": td})
        elif r < 0.73:
            msgs.append({"method": "textDocument/inlayHint", "params": dict(td, range={"start": pos(rng), "end": pos(rng)})})
        elif r < 0.77:
            msgs.append({"method": "textDocument/codeLens", "params": td})
        elif r < 0.81:
            msgs.append({"method": "textDocument/definition", "params": dict(td, position=pos(rng))})
        elif r < 0.84:
            msgs.append({"method": rng.choice(["workspace/symbol", "workspace/diagnostic", "textDocument/diagnostic"]), "params": {"query": ""}})
        elif r < 0.88:
            msgs.append({"fs": "write", "file": "q/new.rego", "text": rng.choice(DOCS)})
            msgs.append({"method": "workspace/didCreateFiles", "params": {"files": [{"uri": "$ROOT/q/new.rego"}] if rng.random() < 0.85 else []}})
        elif r < 0.91:
            msgs.append({"method": "workspace/didDeleteFiles", "params": {"files": [{"uri": u}] if rng.random() < 0.85 else []}})
        elif r < 0.94:
            msgs.append({"method": "workspace/didRenameFiles", "params": {"files": [{"oldUri": u, "newUri": rng.choice(URIS)}] if rng.random() < 0.85 else []}})
        elif r < 0.97:
            if rng.random() < 0.5:
                msgs.append({"fs": "remove", "file": ".regal/config.yaml"})
            else:
                msgs.append({"fs": "write", "file": ".regal/config.yaml", "text": CFG})
        else:
            msgs.append({"method": "workspace/executeCommand", "params": {"command": rng.choice(["regal.fix.opa-fmt", "regal.fix.use-assignment-operator", "regal.debug", "nope"]),
                                                                        "arguments": [rng.choice(['{"target":"$ROOT/p/a.rego"}', "x"])]}})
        if rng.random() < 0.3:
            msgs[-1]["pauseMs"] = rng.choice([50, 300])
    return {"id": k, "op": "lsp.fuzz", "files": files, "messages": msgs, "client": rng.choice(CLIENTS)}


FEATURES = ["hover", "completion", "codeAction", "formatting", "documentSymbol", "foldingRange", "inlayHint", "codeLens", "definition"]


def feature_msg(f, u, line=0, ch=0):
    td = {"textDocument": {"uri": u}}
    p = {"line": line, "character": ch}
    if f in ("hover", "definition"):
        return {"method": "textDocument/" + f, "params": dict(td, position=p)}
    if f == "completion":
        return {"method": "textDocument/completion", "params": dict(td, position=p, context={"triggerKind": 1})}
    if f == "codeAction":
        rg = {"start": p, "end": p}
        return {"method": "textDocument/codeAction", "params": dict(td, range=rg, context={"diagnostics": [
            {"range": rg, "message": "m", "code": "opa-fmt", "source": "regal/style"}]})}
    if f == "formatting":
        return {"method": "textDocument/formatting", "params": dict(td, options={"tabSize": 4, "insertSpaces": False})}
    if f == "inlayHint":
        return {"method": "textDocument/inlayHint", "params": dict(td, range={"start": {"line": 0, "character": 0}, "end": {"line": 99, "character": 0}})}
    return {"method": "textDocument/" + f, "params": td}


def directed(first_id):
    """scenario library: orders and contents that the random generator reaches rarely"""
    files = {"p/a.rego": DOCS[0], "p/b.rego": DOCS[5], "ignored/i.rego": DOCS[0], ".regal/config.yaml": CFG}
    u, v = "$ROOT/p/a.rego", "$ROOT/p/b.rego"
    out = []

    def add(msgs, client="verif"):
        out.append({"id": first_id + len(out), "op": "lsp.fuzz", "files": files, "messages": msgs, "client": client, "_directed": True})
    # (1) every feature request right after a change that makes the document much shorter than the position of the
    #     previous parse error / longer than before (state of the previous version still cached), no pause
    for short in ("package p\n", "", DOCS[0]):
        msgs = [{"method": "textDocument/didOpen", "params": {"textDocument": {"uri": u, "text": LONG_BROKEN, "languageId": "rego", "version": 1}}, "pauseMs": 700}]
        for f in FEATURES:
            msgs.append({"method": "textDocument/didChange", "params": {"textDocument": {"uri": u, "version": 2}, "contentChanges": [{"text": LONG_BROKEN}]}, "pauseMs": 400})
            msgs.append({"method": "textDocument/didChange", "params": {"textDocument": {"uri": u, "version": 3}, "contentChanges": [{"text": short}]}})
            msgs.append(feature_msg(f, u, 20, 3))
        add(msgs, "Visual Studio Code")
    # (2) jobs for files that disappear while the workers are busy, then more traffic than the queues hold
    msgs = [{"method": "textDocument/didOpen", "params": {"textDocument": {"uri": v, "text": DOCS[8] if len(DOCS) > 8 else DOCS[0], "languageId": "rego", "version": 1}}},
            {"method": "textDocument/didOpen", "params": {"textDocument": {"uri": u, "text": DOCS[0], "languageId": "rego", "version": 1}}},
            {"method": "workspace/didDeleteFiles", "params": {"files": [{"uri": u}]}}]
    for i in range(14):
        msgs.append({"method": "textDocument/didChange", "params": {"textDocument": {"uri": v, "version": 2 + i}, "contentChanges": [{"text": DOCS[0] + "# %d\n" % i}]}})
    msgs.append(feature_msg("hover", v, 4, 2))
    add(msgs)
    # (4) configuration reloads (the watcher fires on every write) interleaved with document traffic and feature requests
    cfg2 = CFG + "project:\n  rego-version: 1\n  roots:\n    - path: p\n      rego-version: 0\n"
    for notify in (True, False):
        msgs = [{"method": "textDocument/didOpen", "params": {"textDocument": {"uri": u, "text": DOCS[0], "languageId": "rego", "version": 1}}, "pauseMs": 600}]
        for i in range(4):
            msgs.append({"fs": "write", "file": ".regal/config.yaml", "text": cfg2 if i % 2 == 0 else CFG, "noPause": notify})
            for j in range(6):
                msgs.append({"method": "textDocument/didChange", "notify": notify,
                             "params": {"textDocument": {"uri": u, "version": 2 + 10 * i + j}, "contentChanges": [{"text": DOCS[0] + "# %d %d\n" % (i, j)}]}})
                for f in ("completion", "formatting") + (() if notify else ("hover",)):
                    msgs.append(feature_msg(f, u, 4, 2))
            msgs[-1]["pauseMs"] = 400
        add(msgs)
    # (3) empty lists and optional fields left out, as each client flavour
    for client in CLIENTS:
        add([{"method": "workspace/didCreateFiles", "params": {"files": []}},
             {"method": "workspace/didDeleteFiles", "params": {"files": []}},
             {"method": "workspace/didRenameFiles", "params": {"files": []}},
             {"method": "textDocument/didChange", "params": {"textDocument": {"uri": u, "version": 2}, "contentChanges": []}},
             feature_msg("codeAction", u, 0, 0),
             {"method": "textDocument/codeAction", "params": {"textDocument": {"uri": u}, "range": {"start": {"line": 0, "character": 0}, "end": {"line": 0, "character": 0}}, "context": {"diagnostics": []}}},
             {"method": "workspace/executeCommand", "params": {"command": "regal.fix.opa-fmt", "arguments": []}},
             feature_msg("hover", "$ROOT/nope/missing.rego", 0, 0)], client)
    return out


def judge(ctx, c, r):
    o = r.get("out") or {}
    desc = {"messages": c["messages"], "client": c.get("client")}
    if "crash" in r or "panic" in r:
        text = str(r.get("crash") or r.get("panic"))
        ctx.fail("the language server process panicked / died", desc, None, text[-1500:])
        return
    if "error" in o:
        ctx.brk("lsp.fuzz harness", desc, o, None)
        return
    res = o.get("results") or []
    for m, x in zip(c["messages"], res):
        ctx.count("%s:%s" % (m.get("method") or "fs", x))
    if "timeout" in res:
        k = res.index("timeout")
        ctx.fail("a request was not answered within 10 s", desc, None, {"index": k, "message": c["messages"][k]})
    if not o.get("idle"):
        ctx.fail("the server did not become idle after the last message", desc, None, None)
    if o.get("alive") not in ("ok", "error"):
        ctx.fail("the server stopped answering", desc, None, o.get("alive"))


def race_run(ctx, cases):
    """the same kind of sequences against an oracle built with -race from the current tree: the statement names races
    on shared state, so a report inside the repository's code is a violation (the report is the replay)"""
    import os, subprocess, json as _json, re
    from . import core
    try:
        racebin = core.build_oracle(name="oracle-race-lsp", race=True)
    except core.BuildBroken as e:
        ctx.brk("race-detector oracle build", {"op": "build -race"}, str(e)[-500:], None)
        return
    data = "".join(_json.dumps(c, ensure_ascii=False) + "\n" for c in cases)
    env = dict(os.environ, GORACE="halt_on_error=0")
    try:
        p = subprocess.run([racebin], input=data, env=env, stdout=subprocess.PIPE, stderr=subprocess.PIPE, text=True, timeout=2400)
    except subprocess.TimeoutExpired:
        ctx.brk("race-detector run timed out", {"n": len(cases)}, None, None)
        return
    answered = sum(1 for l in p.stdout.splitlines() if l.strip().startswith("{"))
    for c in cases:
        ctx.seen({"race": c["id"]}, ("race", c["id"]))
    ctx.count("race-detector-sequences", len(cases))
    if answered < len(cases):
        ctx.fail("the language server process died under the race detector run", {"answered": answered, "of": len(cases)}, None, p.stderr[-1500:])
    races = p.stderr.split("WARNING: DATA RACE")[1:]
    sites = []
    for r in races:
        frames = re.findall(r"^\s+(/\S+\.go:\d+)", r, re.M)
        own = [f for f in frames if "/internal/verifharness/" not in f and "/repo/" in f or "regal/" in f]
        key = own[0] if own else (frames[0] if frames else "?")
        if key not in sites:
            sites.append(key)
    sites = [s for s in sites if "/verifharness/" not in s]
    if sites:
        ctx.fail("Go race detector: unsynchronised access to state shared between the message loop and the workers "
                 "(%d report(s))" % len(races), {"sequences": len(cases)}, None, {"sites": sites[:8], "first_report": races[0][:2500]})


def field_write_facts(ctx):
    import json as _json, os
    from . import core
    got = ctx.impl([{"id": 0, "op": "facts.lsp"}])[0].get("out")
    base = _json.load(open(os.path.join(core.VERIF, "facts", "c17_field_writes.json")))["writes"]
    ctx.seen({"facts.lsp": len(got or [])}, ("facts.lsp",))
    if got != base:
        ctx.brk("internal/lsp writes to LanguageServer fields ~ facts/c17_field_writes.json (reviewed: shared fields are only "
                "assigned during initialisation or under a mutex)", {"op": "facts.lsp"},
                {"new": [x for x in (got or []) if x not in base], "gone": [x for x in base if x not in (got or [])]}, None)


def search(ctx):
    """an obligation broke (e.g. a new unguarded write to shared server state) and the regular run found no failing
    sequence: longer configuration-reload / traffic scenarios under the race detector, several repetitions"""
    dd = [d for d in directed(0) if len(d["messages"]) > 60]
    cases = []
    for rep in range(3):
        for d in dd:
            c = dict(d, id=len(cases))
            c["messages"] = d["messages"] * 2
            cases.append(c)
    race_run(ctx, cases)


def run(ctx):
    rng = ctx.rng()
    field_write_facts(ctx)
    cases = [gen_seq(rng, k, 14 if ctx.quick else 30) for k in range(24 if ctx.quick else 400)]
    cases += directed(len(cases))
    race_cases = [dict(gen_seq(rng, k, 12), id=k) for k in range(5 if ctx.quick else 60)]
    dd = directed(len(race_cases))
    race_cases += [d for d in dd if len(d["messages"]) > 60][:1] + [dd[0], dd[-1]]
    impl = ctx.impl(cases, timeout=3000, procs=6)
    for c in cases:
        nontriv = any(m.get("method", "").startswith("textDocument/") and "did" not in m.get("method", "") for m in c["messages"])
        ctx.seen(c, ("seq", c["id"]) if nontriv else None)
        judge(ctx, c, impl[c["id"]])
    race_run(ctx, race_cases)
    ctx.sample({"messages": cases[0]["messages"][:6], "results": (impl[0].get("out") or {}).get("results")})
