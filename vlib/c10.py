"""C10 — exit code and every output format faithfully reflect the report."""
import concurrent.futures
import json
import os
import subprocess

from . import core, kernel

PID = "C10"
LEVEL = "proof"
RULE = ("(a) random reports (0-40 violations; mixed levels incl. unknown/empty level; several violations per file; aggregate "
        "violations without position; file names with ':' and spaces; texts with XML/JSON/terminal-special characters, > 117 "
        "bytes, multi-byte at the cut) rendered by each real reporter and parsed back (encoding/json, encoding/xml, SARIF as "
        "JSON, line formats) into (file,row,col,rule,level) records; (b) the real `regal lint` binary on generated workspaces "
        "for both fail levels and failing runs: process exit status vs the tally of the JSON report. distinct = report/"
        "workspace; non-trivial = at least two violations in one file, or a non-zero exit status")
TRUSTED = ["encoding/json, jsoniter, go-junit, go-sarif, tablewriter: escaping and layout (sampled by parsing the output back)",
           "slices.Sort + slices.Compact = removal of all duplicates"]
ASSUMPTIONS = []

FORMATS = ["json", "pretty", "compact", "github", "sarif", "junit"]
TEXTS = ["x := 1", "<a href=\"x\">&amp;</a> ]]> </failure>", "é" * 60 + "€" * 30, "a" * 116 + "é€", "\x1b[31mred\x1b[0m %0A ::warning::",
         "tab\there \"quoted\" 'single' \\ backslash"]
FILES = ["a.rego", "dir/b.rego", "dir with space/c.rego", "d:e.rego", "é.rego"]
LEVELS = ["error", "warning", "error", "warning", "", "notice"]


def gen_report(rng):
    n = rng.choice([0, 1, 2, 3, 5, 8, 13, 40])
    vs = []
    for k in range(n):
        t = "rule-%d" % rng.randrange(6)
        if rng.random() < 0.12:
            vs.append({"file": "", "row": 0, "col": 0, "title": t, "level": rng.choice(LEVELS[:4]), "desc": "desc of " + t})
        else:
            vs.append({"file": rng.choice(FILES), "row": rng.randint(1, 30), "col": rng.randint(1, 9), "title": t,
                       "level": rng.choice(LEVELS), "desc": "desc of " + t})
    return vs


def canon(recs, fmt):
    out = []
    for r in recs:
        f, row, col, title, level = r
        if fmt == "compact":
            out.append([f, row, col])
        elif fmt == "sarif":
            out.append([f, row if (row > 0 and col > 0) else 0, col if (row > 0 and col > 0) else 0, title, level])
        else:
            out.append([f, row, col, title, level])
    return sorted(out, key=str)


def part_render(ctx):
    rng = ctx.rng("render")
    cases = []
    for k in range(70 if ctx.quick else 1500):
        vs = gen_report(rng)
        text = rng.choice(TEXTS)
        for fmt in FORMATS:
            cases.append({"id": len(cases), "op": "c10.render", "format": fmt, "violations": vs, "text": text,
                          "notice": rng.random() < 0.3})
    impl, model = ctx.impl(cases), ctx.model(cases)
    for c in cases:
        i, m = impl[c["id"]], model[c["id"]]
        io, mo = i.get("out") or {}, m.get("out") or {}
        fmt = c["format"]
        perfile = {}
        for v in c["violations"]:
            perfile[v["file"]] = perfile.get(v["file"], 0) + 1
        nontriv = any(n > 1 for n in perfile.values())
        ctx.seen(c, ("r", c["id"]) if nontriv else None)
        ctx.count("format=" + fmt)
        if "panic" in i or "crash" in i or "error" in io:
            known = None
            if fmt == "junit" and "illegal character code" in str(io.get("error")) and any(ord(ch) < 32 and ch not in "\t\n\r" for ch in c["text"]):
                known = "C10-junit-control-chars"
            ctx.fail("reporter failed or its output does not parse back", {"format": fmt, "violations": c["violations"], "text": c["text"]}, known, i)
            continue
        got = canon(io.get("records") or [], fmt)
        pred = canon(mo.get("records") or [], fmt)
        want = canon([[v["file"], v["row"], v["col"], v["title"], v["level"]] for v in c["violations"]], fmt)
        if fmt in ("compact",):
            # location-less rows have an empty first cell and cannot be told from wrapped continuation rows
            got = [g for g in got if g[0] != ""]
            pred = [g for g in pred if g[0] != ""]
            want = [g for g in want if g[0] != ""]
        if fmt == "pretty":
            # the pretty format prints the level only without colour; harness runs with NoColor
            pass
        if got != pred:
            ctx.brk("reporter.go %s ~ Report.records" % fmt, {"format": fmt, "violations": c["violations"]}, got, pred)
        if got != want:
            ctx.fail("%s output does not present every violation exactly once with file, position, rule and level" % fmt,
                     {"format": fmt, "violations": c["violations"], "text": c["text"]}, None, {"got": got, "want": want})
        elif nontriv:
            ctx.sample({"format": fmt, "n": len(c["violations"]), "records": got[:3]}, limit=3)


def run_regal(regal, args, cwd):
    p = subprocess.run([regal] + args, cwd=cwd, stdout=subprocess.PIPE, stderr=subprocess.PIPE, text=True, timeout=120,
                       env=dict(os.environ, NO_COLOR="1"))
    return p.returncode, p.stdout, p.stderr


def part_exit(ctx):
    rng = ctx.rng("exit")
    regal = core.build_regal()
    n = 28 if ctx.quick else 300
    jobs = []
    with core.Scratch("verif-c10") as tmp:
        for k in range(n):
            d = os.path.join(tmp, "w%d" % k)
            os.makedirs(os.path.join(d, ".regal"))
            os.makedirs(os.path.join(d, "pol"))
            kind = rng.choice(["none", "warn", "err", "mixed", "broken", "broken"][: 6 if k % 5 == 0 else 4])
            lv = {"none": ("ignore", "ignore"), "warn": ("warning", "ignore"), "err": ("ignore", "error"),
                  "mixed": ("warning", "error"), "broken": ("warning", "error")}[kind]
            cfg = ("rules:\n  default:\n    level: ignore\n  style:\n    todo-comment:\n      level: %s\n    line-length:\n      level: %s\n" % lv)
            open(os.path.join(d, ".regal", "config.yaml"), "w").write(cfg)
            body = "package pol\n\n# TODO: x\n" + kernel.LONG + "\n"
            if kind == "broken":
                body += "this is not rego {{{\n"
            open(os.path.join(d, "pol", "p.rego"), "w").write(body)
            fl = rng.choice(["error", "warning"])
            jobs.append((k, d, kind, fl))

        def one(job):
            k, d, kind, fl = job
            rc, out, err = run_regal(regal, ["lint", "--format", "json", "--fail-level", fl, "pol"], d)
            return job, rc, out, err
        with concurrent.futures.ThreadPoolExecutor(max_workers=12) as ex:
            results = list(ex.map(one, jobs))
    mcases = []
    for (k, d, kind, fl), rc, out, err in results:
        levels, failed = [], False
        try:
            rep = json.loads(out)
            if "violations" in rep:
                levels = [v["level"] for v in rep["violations"]]
            else:
                failed = True
        except Exception:
            failed = True
        mcases.append({"id": k, "op": "c10.exit", "levels": levels, "failLevel": fl, "failed": failed, "_rc": rc, "_kind": kind,
                       "_err": err[-300:]})
    model = ctx.model(mcases)
    for c in mcases:
        want = (model[c["id"]].get("out") or {}).get("code")
        ctx.seen(c, ("exit", c["id"]) if c["_rc"] != 0 else None)
        ctx.count("exit:%s/%s->%d" % (c["_kind"], c["failLevel"], c["_rc"]))
        if c["_kind"] == "broken" and not c["failed"]:
            ctx.fail("linting an unparseable file did not fail", c, None, None)
        if c["_rc"] != want:
            ctx.fail("exit status differs from the documented code for the published report",
                     {k: v for k, v in c.items() if not k.startswith("_")}, None, {"exit": c["_rc"], "want": want, "stderr": c["_err"]})
    ctx.sample({"part": "exit", "case": {k: v for k, v in mcases[0].items()}})


def run(ctx):
    part_render(ctx)
    part_exit(ctx)
