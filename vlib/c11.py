"""C11 — automatic fixes never change what a policy means.  (C12 shares the generators.)"""
import itertools

PID = "C11"
LEVEL = "proof"
RULE = ("(a) exhaustive: the three text fixes on every line of length <= 4 over {=,:,#,\",\\,a,é,space,`} (plus a fixed set of "
        "realistic lines) x every column 0..6 x rows in and out of range, vs the Lean model; (b) generated parseable modules "
        "(v1) mixing fixable violations: '=' and '#' and quotes inside strings and comments, multi-byte text before the fix "
        "column, several fixes on one line, else-chains on one line, regex patterns with escapes / backticks / non-ASCII, "
        "run through the real Fixer (in-memory provider, 12 s watchdog); oracle in Go on OPA's AST: every file parses, the "
        "AST equals the original up to '=' -> ':=', comments equal up to one leading space. non-trivial = at least one fix "
        "applied; distinct = distinct line/module")
TRUSTED = ["OPA parser/formatter (Env side): rule columns, `format.AstWithOpts` output; OPA's AST equality"]
ASSUMPTIONS = ["the semantic part (the reported column is the operator / comment / literal) is the rules' business: sampled by (b), "
               "not proved"]

ALPH = ["=", ":", "#", '"', "\\", "a", "é", " ", "`"]
REAL = ['f("=") = 1', 'foo["a=b"] = "baz"', "x := 1 if input.y else = 2", 'x := "é" #c', "#c", "y = 2 #=", 'm("é\\\\d+", x)',
        'm("a\\\\d", "b\\\\w")', 'm("\\"q\\\\d")', 'é = "=" # = #', 'm("ééééé\\\\d", x)',
        # patterns ending in an escaped backslash with a later literal on the line (closing quote after an even run)
        'm("\\\\", "/")', 'm("a\\\\\\\\", "b")', 'm("\\\\\\"", "c")']


def part_fn(ctx):
    cases = []
    lines = ["".join(t) for n in range(0, 5) for t in itertools.product(ALPH, repeat=n)] if not ctx.quick else None
    if lines is None:
        rng = ctx.rng("fn")
        allp = ["".join(t) for n in range(0, 5) for t in itertools.product(ALPH, repeat=n)]
        lines = rng.sample(allp, 1500)
    lines += REAL
    for ln in lines:
        for fx in ("useAssign", "noWs", "nonRaw"):
            for col in range(0, len(ln) + 3):
                cases.append({"id": len(cases), "op": "c11.textfix", "fix": fx, "contents": "package p\n" + ln + "\nlast",
                              "row": 2, "col": col, "endCol": col + 3})
    for fx in ("useAssign", "noWs", "nonRaw"):
        for row in (1, 3, 4, 7):
            cases.append({"id": len(cases), "op": "c11.textfix", "fix": fx, "contents": "a=b\n#x\n\"q\"", "row": row, "col": 2, "endCol": 5})
    impl, model = ctx.impl(cases), ctx.model(cases)
    for c in cases:
        i, m = impl[c["id"]], model[c["id"]]
        io, mo = i.get("out"), m.get("out")
        ctx.seen(c, (c["fix"], c["contents"], c["row"], c["col"]) if (io or {}).get("changed") else None)
        ctx.count("fn:%s changed=%s" % (c["fix"], (io or {}).get("changed")))
        if "panic" in i or "crash" in i:
            ctx.fail("a text fix panicked", c, None, i)
            continue
        if io != mo:
            ctx.brk("fixes/%s.go ~ TextFix.%s" % (c["fix"].lower(), c["fix"]), c, io, mo)
        if io and io.get("changed"):
            # property: only the addressed line changed, and by the documented edit
            a, b = c["contents"].split("\n"), io["contents"].split("\n")
            if len(a) != len(b) or any(x != y for k, (x, y) in enumerate(zip(a, b)) if k != c["row"] - 1):
                ctx.fail("a text fix changed a line other than the addressed one", c, None, io)
    ctx.sample({"part": "fn", "case": {k: cases[5][k] for k in ("fix", "contents", "row", "col")}, "impl": impl[5].get("out")})


HEADS = ['r%d = %s', 'r%d := %s', 'f%d(x) = %s', 'r%d["k=%d"] = %s', 'r%d["é"] = %s']
VALUES = ['1', '"="', '"a=b"', '"#x"', '"é = ="', 'input.x']
COMMENTS = ["#c%d", "# ok %d", "#=%d", "##x%d", "#é%d", "# id-like"]
# note: a pattern with an escaped quote ("a\\"b\\\\d") becomes `a\\"b\\d`: a different string value but the same regular
# expression (RE2 reads \\" as "), so it is exercised at function level only and not under the AST-equality oracle
PATTERNS = ['"a\\\\d+"', '"é\\\\d+"', '"ééééé\\\\w"', '"[a-z]+"', '`raw\\d`', '"q\\\\.r"', '"tick`\\\\d"', '"\\\\\\\\x"']


PKG_TAILS = ["", "", "", "_test", ".integration_tests", ".a_test_b", "_tests", ".unit_test", "_test.helpers", "_test.sub_test"]


def gen_module(rng, idx, pkg=None):
    lines = ["package %s" % (pkg or "p%d" % idx), "", "# id:%d" % idx, "import rego.v1", ""]
    n = rng.randint(1, 7)
    for k in range(n):
        r = rng.random()
        if r < 0.40:
            h = rng.choice(HEADS)
            v = rng.choice(VALUES)
            ln = h % ((k, k, v) if h.count("%") == 3 else (k, v))
            if rng.random() < 0.3:
                cm = rng.choice(COMMENTS)
                ln += " " + (cm % k if "%d" in cm else cm)
            lines.append(ln)
        elif r < 0.55:
            c = rng.choice(COMMENTS)
            lines.append(c % k if "%d" in c else c)
        elif r < 0.75:
            lines.append("m%d if regex.match(%s, input.s%d)" % (k, rng.choice(PATTERNS), k))
        elif r < 0.85:
            lines.append("e%d := 1 if input.a%d else = 2" % (k, k))
        elif r < 0.92:
            lines.append("g%d := regex.replace(input.s, %s, %s)" % (k, rng.choice(PATTERNS), rng.choice(PATTERNS)))
        else:
            lines.append("t%d = 3 %s" % (k, "#é = #"))
        if rng.random() < 0.5:
            lines.append("")
    text = "\n".join(lines) + "\n"
    if rng.random() < 0.12:
        text = text.replace("\n", "\r\n")
    return text


FIXABLE = ["use-assignment-operator", "no-whitespace-comment", "non-raw-regex-pattern", "opa-fmt", "directory-package-mismatch"]


def gen_fix_cases(ctx, tag, n):
    rng = ctx.rng(tag)
    cases = []
    for k in range(n):
        files = {}
        mode = rng.random()
        if mode < 0.25:
            # several files of ONE package under the same base name in different directories: the moves collide on one
            # target path (which may already be occupied), so rename candidates are needed repeatedly
            pkg = "p0" + rng.choice(["", "", ".q"])
            dirs = rng.sample(["p0", "p0/q", "wrong", "other", "x/y", "p0_1"], rng.randint(2, 4))
            for i, d in enumerate(dirs):
                files["/w/%s/f.rego" % d] = gen_module(rng, i, pkg)
        else:
            for i in range(rng.randint(1, 3)):
                pkg = "p%d%s" % (i, rng.choice(PKG_TAILS)) if mode < 0.6 else None
                d = rng.choice(["p%d" % i, "wrong", "p%d/sub" % i] + ([pkg.replace(".", "/")] if pkg else []))
                files["/w/%s/f%d.rego" % (d, i)] = gen_module(rng, i, pkg)
        enable = [r for r in FIXABLE if rng.random() < 0.7] or ["use-assignment-operator"]
        if tag == "c11":
            enable = [r for r in enable if r != "directory-package-mismatch"] or ["no-whitespace-comment"]
        cases.append({"id": k, "op": "c11.fix", "files": files, "enable": enable, "root": "/w"})
    return cases


def bulk_cases(first_id):
    """more fixable violations than any small bound on the number of lint->fix rounds: one file with many bad comments
    and assignments, and many misplaced files"""
    out = []
    body = "package p0\n\n# id:0\nimport rego.v1\n\n" + "".join("#c%d\nr%d = %d\n\n" % (i, i, i) for i in range(14))
    out.append({"id": first_id, "op": "c11.fix", "files": {"/w/p0/f0.rego": body},
                "enable": ["use-assignment-operator", "no-whitespace-comment"], "root": "/w", "_directed": True})
    files = {"/w/wrong/f%d.rego" % i: "package q%d\n\n# id:%d\nimport rego.v1\n\nx := %d\n" % (i, i, i) for i in range(13)}
    out.append({"id": first_id + 1, "op": "c11.fix", "files": files, "enable": ["directory-package-mismatch"], "root": "/w",
                "_directed": True})
    # CRLF files: line endings inside multi-line raw strings are part of a value
    crlf = ("package p0\n\n# id:0\nimport rego.v1\n\n#bad comment\nx = 1\ns := `line one\nline two`\n"
            "m if regex.match(\"a\\\\d\", input.s)\n").replace("\n", "\r\n")
    for en in (["no-whitespace-comment"], ["use-assignment-operator"], ["non-raw-regex-pattern"],
               ["no-whitespace-comment", "use-assignment-operator", "non-raw-regex-pattern"]):
        out.append({"id": first_id + len(out), "op": "c11.fix", "files": {"/w/p0/f0.rego": crlf}, "enable": en, "root": "/w",
                    "_directed": True})
    # shapes that were real defects of the pinned tree (use-assignment-operator): an else clause that already uses
    # ":=" on a line containing "else=", and heads whose value starts on the next line
    shapes = ['x := 1 if {\n\tinput.y\n} else := 2 if input.x == "else="\n',
              'y = 1 if {\n\tinput.y\n} else = 3 if input.z == "else := "\n',
              'h["x=y"] =\n\t3\n', 'k =\n\t{"a=b": 1}\n', 'f(x) =\n\t[x, "="]\n']
    for sh in shapes:
        out.append({"id": first_id + len(out), "op": "c11.fix", "files": {"/w/p0/f0.rego": "package p0\n\n# id:0\nimport rego.v1\n\n" + sh},
                    "enable": ["use-assignment-operator", "no-whitespace-comment"], "root": "/w", "_directed": True})
    return out


def grid_cases(first_id):
    """two fixable violations of the SAME rule on one line, for every small combination of sizes: fixing the left one
    shifts the right one's column (the fixer must re-lint before applying it)"""
    out = []
    for e in range(1, 5):
        for ln in range(0, 7):
            p1 = '"' + "\\\\d" * e + '"'
            p2 = '"' + "-x.yz+"[:ln] + '"'
            body = ("package p0\n\n# id:0\nimport rego.v1\n\n"
                    "v if [regex.match(%s, input.id), regex.match(%s, \"a-b\")] == [true, true]\n"
                    "w = 1 # x = 2\nu = {\"a=b\": 1}[\"a=b\"]\n" % (p1, p2))
            out.append({"id": first_id + len(out), "op": "c11.fix", "files": {"/w/p0/f0.rego": body},
                        "enable": ["non-raw-regex-pattern", "use-assignment-operator", "no-whitespace-comment"], "root": "/w",
                        "_directed": True})
    # a pattern that ENDS in an escaped backslash, followed by further string literals on the same line: the closing
    # quote of the pattern is the one after an even number of backslashes, not "the first quote not preceded by one"
    for pre in ("", "a", "é"):
        for nb in (4, 8):
            pat = '"' + pre + "\\" * nb + '"'
            for tail in ('"/"', '"x\\\\dy"', '`r`'):
                body = ("package p0\n\n# id:0\nimport rego.v1\n\n"
                        "u := regex.replace(input.path, %s, %s)\n"
                        "v if regex.match(%s, input.s) == (input.t == \"q\")\n" % (pat, tail, pat))
                out.append({"id": first_id + len(out), "op": "c11.fix", "files": {"/w/p0/f0.rego": body},
                            "enable": ["non-raw-regex-pattern"], "root": "/w", "_directed": True})
    return out


def judge_c11(ctx, c, r):
    o = r.get("out") or {}
    st = o.get("status")
    ctx.seen(c, ("fix", c["id"]) if o.get("fixes") else None)
    ctx.count("e2e status=%s" % st)
    desc = {"files": c["files"], "enable": c["enable"]}
    if "panic" in r or "crash" in r or st == "panic":
        ctx.fail("the fixer panicked", desc, None, r)
        return
    if st == "lint-rejects-input":
        if c.get("_directed"):
            ctx.brk("directed fixer input must be lintable (harness)", desc, o.get("err"), None)
        return
    if st == "timeout":
        return  # C12's business
    if st == "error":
        # Fix succeeds on every file that lint accepts (C12) — but a fix that breaks the file shows here as a parse error
        ctx.fail("regal fix failed on files that lint accepts: %s" % (o.get("err") or "")[:200], desc, classify(c, o), o.get("err"))
        return
    if o.get("problems"):
        ctx.fail("after fix a file does not parse or differs beyond the documented effect", desc, classify(c, o), o["problems"])


def classify(c, o):
    return None


def run(ctx):
    part_fn(ctx)
    cases = gen_fix_cases(ctx, "c11", 60 if ctx.quick else 800)
    cases += grid_cases(len(cases))
    cases += bulk_cases(len(cases))
    impl = ctx.impl(cases, timeout=3000, procs=12)
    for c in cases:
        judge_c11(ctx, c, impl[c["id"]])
    ctx.sample({"part": "e2e", "enable": cases[0]["enable"], "files": cases[0]["files"], "impl_status": (impl[0].get("out") or {}).get("status")})
