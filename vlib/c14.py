"""C14 — without --force, fix never destroys work that git cannot restore."""
import concurrent.futures
import hashlib
import os
import subprocess

from . import core

PID = "C14"
LEVEL = "proof"
RULE = ("the full state matrix: repository {none, at the root, nested in the target dir} x state of the target file {clean, "
        "modified, staged, untracked, ignored} x fix kind {content fix, move to the package directory} x invocation {relative "
        "argument from the root, absolute argument, relative argument from a subdirectory} (+ a second, clean, fixable file), "
        "each as a real `git init` repository in a temp dir, `regal fix` (real binary, no --force); thorough: x file contents/"
        "layout variants. non-trivial = the target file is dirty or there is no repository; distinct = distinct scenario")
EXHAUSTIVE = True
TRUSTED = ["go-git Worktree.Status lists modified, staged and untracked files relative to the repository root",
           "os.Remove / os.WriteFile"]
ASSUMPTIONS = ["ignored files are not 'uncommitted changes' in the sense of the statement (recorded in the evidence histogram)"]

GIT = ["git", "-c", "user.email=v@v", "-c", "user.name=v", "-c", "init.defaultBranch=main", "-c", "commit.gpgsign=false"]


def sh(args, cwd):
    return subprocess.run(args, cwd=cwd, stdout=subprocess.PIPE, stderr=subprocess.STDOUT, text=True, timeout=60)


def snapshot(root):
    out = {}
    for d, dirs, files in os.walk(root):
        if ".git" in dirs:
            dirs.remove(".git")
        for f in files:
            p = os.path.join(d, f)
            out[os.path.relpath(p, root)] = hashlib.sha1(open(p, "rb").read()).hexdigest()
    return out


def build(tmp, k, repo, state, kind, variant):
    w = os.path.join(tmp, "s%d" % k, "w")
    os.makedirs(os.path.join(w, ".regal"))
    open(os.path.join(w, ".regal", "config.yaml"), "w").write("rules: {}\n")
    os.makedirs(os.path.join(w, "p"))
    os.makedirs(os.path.join(w, "q"))
    target_rel = "p/a.rego" if kind == "content" else "q/a.rego"
    body = "package p\n\n" + ("x = %d\n" % variant if kind == "content" else "x := %d\n" % variant)
    other = "package p\n\ny = 1\n"            # a second, clean, fixable file
    open(os.path.join(w, "p", "other.rego"), "w").write(other)
    tgt = os.path.join(w, target_rel)
    repo_root = None
    if repo != "none":
        repo_root = w if repo == "root" else os.path.dirname(tgt)
        if state in ("clean", "modified", "staged"):
            open(tgt, "w").write(body if state == "clean" else "package p\n\nold := 0\n")
        if state == "ignored":
            open(os.path.join(repo_root, ".gitignore"), "w").write("a.rego\n")
        sh(GIT + ["init", "-q", "."], repo_root)
        sh(GIT + ["add", "-A"], repo_root)
        sh(GIT + ["commit", "-q", "--allow-empty", "-m", "init"], repo_root)
        if state in ("modified", "staged", "untracked", "ignored"):
            open(tgt, "w").write(body)
        if state == "staged":
            sh(GIT + ["add", os.path.basename(tgt)], os.path.dirname(tgt))
    else:
        open(tgt, "w").write(body)
    return w, target_rel, repo_root


def run(ctx):
    regal = core.build_regal()
    scen = []
    variants = [1] if ctx.quick else list(range(1, 9))
    for repo in ("none", "root", "nested"):
        for state in ("clean", "modified", "staged", "untracked", "ignored"):
            if repo == "none" and state != "clean":
                continue
            for kind in ("content", "move"):
                for inv in ("rel-root", "abs", "rel-sub", "two-abs-other-repo", "abs-symlink"):
                    for v in variants:
                        scen.append((repo, state, kind, inv, v))
    with core.Scratch("verif-c14") as tmp:
        tmp = os.path.realpath(tmp)

        def one(args):
            k, (repo, state, kind, inv, v) = args
            w, target_rel, repo_root = build(tmp, k, repo, state, kind, v)
            view = w
            tdir = os.path.dirname(target_rel)
            if inv == "rel-root":
                cwd, arg = w, "."
            elif inv == "abs":
                cwd, arg = tmp, w
            elif inv == "rel-sub":
                cwd, arg = os.path.join(w, tdir), "."
            elif inv == "abs-symlink":
                # the workspace (and its repository) reached through a symbolic link: both path sets of the gate must be
                # in the same form, whichever it is
                view = os.path.join(tmp, "l%d" % k)
                os.symlink(w, view)
                # (the arguments are directories BELOW the link: a walk does not follow a link given as its root)
                cwd, arg = tmp, [os.path.join(view, "p"), os.path.join(view, "q")]
            else:
                # several path arguments, started from inside ANOTHER (clean) git repository
                cwd = os.path.join(tmp, "s%d" % k, "elsewhere")
                os.makedirs(cwd)
                open(os.path.join(cwd, "README"), "w").write("x\n")
                sh(GIT + ["init", "-q", "."], cwd)
                sh(GIT + ["add", "-A"], cwd)
                sh(GIT + ["commit", "-q", "-m", "init"], cwd)
                arg = [os.path.join(w, "p"), os.path.join(w, "q")]
            before = snapshot(w)
            p = subprocess.run([regal, "fix"] + (arg if isinstance(arg, list) else [arg]), cwd=cwd, stdout=subprocess.PIPE, stderr=subprocess.STDOUT, text=True,
                               timeout=120, env=dict(os.environ, NO_COLOR="1"))
            after = snapshot(w)
            return k, (repo, state, kind, inv, v), (w, view), target_rel, repo_root, cwd, arg, p.returncode, p.stdout[-600:], before, after
        with concurrent.futures.ThreadPoolExecutor(max_workers=12) as ex:
            results = list(ex.map(one, enumerate(scen)))
    mcases = []
    for (k, sc, (w0, w), target_rel, repo_root, cwd, arg, rc, out, before, after) in results:
        repo, state, kind, inv, v = sc
        # w0 = where the workspace is, w = the name the command reached it by (differs for abs-symlink): the model sees the
        # paths the command sees
        if repo_root and w != w0:
            repo_root = os.path.normpath(os.path.join(w, os.path.relpath(repo_root, w0)))
        dirty = state in ("modified", "staged", "untracked")
        tgt_abs = os.path.join(w, target_rel)
        # what the fixer wants to do (Env side: the fixes themselves): target fixed in place or moved to p/
        if inv == "rel-sub":
            # only the files under the sub directory are fixed
            scope = os.path.dirname(target_rel)
        else:
            scope = ""
        modified, deleted = [], []
        if kind == "content":
            modified.append(tgt_abs)
        else:
            modified.append(os.path.join(w, "p", "a.rego"))
            deleted.append(tgt_abs)
        if scope in ("", "p"):
            modified.append(os.path.join(w, "p", "other.rego"))
        git_dirs = [repo_root] if repo_root else []
        if isinstance(arg, list):
            arg_abs, nomodel = arg[0], False
        else:
            arg_abs, nomodel = os.path.normpath(os.path.join(cwd, arg)), False
        mcases.append({"id": k, "op": "c14.guard", "gitDirs": git_dirs, "argDir": arg_abs,
                       "argDirs": arg if isinstance(arg, list) else [],
                       "walkStop": "" if (isinstance(arg, list) or os.path.isabs(arg)) else cwd, "_nomodel": nomodel,
                       "status": [tgt_abs] if dirty else [], "modified": modified, "deleted": deleted,
                       "_w": w, "_sc": sc, "_rc": rc, "_out": out, "_before": before, "_after": after, "_target": target_rel})
    model = ctx.model(mcases)
    for c in mcases:
        repo, state, kind, inv, v = c["_sc"]
        mo = model[c["id"]].get("out") or {}
        dirty = state in ("modified", "staged", "untracked")
        changed = c["_before"] != c["_after"]
        desc = {"repo": repo, "file_state": state, "fix": kind, "invocation": inv, "variant": v, "exit": c["_rc"],
                "tree_changed": changed, "output": c["_out"]}
        ctx.seen(c, (repo, state, kind, inv, v) if (dirty or repo == "none") else None)
        ctx.count("%s/%s/%s/%s -> exit %d%s" % (repo, state, kind, inv, c["_rc"], " changed" if changed else ""))
        # --- the property itself, on the implementation
        tb, ta = c["_before"].get(c["_target"]), c["_after"].get(c["_target"])
        if repo == "none" and (c["_rc"] == 0 or changed):
            ctx.fail("fix ran outside a git repository without --force", desc, None, None)
        if dirty and tb != ta:
            ctx.fail("a file with uncommitted changes was modified, moved or deleted without --force", desc, None,
                     {"target": c["_target"], "before": tb, "after": ta})
        # every file that changed must lie inside the git repository the scenario created (git can restore it)
        if changed:
            root_rel = None if c["gitDirs"] == [] else os.path.relpath(c["gitDirs"][0], c["_w"])
            for f in sorted(set(c["_before"]) | set(c["_after"])):
                # (a file that did not exist before is not work that could be lost)
                if f in c["_before"] and c["_before"].get(f) != c["_after"].get(f):
                    inside = root_rel is not None and (root_rel == "." or f == root_rel or f.startswith(root_rel + "/"))
                    if not inside:
                        ctx.fail("an existing file outside of every git repository was modified or removed without --force", desc, None,
                                 {"file": f, "repository": root_rel})
                        break
        if c["_rc"] != 0 and changed:
            ctx.fail("fix refused (non-zero exit) but the tree changed", desc, None, None)
        if c["_nomodel"]:
            continue
        # --- correspondence with the guard model
        want_write = mo.get("outcome") == "write"
        nested_out_of_repo = False
        if want_write != (c["_rc"] == 0):
            ctx.brk("cmd/fix.go git gate ~ GitGuard.guard", desc, {"exit": c["_rc"]}, mo)
        if (c["_rc"] == 0) and not changed:
            ctx.brk("cmd/fix.go: exit 0 but nothing was fixed", desc, None, mo)
    ctx.sample({k: v for k, v in mcases[7].items() if k in ("_sc", "_rc", "_out")})


def replay(ctx, payload):
    run(ctx)
