"""C18 — nearest configuration wins; merging only overrides what the user set."""
import concurrent.futures
import itertools
import json
import os
import subprocess

from . import core, kernel

PID = "C18"
LEVEL = "proof"
RULE = ("(a) exhaustive: every placement of {nothing, .regal/ with config.yaml, .regal/ without, .regal.yaml, both} on chains of "
        "depth 1-4, searched from the deepest directory and from a file in it, through FindConfig on real temp directories "
        "(1 560 searches); (b) the real `regal lint` binary with a fake $HOME (user-level config present/absent) on chains of "
        "depth <= 3 where every config ignores a different always-firing rule, so the output reveals which file was used; "
        "(c) user configs built from the documented keys (levels, category/global defaults, per-rule options, ignore lists, "
        "project roots as string or object, capabilities plus/minus/from) merged over the real defaults and dumped/reloaded "
        "as YAML. non-trivial = a config exists on the chain / the user wrote something; distinct = distinct placement/config")
EXHAUSTIVE = True
TRUSTED = ["mergo.Merge WithOverride and yaml.v3 (libraries) — their effect is what (c) samples", "os / filepath"]
ASSUMPTIONS = []

STATES = [dict(regalDir=False, configYaml=False, regalYaml=False), dict(regalDir=True, configYaml=True, regalYaml=False),
          dict(regalDir=True, configYaml=False, regalYaml=False), dict(regalDir=False, configYaml=False, regalYaml=True),
          dict(regalDir=True, configYaml=True, regalYaml=True)]


def part_find(ctx):
    cases = []
    for depth in range(1, 5):
        for combo in itertools.product(STATES, repeat=depth):
            for from_file in (False, True):
                cases.append({"id": len(cases), "op": "c18.find", "levels": list(combo), "fromFile": from_file, "global": False})
            if depth <= 3 and any(l["regalDir"] or l["regalYaml"] for l in combo):
                # the same placement with the config directory / file linked into place from elsewhere
                cases.append({"id": len(cases), "op": "c18.find", "levels": list(combo), "fromFile": False, "global": False,
                              "symlinks": True})
    impl, model = ctx.impl(cases), ctx.model(cases)
    for c in cases:
        a, m = impl[c["id"]].get("out"), model[c["id"]].get("out") or {}
        nontriv = any(l["regalDir"] or l["regalYaml"] for l in c["levels"])
        ctx.seen(c, ("find", c["id"]) if nontriv else None)
        ctx.count("find:" + (a if isinstance(a, str) else a.get("kind", "?")))
        if a != m.get("find"):
            ctx.brk("config.go FindConfig/findUpwards ~ ConfigFind.findConfig", c, a, m.get("find"))
        # property: what FindConfig returns is the nearest config, or an error where the statement says error
        spec = m.get("spec")
        if isinstance(a, dict) and a != spec:
            ctx.fail("FindConfig returned a config that is not the one of the closest ancestor directory", c, None, {"impl": a, "spec": spec})
        if spec == "error" and not (isinstance(a, str) and a.startswith("err")):
            ctx.fail("both config kinds in the closest directory did not produce an error", c, None, {"impl": a})
    ctx.sample({"levels": cases[77]["levels"], "impl": impl[77].get("out")})


RULES = [("style", "todo-comment"), ("style", "line-length"), ("style", "no-whitespace-comment"),
         ("style", "use-assignment-operator"), ("style", "prefer-snake-case"), ("style", "opa-fmt"),
         ("idiomatic", "directory-package-mismatch")]
POLICY = "package Pkg\n\n#nospace\n# TODO x\n" + kernel.LONG + "\nx = 1\n"


def cfg_ignoring(rule):
    return "rules:\n  %s:\n    %s:\n      level: ignore\n" % rule


def part_e2e(ctx):
    rng = ctx.rng("e2e")
    regal = core.build_regal()
    combos = [c for d in (1, 2, 3) for c in itertools.product(range(5), repeat=d)]
    pick = rng.sample(combos, 36 if ctx.quick else len(combos))
    jobs = [(k, combo, g) for k, combo in enumerate(pick) for g in ((False, True) if k % 3 == 0 else (rng.random() < 0.5,))]
    with core.Scratch("verif-c18") as tmp:
        tmp = os.path.realpath(tmp)

        def one(job):
            k, combo, g = job
            base = os.path.join(tmp, "j%d_%d" % (k, g))
            home = os.path.join(base, "home")
            os.makedirs(home)
            if g:
                os.makedirs(os.path.join(home, ".config", "regal"))
                open(os.path.join(home, ".config", "regal", "config.yaml"), "w").write(cfg_ignoring(RULES[6]))
            n = len(combo)
            cur = os.path.join(base, "w")
            dirs = [None] * n
            for i in range(n - 1, -1, -1):
                cur = os.path.join(cur, "l%d" % i)
                dirs[i] = cur
            os.makedirs(dirs[0])
            for i, st in enumerate(combo):
                s = STATES[st]
                if s["regalDir"]:
                    os.makedirs(os.path.join(dirs[i], ".regal"))
                    if s["configYaml"]:
                        open(os.path.join(dirs[i], ".regal", "config.yaml"), "w").write(cfg_ignoring(RULES[2 * i]))
                if s["regalYaml"]:
                    open(os.path.join(dirs[i], ".regal.yaml"), "w").write(cfg_ignoring(RULES[2 * i + 1]))
            os.makedirs(os.path.join(dirs[0], "p"))
            open(os.path.join(dirs[0], "p", "a.rego"), "w").write(POLICY)
            p = subprocess.run([regal, "lint", "--format", "json", "p"], cwd=dirs[0], stdout=subprocess.PIPE,
                               stderr=subprocess.PIPE, text=True, timeout=120, env=dict(os.environ, HOME=home, NO_COLOR="1"))
            try:
                titles = {v["title"] for v in json.loads(p.stdout)["violations"]}
            except Exception:
                titles = None
            return job, p.returncode, titles, p.stderr[-300:]
        with concurrent.futures.ThreadPoolExecutor(max_workers=12) as ex:
            results = list(ex.map(one, jobs))
    mcases = [{"id": n, "op": "c18.find", "levels": [STATES[s] for s in combo], "global": g}
              for n, ((k, combo, g), rc, titles, err) in enumerate(results)]
    model = ctx.model(mcases)
    for n, ((k, combo, g), rc, titles, err) in enumerate(results):
        m = model[n].get("out") or {}
        desc = {"levels": [STATES[s] for s in combo], "global_config": g, "exit": rc, "stderr": err}
        ctx.seen(desc, ("e2e", combo, g) if any(combo) else None)
        if titles is None:
            used = "error"
        else:
            missing = [i for i, r in enumerate(RULES) if r[1] not in titles]
            if not missing:
                used = "defaults"
            elif missing == [6]:
                used = "global"
            elif len(missing) == 1:
                used = {"kind": "dir" if missing[0] % 2 == 0 else "file", "depth": missing[0] // 2}
            else:
                used = "several:%s" % missing
        ctx.count("e2e used=%s" % (used if isinstance(used, str) else used["kind"]))
        if used != m.get("used"):
            ctx.brk("regal lint config discovery (readUserConfig) ~ ConfigFind.configUsed", desc, used, m.get("used"))
        spec = m.get("spec")
        if used != spec:
            nearest = combo[0] if combo else 0
            finding = None
            first_cfg = next((s for s in combo if s != 0), 0)
            if spec == "error" and used in ("defaults", "global"):
                finding = "C18-conflict-swallowed"
            elif first_cfg == 2 and used in ("defaults", "global"):
                finding = "C18-empty-regal-dir-shadows"
            ctx.fail("the configuration used is not the one of the closest ancestor directory (or an error was swallowed)",
                     desc, finding, {"used": used, "spec": spec})
    ctx.sample({"part": "e2e", "levels": mcases[0]["levels"], "used": str(results[0][2])[:200]})


def gen_user_full(rng):
    user, _ = kernel.gen_user(rng, p_none=0.0)
    user.pop("capabilities", None)
    r = user["rules"]
    if rng.random() < 0.5:
        r.setdefault("style", {}).setdefault("line-length", {})["max-line-length"] = rng.choice([80, 100])
    if rng.random() < 0.4:
        r.setdefault("style", {}).setdefault("line-length", {})["non-breakable-word-threshold"] = 50
    if rng.random() < 0.4:
        r.setdefault("custom", {}).setdefault("naming-convention", {})["conventions"] = [{"pattern": "^[a-z]+$", "targets": ["rule"]}]
    if rng.random() < 0.4:
        user["project"] = {"roots": rng.choice([["foo"], [{"path": "foo", "rego-version": 1}], ["a", {"path": "b"}]])}
        if rng.random() < 0.5:
            user["project"]["rego-version"] = rng.choice([0, 1])
    caps = rng.random()
    if caps < 0.25:
        user["capabilities"] = {"minus": {"builtins": [{"name": "http.send"}]}}
    elif caps < 0.5:
        user["capabilities"] = {"from": {"engine": "opa", "version": "v0.58.0"}, "minus": {"builtins": [{"name": "http.send"}]}}
    elif caps < 0.6:
        user["capabilities"] = dict(kernel.NO_STRINGS_COUNT)
    return user


def part_merge(ctx):
    rng = ctx.rng("merge")
    cases = []
    for k in range(60 if ctx.quick else 1000):
        u = gen_user_full(rng)
        cases.append({"id": k, "op": "c18.merge", "user": u})
        cases.append({"id": "r%d" % k, "op": "c18.roundtrip", "user": u})
    impl = ctx.impl(cases)
    for c in cases:
        o = impl[c["id"]].get("out") or {}
        u = c["user"]
        ctx.seen(c, (c["op"], json.dumps(u, sort_keys=True)))
        if "error" in o:
            ctx.fail("loading / merging / reloading a documented configuration failed", c, None, o)
            continue
        if c["op"] == "c18.merge":
            d, m = o["default"], o["merged"]
            for cat, rs in d.items():
                for t, dr in rs.items():
                    mr = (m.get(cat) or {}).get(t)
                    if mr is None:
                        ctx.fail("a default rule disappeared from the merged configuration", c, None, {"rule": [cat, t]})
                        continue
                    ur = ((u["rules"].get(cat) or {}).get(t)) if isinstance(u["rules"].get(cat), dict) else None
                    for k, dv in dr.items():
                        if k in ("level", "ignore"):
                            continue
                        want = ur[k] if (isinstance(ur, dict) and k in ur) else dv
                        if mr.get(k) != want:
                            ctx.fail("merging changed an option the user did not write (or lost one the user wrote)", c, None,
                                     {"rule": [cat, t], "option": k, "merged": mr.get(k), "want": want})
                    if isinstance(ur, dict):
                        for k, uv in ur.items():
                            if k in ("level", "ignore"):
                                continue
                            if mr.get(k) != uv:
                                ctx.fail("an option written by the user is not in the merged configuration", c, None,
                                         {"rule": [cat, t], "option": k, "merged": mr.get(k), "user": uv})
        else:
            diff = o.get("diff") or []
            if diff:
                caps = u.get("capabilities") or {}
                finding = None
                if set(diff) <= {"capabilities", "capabilities_url"} and ("from" in caps or "minus" in caps or "plus" in caps):
                    finding = "C18-yaml-capabilities-lossy"
                ctx.fail("writing a loaded configuration out and loading it again gives a different configuration", c, finding,
                         {"differs_in": diff})
    ctx.sample({"part": "merge", "user": cases[0]["user"]})


def run(ctx):
    part_find(ctx)
    part_e2e(ctx)
    part_merge(ctx)
