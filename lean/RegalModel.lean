import RegalModel.Model.Glob
import RegalModel.Props.C05
