import RegalModel.Model.Kernel
/-! Helper lemmas about the merge of per-file results (closed forms, permutation invariance). -/
namespace RegalModel.Kernel
open List

/-! ### generic -/

theorem flatMap_perm_congr {α β} (l : List α) (f g : α → List β) (h : ∀ a ∈ l, f a ~ g a) :
    l.flatMap f ~ l.flatMap g := by
  induction l with
  | nil => simp
  | cons a l ih =>
    simp only [flatMap_cons]
    exact (h a (by simp)).append (ih fun b hb => h b (by simp [hb]))

/-! ### violations / notices: closed form of the fold -/

theorem foldl_merge_violations (frs : List FileResult) (r : RegoReport) :
    (frs.foldl merge r).violations = r.violations ++ frs.flatMap (·.violations) := by
  induction frs generalizing r with
  | nil => simp
  | cons fr frs ih => simp [ih, merge, List.append_assoc]

theorem foldl_merge_notices (frs : List FileResult) (r : RegoReport) :
    (frs.foldl merge r).notices = r.notices ++ frs.flatMap (·.notices) := by
  induction frs generalizing r with
  | nil => simp
  | cons fr frs ih => simp [ih, merge, List.append_assoc]

theorem mergeAll_violations (frs : List FileResult) :
    (mergeAll frs).violations = frs.flatMap (·.violations) := by
  simp [mergeAll, foldl_merge_violations]

theorem mergeAll_notices (frs : List FileResult) :
    (mergeAll frs).notices = frs.flatMap (·.notices) := by
  simp [mergeAll, foldl_merge_notices]

/-! ### aggregates -/

theorem aggLookup_aggInsert (m : List (String × List Agg)) (k k' : String) (es : List Agg) :
    aggLookup (aggInsert m k es) k' =
      if k' = k then some ((aggLookup m k').getD [] ++ es) else aggLookup m k' := by
  induction m with
  | nil =>
    by_cases h : k' = k
    · subst h; simp [aggInsert, aggLookup]
    · have h' : ¬ k = k' := fun e => h e.symm
      simp [aggInsert, aggLookup, h, h']
  | cons kv m ih =>
    obtain ⟨k0, es0⟩ := kv
    unfold aggInsert
    by_cases h0 : k0 = k
    · subst h0
      by_cases h : k' = k0
      · subst h; simp [aggLookup]
      · have h' : ¬ k0 = k' := fun e => h e.symm
        simp [aggLookup, h, h']
    · simp only [h0, if_false]
      by_cases h1 : k0 = k'
      · subst h1
        have : ¬ k0 = k := h0
        simp [aggLookup, this]
      · have e1 : aggLookup ((k0, es0) :: aggInsert m k es) k' = aggLookup (aggInsert m k es) k' := by
          simp [aggLookup, h1]
        have e2 : aggLookup ((k0, es0) :: m) k' = aggLookup m k' := by
          simp [aggLookup, h1]
        rw [e1, e2, ih]

/-- combine a base lookup with a list of later contributions `(key, entries)` for key `k` -/
def combine (base : Option (List Agg)) (contribs : List (String × List Agg)) (k : String) : Option (List Agg) :=
  let mine := contribs.filter (·.1 = k)
  if mine.isEmpty then base else some (base.getD [] ++ mine.flatMap (·.2))

theorem combine_nil (base : Option (List Agg)) (k : String) : combine base [] k = base := by
  simp [combine]

theorem combine_cons (base : Option (List Agg)) (kv : String × List Agg) (cs : List (String × List Agg)) (k : String) :
    combine base (kv :: cs) k =
      combine (if k = kv.1 then some (base.getD [] ++ kv.2) else base) cs k := by
  unfold combine
  by_cases h : kv.1 = k
  · subst h
    have hf : (kv :: cs).filter (fun x => decide (x.1 = kv.1)) = kv :: cs.filter (fun x => decide (x.1 = kv.1)) := by
      simp [List.filter_cons]
    rw [hf]
    generalize cs.filter (fun x => decide (x.1 = kv.1)) = fl
    cases fl with
    | nil => simp
    | cons a l => simp [List.append_assoc]
  · have h' : ¬ k = kv.1 := fun e => h e.symm
    have hf : (kv :: cs).filter (fun x => decide (x.1 = k)) = cs.filter (fun x => decide (x.1 = k)) := by
      simp [List.filter_cons, h]
    simp only [hf, h', if_false]

theorem foldl_aggInsert_lookup (cs : List (String × List Agg)) (m : List (String × List Agg)) (k : String) :
    aggLookup (cs.foldl (fun m kv => aggInsert m kv.1 kv.2) m) k = combine (aggLookup m k) cs k := by
  induction cs generalizing m with
  | nil => simp [combine_nil]
  | cons kv cs ih =>
    simp only [List.foldl_cons]
    rw [ih, combine_cons, aggLookup_aggInsert]

theorem combine_append (base : Option (List Agg)) (c1 c2 : List (String × List Agg)) (k : String) :
    combine (combine base c1 k) c2 k = combine base (c1 ++ c2) k := by
  induction c1 generalizing base with
  | nil => simp [combine_nil]
  | cons kv c1 ih => simp only [List.cons_append, combine_cons, ih]

theorem foldl_merge_aggregates (frs : List FileResult) (r : RegoReport) (k : String) :
    aggLookup (frs.foldl merge r).aggregates k = combine (aggLookup r.aggregates k) (frs.flatMap (·.aggregates)) k := by
  induction frs generalizing r with
  | nil => simp [combine_nil]
  | cons fr frs ih =>
    simp only [List.foldl_cons, List.flatMap_cons]
    rw [ih]
    have : aggLookup (merge r fr).aggregates k = combine (aggLookup r.aggregates k) fr.aggregates k := by
      simp [merge, foldl_aggInsert_lookup]
    rw [this, combine_append]

theorem mergeAll_aggregates (frs : List FileResult) (k : String) :
    aggLookup (mergeAll frs).aggregates k = combine none (frs.flatMap (·.aggregates)) k := by
  unfold mergeAll
  rw [foldl_merge_aggregates]
  simp [aggLookup]

/-- two option-lists are "the same bag" -/
def OptPerm (a b : Option (List Agg)) : Prop :=
  match a, b with
  | none, none => True
  | some x, some y => x ~ y
  | _, _ => False

theorem OptPerm.refl (a : Option (List Agg)) : OptPerm a a := by
  cases a <;> simp [OptPerm]

theorem combine_perm (c1 c2 : List (String × List Agg)) (h : c1 ~ c2) (k : String) :
    OptPerm (combine none c1 k) (combine none c2 k) := by
  unfold combine
  have hf : c1.filter (·.1 = k) ~ c2.filter (·.1 = k) := h.filter _
  have he : (c1.filter (·.1 = k)).isEmpty = (c2.filter (·.1 = k)).isEmpty := by
    have := hf.length_eq
    cases h1 : c1.filter (·.1 = k) <;> cases h2 : c2.filter (·.1 = k) <;> simp_all
  simp only [he]
  split
  · simp [OptPerm]
  · simp only [OptPerm, Option.getD_none, List.nil_append]
    exact hf.flatMap_right _

theorem mergeAll_aggregates_perm (frs frs' : List FileResult) (h : frs ~ frs') (k : String) :
    OptPerm (aggLookup (mergeAll frs).aggregates k) (aggLookup (mergeAll frs').aggregates k) := by
  rw [mergeAll_aggregates, mergeAll_aggregates]
  exact combine_perm _ _ (h.flatMap_right _) k

/-! ### directives -/

theorem dirLookup_dirInsert (m : List (Glob.Str × Directives)) (k k' : Glob.Str) (d : Directives) :
    dirLookup (dirInsert m k d) k' = if k' = k then d else dirLookup m k' := by
  induction m with
  | nil =>
    by_cases h : k' = k
    · subst h; simp [dirInsert, dirLookup]
    · have h' : ¬ k = k' := fun e => h e.symm
      simp [dirInsert, dirLookup, h, h']
  | cons kv m ih =>
    obtain ⟨k0, d0⟩ := kv
    unfold dirInsert
    by_cases h0 : k0 = k
    · subst h0
      by_cases h : k' = k0
      · subst h; simp [dirLookup]
      · have h' : ¬ k0 = k' := fun e => h e.symm
        simp [dirLookup, h, h']
    · simp only [h0, if_false]
      by_cases h1 : k0 = k'
      · subst h1
        have : ¬ k0 = k := h0
        simp [dirLookup, this]
      · have e1 : dirLookup ((k0, d0) :: dirInsert m k d) k' = dirLookup (dirInsert m k d) k' := by
          simp [dirLookup, h1]
        have e2 : dirLookup ((k0, d0) :: m) k' = dirLookup m k' := by
          simp [dirLookup, h1]
        rw [e1, e2, ih]

/-- with distinct file names the stored directives of a file are that file's, whatever the order -/
theorem foldl_merge_directives (frs : List FileResult) (r : RegoReport) (name : Glob.Str)
    (hn : (frs.map (·.name)).Nodup) :
    dirLookup (frs.foldl merge r).directives name =
      match frs.find? (·.name = name) with
      | some fr => fr.directives
      | none => dirLookup r.directives name := by
  induction frs generalizing r with
  | nil => simp
  | cons fr frs ih =>
    simp only [List.map_cons, List.nodup_cons] at hn
    simp only [List.foldl_cons]
    rw [ih _ hn.2]
    by_cases h : fr.name = name
    · subst h
      have : frs.find? (fun x => decide (x.name = fr.name)) = none := by
        rw [List.find?_eq_none]
        intro x hx
        have : x.name ≠ fr.name := fun e => hn.1 (by rw [← e]; exact List.mem_map_of_mem hx)
        simp [this]
      simp [this, merge, dirLookup_dirInsert]
    · have h' : ¬ name = fr.name := fun e => h e.symm
      simp only [List.find?_cons, h, decide_false]
      cases frs.find? (fun x => decide (x.name = name)) with
      | some x => rfl
      | none => simp [merge, dirLookup_dirInsert, h']

theorem name_inj_of_nodup (frs : List FileResult) (hn : (frs.map (·.name)).Nodup) (a b : FileResult)
    (ha : a ∈ frs) (hb : b ∈ frs) (hab : a.name = b.name) : a = b := by
  induction frs with
  | nil => cases ha
  | cons x frs ih =>
    simp only [List.map_cons, List.nodup_cons] at hn
    simp only [List.mem_cons] at ha hb
    rcases ha with rfl | ha <;> rcases hb with rfl | hb
    · rfl
    · exact absurd (by rw [hab]; exact List.mem_map_of_mem hb) hn.1
    · exact absurd (by rw [← hab]; exact List.mem_map_of_mem ha) hn.1
    · exact ih hn.2 ha hb

theorem find_perm_nodup (frs frs' : List FileResult) (h : frs ~ frs') (hn : (frs.map (·.name)).Nodup)
    (name : Glob.Str) :
    (frs.find? (·.name = name)).map (·.directives) = (frs'.find? (·.name = name)).map (·.directives) := by
  have hn' : (frs'.map (·.name)).Nodup := (h.map _).nodup_iff.1 hn
  -- both finds return the unique element with that name (if any)
  cases h1 : frs.find? (·.name = name) with
  | none =>
    have : frs'.find? (·.name = name) = none := by
      rw [List.find?_eq_none] at h1 ⊢
      intro x hx; exact h1 x (h.mem_iff.2 hx)
    simp [this]
  | some a =>
    have ha := List.find?_some h1
    have ham := List.mem_of_find?_eq_some h1
    cases h2 : frs'.find? (·.name = name) with
    | none =>
      rw [List.find?_eq_none] at h2
      exact absurd ha (h2 a (h.mem_iff.1 ham))
    | some b =>
      have hb := List.find?_some h2
      have hbm := h.mem_iff.2 (List.mem_of_find?_eq_some h2)
      simp only [decide_eq_true_eq] at ha hb
      -- a and b are both in frs with the same name; names are distinct ⇒ a = b
      have : a = b := name_inj_of_nodup frs hn a b ham hbm (by rw [ha, hb])
      simp [this]

theorem mergeAll_directives_perm (frs frs' : List FileResult) (h : frs ~ frs')
    (hn : (frs.map (·.name)).Nodup) (name : Glob.Str) :
    dirLookup (mergeAll frs).directives name = dirLookup (mergeAll frs').directives name := by
  have hn' : (frs'.map (·.name)).Nodup := (h.map _).nodup_iff.1 hn
  unfold mergeAll
  rw [foldl_merge_directives _ _ _ hn, foldl_merge_directives _ _ _ hn']
  have := find_perm_nodup frs frs' h hn name
  cases h1 : frs.find? (·.name = name) <;> cases h2 : frs'.find? (·.name = name) <;> simp_all

/-! ### de-duplication -/

theorem dedup_foldl_mem {α} [DecidableEq α] (ns acc : List α) (n : α) :
    n ∈ ns.foldl (fun acc n => if n ∈ acc then acc else acc ++ [n]) acc ↔ n ∈ acc ∨ n ∈ ns := by
  induction ns generalizing acc with
  | nil => simp
  | cons a ns ih =>
    simp only [List.foldl_cons, List.mem_cons]
    rw [ih]
    by_cases h : a ∈ acc
    · simp only [h, if_true]
      constructor
      · rintro (h1 | h1); exact Or.inl h1; exact Or.inr (Or.inr h1)
      · rintro (h1 | h1 | h1)
        · exact Or.inl h1
        · subst h1; exact Or.inl h
        · exact Or.inr h1
    · simp only [h, if_false, List.mem_append, List.mem_singleton]
      constructor
      · rintro ((h1 | h1) | h1)
        · exact Or.inl h1
        · exact Or.inr (Or.inl h1)
        · exact Or.inr (Or.inr h1)
      · rintro (h1 | h1 | h1)
        · exact Or.inl (Or.inl h1)
        · exact Or.inl (Or.inr h1)
        · exact Or.inr h1

theorem dedup_foldl_nodup {α} [DecidableEq α] (ns acc : List α) (h : acc.Nodup) :
    (ns.foldl (fun acc n => if n ∈ acc then acc else acc ++ [n]) acc).Nodup := by
  induction ns generalizing acc with
  | nil => simpa
  | cons a ns ih =>
    simp only [List.foldl_cons]
    apply ih
    by_cases h1 : a ∈ acc
    · simp [h1, h]
    · simp only [h1, if_false]
      rw [List.nodup_append]
      refine ⟨h, by simp, ?_⟩
      intro x hx y hy
      simp only [List.mem_singleton] at hy
      subst hy
      intro e; subst e; exact h1 hx

theorem dedup_mem {α} [DecidableEq α] (ns : List α) (n : α) : n ∈ dedup ns ↔ n ∈ ns := by
  simp [dedup, dedup_foldl_mem]

theorem dedup_nodup {α} [DecidableEq α] (ns : List α) : (dedup ns).Nodup := by
  simp [dedup, dedup_foldl_nodup]

theorem dedup_perm {α} [DecidableEq α] (ns ns' : List α) (h : ns ~ ns') : dedup ns ~ dedup ns' := by
  rw [List.perm_ext_iff_of_nodup (dedup_nodup _) (dedup_nodup _)]
  intro a
  rw [dedup_mem, dedup_mem]
  exact h.mem_iff

theorem dedupNotices_mem (ns : List Notice) (n : Notice) : n ∈ dedupNotices ns ↔ n ∈ ns := dedup_mem ns n
theorem dedupNotices_nodup (ns : List Notice) : (dedupNotices ns).Nodup := dedup_nodup ns
theorem dedupNotices_perm (ns ns' : List Notice) (h : ns ~ ns') : dedupNotices ns ~ dedupNotices ns' :=
  dedup_perm ns ns' h

end RegalModel.Kernel
