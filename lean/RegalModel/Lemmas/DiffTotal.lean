import RegalModel.Lemmas.DiffBack
/-!
Totality of the forward search: `shortestEditSequence` reaches (M, N) within M+N rounds, so `operations` /
`ComputeEdits` always return (in Go: the search never falls through to `return nil, 0`, after which
`operations` would index a nil trace).

The argument is Myers' "furthest reaching" reasoning restricted to what is needed:
* `P1`  every entry dominates the candidates of its processed neighbours in the previous round,
* chains of right / down candidates give the lower bound  V_{M+N}(M-N) ≥ M,
* no entry of a round that did not finish lies weakly beyond (M, N) (`no_bad`): an entry strictly right of the
  grid remembers that column M was reached earlier on its row (`I1`), symmetrically below the grid (`I2`).
-/
namespace RegalModel.Diff
open List

variable {α : Type} [DecidableEq α]

/-- the finishing test of `stepK` -/
def FinAt (a b : List α) (x k : Int) : Prop := x = a.length ∧ x - k = b.length

/-- when the inner loop reports "not finished", no processed diagonal satisfied the finishing test -/
theorem rowLoop_nofin (a b : List α) (d : Nat) (vin : V) (fuel i : Nat) (v : V)
    (hr : Round a b d i vin v) (hi : i ≤ d + 1) (hf : d + 1 ≤ fuel + i)
    (hfalse : (rowLoop a b d fuel i v).2 = false) :
    ∀ t : Nat, i ≤ t → t < d + 1 → ¬ FinAt a b (newX a b vin d (-(d : Int) + 2 * t)) (-(d : Int) + 2 * t) := by
  induction fuel generalizing i v with
  | zero => intro t h1 h2; omega
  | succ f ih =>
    unfold rowLoop at hfalse
    by_cases hk : (-(d : Int) + 2 * (i : Int)) > d
    · intro t h1 h2; omega
    · simp only [hk, if_false] at hfalse
      have hstep := round_step a b d i vin v hr
      have hk1 : v (-(d : Int) + 2 * i - 1) = vin (-(d : Int) + 2 * i - 1) := by
        rw [hr]; have : ¬ procd d i (-(d : Int) + 2 * i - 1) := by rintro ⟨s, _, hs⟩; omega
        simp [this]
      have hk2 : v (-(d : Int) + 2 * i + 1) = vin (-(d : Int) + 2 * i + 1) := by
        rw [hr]; have : ¬ procd d i (-(d : Int) + 2 * i + 1) := by rintro ⟨s, _, hs⟩; omega
        simp [this]
      cases hfin : (stepK a b v d (-(d : Int) + 2 * i)).2 with
      | true => simp [hfin] at hfalse
      | false =>
        simp only [hfin, Bool.false_eq_true, if_false] at hfalse
        have hrest := ih (i + 1) _ hstep (by omega) (by omega) hfalse
        intro t h1 h2
        by_cases hti : t = i
        · subst hti
          have hsnd := stepK_snd a b v d (-(d : Int) + 2 * t)
          rw [hfin] at hsnd
          have := of_decide_eq_false hsnd.symm
          rw [newX_congr a b v vin d _ hk1 hk2] at this
          exact this
        · exact hrest t (by omega) h2

/-- all rounds in `trace` are complete and none reached (M, N) -/
def CompleteNoFin (a b : List α) (trace : List V) : Prop :=
  ∀ d, d < trace.length → ∃ v, trace[d]? = some v ∧ Round a b d (d + 1) (prevV trace d) v ∧
    ∀ k, procd d (d + 1) k → ¬ FinAt a b (v k) k

theorem completeNoFin_snoc (a b : List α) (acc : List V) (w : V) (h : CompleteNoFin a b acc)
    (hr : Round a b acc.length (acc.length + 1) (prevV acc acc.length) w)
    (hn : ∀ k, procd acc.length (acc.length + 1) k → ¬ FinAt a b (w k) k) :
    CompleteNoFin a b (acc ++ [w]) := by
  intro d hd
  simp only [List.length_append, List.length_singleton] at hd
  by_cases hlt : d < acc.length
  · obtain ⟨v, hv, h1, h2⟩ := h d hlt
    refine ⟨v, by rw [List.getElem?_append_left hlt]; exact hv, ?_, h2⟩
    rw [prevV_append _ _ _ (by omega)]; exact h1
  · have : d = acc.length := by omega
    subst this
    refine ⟨w, by rw [List.getElem?_append_right (by omega)]; simp, ?_, hn⟩
    rw [prevV_append _ _ _ (by omega)]; exact hr

/-- if the outer loop gives up, it has produced `fuel` further complete rounds none of which finished -/
theorem sesLoop_none (a b : List α) (fuel d : Nat) (v : V) (acc : List V)
    (hlen : acc.length = d) (hv : v = prevV acc d) (hinv : CompleteNoFin a b acc)
    (h : sesLoop a b fuel d v acc = none) :
    ∃ trace, trace.length = d + fuel ∧ CompleteNoFin a b trace := by
  induction fuel generalizing d v acc with
  | zero => exact ⟨acc, by omega, hinv⟩
  | succ f ih =>
    unfold sesLoop at h
    obtain ⟨n, _, _, hround, _, hfinF⟩ := rowLoop_spec a b d v (d + 1) 0 v (round_zero a b d v) (by omega) (by omega)
    cases hfin : (rowLoop a b d (d + 1) 0 v).2 with
    | true => simp [hfin] at h
    | false =>
      simp only [hfin, Bool.false_eq_true, if_false] at h
      have hn : n = d + 1 := hfinF hfin
      subst hn
      have hnf := rowLoop_nofin a b d v (d + 1) 0 v (round_zero a b d v) (by omega) (by omega) hfin
      have hcnf : CompleteNoFin a b (acc ++ [(rowLoop a b d (d + 1) 0 v).1]) := by
        apply completeNoFin_snoc a b acc _ hinv
        · rw [hlen, ← hv]; exact hround
        · rw [hlen]
          rintro k ⟨t, ht, rfl⟩
          have := hnf t (by omega) ht
          rw [hround _]
          have hp : procd d (d + 1) (-(d : Int) + 2 * t) := ⟨t, ht, rfl⟩
          simp only [hp, if_true]
          exact this
      obtain ⟨trace, hl, hc⟩ := ih (d + 1) _ (acc ++ [(rowLoop a b d (d + 1) 0 v).1]) (by simp [hlen]) (by
        simp only [prevV]
        rw [List.getElem?_append_right (by omega)]; simp [hlen]) hcnf h
      exact ⟨trace, by omega, hc⟩

/-! ### facts about a complete, unfinished prefix of rounds -/

/-- the array after round `d` -/
def W (trace : List V) (d : Nat) : V := (trace[d]?).getD Vinit

theorem prevV_succ (trace : List V) (d : Nat) : prevV trace (d + 1) = W trace d := rfl

theorem cnf_traceInv (a b : List α) (trace : List V) (h : CompleteNoFin a b trace) :
    TraceInv a b trace trace.length := by
  intro d hd
  obtain ⟨v, hv, hr, _⟩ := h d hd
  refine ⟨v, hv, ?_⟩
  have : (if d + 1 < trace.length then d + 1 else trace.length) = d + 1 := by
    split <;> omega
  rw [this]; exact hr

theorem cnf_W (a b : List α) (trace : List V) (h : CompleteNoFin a b trace) (d : Nat) (hd : d < trace.length) :
    trace[d]? = some (W trace d) ∧ Round a b d (d + 1) (prevV trace d) (W trace d) ∧
      ∀ k, procd d (d + 1) k → ¬ FinAt a b (W trace d k) k := by
  obtain ⟨v, hv, hr, hn⟩ := h d hd
  have : W trace d = v := by simp [W, hv]
  rw [this]; exact ⟨hv, hr, hn⟩

/-- processed entries are points of the non-negative quadrant -/
theorem cnf_lb (a b : List α) (trace : List V) (h : CompleteNoFin a b trace) (d : Nat) (hd : d < trace.length)
    (k : Int) (hk : procd d (d + 1) k) : 0 ≤ W trace d k ∧ k ≤ W trace d k := by
  have hw := (cnf_W a b trace h d hd).1
  have hn : nOf trace.length trace.length d = d + 1 := by unfold nOf; split <;> omega
  exact trace_lower_bounds a b trace trace.length (cnf_traceInv a b trace h) (Nat.le_refl _) d hd _ hw k (by rw [hn]; exact hk)

theorem slideAt_le (a b : List α) (x y : Int) (hx : 0 ≤ x) (hy : 0 ≤ y) :
    (slideAt a b x y : Int) ≤ a.length - x ∨ (a.length : Int) < x := by
  by_cases h : (a.length : Int) < x
  · exact Or.inr h
  · left
    unfold slideAt
    rw [if_pos ⟨hx, hy⟩]
    have := (slide_le (a.drop x.toNat) (b.drop y.toNat)).1
    simp only [List.length_drop] at this
    omega

theorem slideAt_le_b (a b : List α) (x y : Int) (hx : 0 ≤ x) (hy : 0 ≤ y) :
    (slideAt a b x y : Int) ≤ b.length - y ∨ (b.length : Int) < y := by
  by_cases h : (b.length : Int) < y
  · exact Or.inr h
  · left
    unfold slideAt
    rw [if_pos ⟨hx, hy⟩]
    have := (slide_le (a.drop x.toNat) (b.drop y.toNat)).2
    simp only [List.length_drop] at this
    omega

theorem slideAt_zero_of_ge (a b : List α) (x y : Int) (h : (a.length : Int) ≤ x ∨ (b.length : Int) ≤ y) :
    slideAt a b x y = 0 := by
  unfold slideAt
  split
  · rename_i hxy
    rcases h with h | h
    · have : a.drop x.toNat = [] := List.drop_eq_nil_of_le (by omega)
      rw [this]; simp [slide]
    · have : b.drop y.toNat = [] := List.drop_eq_nil_of_le (by omega)
      rw [this]
      cases a.drop x.toNat <;> simp [slide]
  · rfl

/-- the value of a processed entry of round d+1: start point chosen from round d, plus the slide -/
theorem entry_eq (a b : List α) (trace : List V) (h : CompleteNoFin a b trace) (d : Nat) (hd : d + 1 < trace.length)
    (k : Int) (hk : procd (d + 1) (d + 2) k) :
    W trace (d + 1) k = startX (W trace d) ((d + 1 : Nat) : Int) k +
      slideAt a b (startX (W trace d) ((d + 1 : Nat) : Int) k) (startX (W trace d) ((d + 1 : Nat) : Int) k - k) := by
  have hr := (cnf_W a b trace h (d + 1) hd).2.1
  rw [prevV_succ] at hr
  rw [hr k]
  simp only [hk, if_true]
  rfl

/-- the start point of a processed diagonal of round d+1 comes from a processed neighbour of round d -/
theorem start_from_prev (trace : List V) (d : Nat) (k : Int) (hk : procd (d + 1) (d + 2) k) :
    (procd d (d + 1) (k + 1) ∧ startX (W trace d) ((d + 1 : Nat) : Int) k = W trace d (k + 1)) ∨
    (procd d (d + 1) (k - 1) ∧ startX (W trace d) ((d + 1 : Nat) : Int) k = W trace d (k - 1) + 1) := by
  have := kprev_procd (W trace d) d (d + 2) k (Nat.le_refl _) hk
  unfold startX
  by_cases hg : goesDown (W trace d) ((d + 1 : Nat) : Int) k = true
  · simp only [hg, if_true] at this ⊢
    exact Or.inl ⟨this, trivial⟩
  · simp only [hg, Bool.false_eq_true, if_false] at this ⊢
    exact Or.inr ⟨this, trivial⟩

/-- **P1**: an entry dominates both candidates offered by the previous round -/
theorem entry_ge_right (a b : List α) (trace : List V) (h : CompleteNoFin a b trace) (d : Nat) (hd : d + 1 < trace.length)
    (k : Int) (hk : procd d (d + 1) k) :
    procd (d + 1) (d + 2) (k + 1) ∧ W trace d k + 1 ≤ W trace (d + 1) (k + 1) := by
  obtain ⟨t, ht, rfl⟩ := hk
  have hp : procd (d + 1) (d + 2) (-(d : Int) + 2 * t + 1) := ⟨t + 1, by omega, by push_cast; omega⟩
  refine ⟨hp, ?_⟩
  rw [entry_eq a b trace h d hd _ hp]
  have hs : W trace d (-(d : Int) + 2 * t) + 1 ≤ startX (W trace d) ((d + 1 : Nat) : Int) (-(d : Int) + 2 * t + 1) := by
    unfold startX
    by_cases hg : goesDown (W trace d) ((d + 1 : Nat) : Int) (-(d : Int) + 2 * t + 1) = true
    · simp only [hg, if_true]
      unfold goesDown at hg
      simp only [Bool.or_eq_true, decide_eq_true_eq, Bool.and_eq_true, bne_iff_ne, ne_eq] at hg
      rcases hg with hg | hg
      · push_cast at hg; omega
      · have h2 := hg.2
        have e : (-(d : Int) + 2 * t + 1 - 1) = -(d : Int) + 2 * t := by omega
        rw [e] at h2
        omega
    · simp only [hg, Bool.false_eq_true, if_false]
      have e : (-(d : Int) + 2 * t + 1 - 1) = -(d : Int) + 2 * t := by omega
      rw [e]
      exact Int.le_refl _
  omega

theorem entry_ge_down (a b : List α) (trace : List V) (h : CompleteNoFin a b trace) (d : Nat) (hd : d + 1 < trace.length)
    (k : Int) (hk : procd d (d + 1) k) :
    procd (d + 1) (d + 2) (k - 1) ∧ W trace d k ≤ W trace (d + 1) (k - 1) := by
  obtain ⟨t, ht, rfl⟩ := hk
  have hp : procd (d + 1) (d + 2) (-(d : Int) + 2 * t - 1) := ⟨t, by omega, by push_cast; omega⟩
  refine ⟨hp, ?_⟩
  rw [entry_eq a b trace h d hd _ hp]
  have hs : W trace d (-(d : Int) + 2 * t) ≤ startX (W trace d) ((d + 1 : Nat) : Int) (-(d : Int) + 2 * t - 1) := by
    unfold startX
    have e : (-(d : Int) + 2 * t - 1 + 1) = -(d : Int) + 2 * t := by omega
    by_cases hg : goesDown (W trace d) ((d + 1 : Nat) : Int) (-(d : Int) + 2 * t - 1) = true
    · simp only [hg, if_true]
      rw [e]; exact Int.le_refl _
    · simp only [hg, Bool.false_eq_true, if_false]
      unfold goesDown at hg
      simp only [Bool.or_eq_true, decide_eq_true_eq, Bool.and_eq_true, bne_iff_ne, ne_eq, not_or, not_and, Int.not_lt] at hg
      have h2 := hg.2 (by push_cast; omega)
      rw [e] at h2
      omega
  omega

/-! ### chains of candidates and the lower bound on diagonal M - N -/

theorem right_chain (a b : List α) (trace : List V) (h : CompleteNoFin a b trace) (r : Nat) (k x : Int)
    (hk : procd r (r + 1) k) (hx : x ≤ W trace r k) :
    ∀ t : Nat, r + t < trace.length → procd (r + t) (r + t + 1) (k + t) ∧ x + t ≤ W trace (r + t) (k + t) := by
  intro t
  induction t with
  | zero => intro _; simpa using ⟨hk, hx⟩
  | succ t ih =>
    intro hlen
    obtain ⟨hp, hv⟩ := ih (by omega)
    obtain ⟨hp', hv'⟩ := entry_ge_right a b trace h (r + t) (by omega) _ hp
    have e : k + (t : Int) + 1 = k + ((t + 1 : Nat) : Int) := by push_cast; omega
    rw [e] at hp' hv'
    have e2 : r + (t + 1) = r + t + 1 := by omega
    rw [e2]
    exact ⟨hp', by push_cast at hv' ⊢; omega⟩

theorem down_chain (a b : List α) (trace : List V) (h : CompleteNoFin a b trace) (r : Nat) (k x : Int)
    (hk : procd r (r + 1) k) (hx : x ≤ W trace r k) :
    ∀ t : Nat, r + t < trace.length → procd (r + t) (r + t + 1) (k - t) ∧ x ≤ W trace (r + t) (k - t) := by
  intro t
  induction t with
  | zero => intro _; simpa using ⟨hk, hx⟩
  | succ t ih =>
    intro hlen
    obtain ⟨hp, hv⟩ := ih (by omega)
    obtain ⟨hp', hv'⟩ := entry_ge_down a b trace h (r + t) (by omega) _ hp
    have e : k - (t : Int) - 1 = k - ((t + 1 : Nat) : Int) := by push_cast; omega
    rw [e] at hp' hv'
    have e2 : r + (t + 1) = r + t + 1 := by omega
    rw [e2]
    exact ⟨hp', by omega⟩

/-- deleting all of `a` and then inserting all of `b` is a candidate: after M + N rounds diagonal M - N has x ≥ M -/
theorem lower_bound_end (a b : List α) (trace : List V) (h : CompleteNoFin a b trace)
    (hlen : a.length + b.length < trace.length) :
    procd (a.length + b.length) (a.length + b.length + 1) ((a.length : Int) - b.length) ∧
      (a.length : Int) ≤ W trace (a.length + b.length) ((a.length : Int) - b.length) := by
  have h0 : procd 0 (0 + 1) 0 := ⟨0, by omega, by simp⟩
  have hlb := (cnf_lb a b trace h 0 (by omega) 0 h0).1
  obtain ⟨p1, v1⟩ := right_chain a b trace h 0 0 0 h0 hlb a.length (by omega)
  simp only [Nat.zero_add, Int.zero_add] at p1 v1
  obtain ⟨p2, v2⟩ := down_chain a b trace h a.length _ _ p1 v1 b.length (by omega)
  exact ⟨p2, v2⟩

/-! ### entries outside the grid remember where they left it -/

theorem entry_zero (a b : List α) (trace : List V) (h : CompleteNoFin a b trace) (hd : 0 < trace.length) :
    W trace 0 0 = slideAt a b 0 0 := by
  have hr := (cnf_W a b trace h 0 hd).2.1
  have hp : procd 0 (0 + 1) 0 := ⟨0, by omega, by simp⟩
  rw [hr 0]
  simp only [hp, if_true]
  have hs : startX (prevV trace 0) ((0 : Nat) : Int) 0 = 0 := by
    simp [startX, goesDown, prevV, Vinit]
  unfold newX
  rw [hs]; simp

theorem procd_zero (k : Int) (h : procd 0 (0 + 1) k) : k = 0 := by
  obtain ⟨t, ht, rfl⟩ := h
  have : t = 0 := by omega
  subst this; simp

/-- start point of a processed diagonal of round d+1 with its provenance and non-negativity -/
theorem start_cases (a b : List α) (trace : List V) (h : CompleteNoFin a b trace) (d : Nat) (hd : d + 1 < trace.length)
    (k : Int) (hk : procd (d + 1) (d + 2) k) :
    ∃ x0 : Int, W trace (d + 1) k = x0 + slideAt a b x0 (x0 - k) ∧ 0 ≤ x0 ∧ 0 ≤ x0 - k ∧
      ((procd d (d + 1) (k + 1) ∧ x0 = W trace d (k + 1)) ∨ (procd d (d + 1) (k - 1) ∧ x0 = W trace d (k - 1) + 1)) := by
  refine ⟨startX (W trace d) ((d + 1 : Nat) : Int) k, entry_eq a b trace h d hd k hk, ?_⟩
  rcases start_from_prev trace d k hk with ⟨hp, he⟩ | ⟨hp, he⟩
  · have := cnf_lb a b trace h d (by omega) _ hp
    rw [he]
    exact ⟨by omega, by omega, Or.inl ⟨hp, rfl⟩⟩
  · have := cnf_lb a b trace h d (by omega) _ hp
    rw [he]
    exact ⟨by omega, by omega, Or.inr ⟨hp, rfl⟩⟩

/-- **I1**: an entry strictly right of the grid at round d on row y implies that column M was reached on row y
`x - M` rounds earlier -/
theorem right_of_grid (a b : List α) (trace : List V) (h : CompleteNoFin a b trace) :
    ∀ d, d < trace.length → ∀ k, procd d (d + 1) k → (a.length : Int) < W trace d k →
      ∃ r : Nat, (r : Int) = d - (W trace d k - a.length) ∧
        procd r (r + 1) (a.length - (W trace d k - k)) ∧ (a.length : Int) ≤ W trace r (a.length - (W trace d k - k)) := by
  intro d
  induction d with
  | zero =>
    intro hd k hk hgt
    have := procd_zero k hk
    subst this
    rw [entry_zero a b trace h hd] at hgt
    rcases slideAt_le a b 0 0 (by omega) (by omega) with h1 | h1 <;> omega
  | succ d ih =>
    intro hd k hk hgt
    obtain ⟨x0, he, hx0, hy0, hprev⟩ := start_cases a b trace h d hd k hk
    have hM : (a.length : Int) < x0 := by
      rcases slideAt_le a b x0 (x0 - k) hx0 hy0 with h1 | h1
      · omega
      · exact h1
    have hs : slideAt a b x0 (x0 - k) = 0 := slideAt_zero_of_ge a b _ _ (Or.inl (by omega))
    rw [hs] at he
    have hx : W trace (d + 1) k = x0 := by omega
    rw [hx]
    rcases hprev with ⟨hp, hv⟩ | ⟨hp, hv⟩
    · -- down from (x0, y - 1) on diagonal k + 1
      obtain ⟨r', hr', hpr, hvr⟩ := ih (by omega) (k + 1) hp (by omega)
      rw [← hv] at hr' hpr hvr
      have hr1 : r' + 1 < trace.length := by omega
      obtain ⟨hp2, hv2⟩ := entry_ge_down a b trace h r' hr1 _ hpr
      refine ⟨r' + 1, by push_cast; omega, ?_, ?_⟩
      · have e : (a.length : Int) - (x0 - (k + 1)) - 1 = a.length - (x0 - k) := by omega
        rw [e] at hp2; exact hp2
      · have e : (a.length : Int) - (x0 - (k + 1)) - 1 = a.length - (x0 - k) := by omega
        rw [e] at hv2; omega
    · -- right from (x0 - 1, y) on diagonal k - 1
      by_cases hgt' : (a.length : Int) < W trace d (k - 1)
      · obtain ⟨r', hr', hpr, hvr⟩ := ih (by omega) (k - 1) hp hgt'
        have e : (a.length : Int) - (W trace d (k - 1) - (k - 1)) = a.length - (x0 - k) := by omega
        rw [e] at hpr hvr
        exact ⟨r', by omega, hpr, hvr⟩
      · have hx' : W trace d (k - 1) = a.length := by omega
        refine ⟨d, by push_cast; omega, ?_, ?_⟩
        · have e : (a.length : Int) - (x0 - k) = k - 1 := by omega
          rw [e]; exact hp
        · have e : (a.length : Int) - (x0 - k) = k - 1 := by omega
          rw [e]; omega

/-- **I2**: an entry strictly below the grid at round d in column x implies that row N was reached in column x
`y - N` rounds earlier -/
theorem below_grid (a b : List α) (trace : List V) (h : CompleteNoFin a b trace) :
    ∀ d, d < trace.length → ∀ k, procd d (d + 1) k → (b.length : Int) < W trace d k - k →
      ∃ r : Nat, (r : Int) = d - (W trace d k - k - b.length) ∧
        procd r (r + 1) (W trace d k - b.length) ∧ W trace d k ≤ W trace r (W trace d k - b.length) := by
  intro d
  induction d with
  | zero =>
    intro hd k hk hgt
    have := procd_zero k hk
    subst this
    rw [entry_zero a b trace h hd] at hgt
    rcases slideAt_le_b a b 0 0 (by omega) (by omega) with h1 | h1 <;> omega
  | succ d ih =>
    intro hd k hk hgt
    obtain ⟨x0, he, hx0, hy0, hprev⟩ := start_cases a b trace h d hd k hk
    have hN : (b.length : Int) < x0 - k := by
      rcases slideAt_le_b a b x0 (x0 - k) hx0 hy0 with h1 | h1
      · omega
      · exact h1
    have hs : slideAt a b x0 (x0 - k) = 0 := slideAt_zero_of_ge a b _ _ (Or.inr (by omega))
    rw [hs] at he
    have hx : W trace (d + 1) k = x0 := by omega
    rw [hx]
    rcases hprev with ⟨hp, hv⟩ | ⟨hp, hv⟩
    · -- down from (x0, y - 1) on diagonal k + 1
      by_cases hgt' : (b.length : Int) < W trace d (k + 1) - (k + 1)
      · obtain ⟨r', hr', hpr, hvr⟩ := ih (by omega) (k + 1) hp hgt'
        rw [← hv] at hr' hpr hvr
        exact ⟨r', by omega, hpr, hvr⟩
      · refine ⟨d, by push_cast; omega, ?_, ?_⟩
        · have e : x0 - (b.length : Int) = k + 1 := by omega
          rw [e]; exact hp
        · have e : x0 - (b.length : Int) = k + 1 := by omega
          rw [e]; omega
    · -- right from (x0 - 1, y) on diagonal k - 1
      obtain ⟨r', hr', hpr, hvr⟩ := ih (by omega) (k - 1) hp (by omega)
      have hr1 : r' + 1 < trace.length := by omega
      obtain ⟨hp2, hv2⟩ := entry_ge_right a b trace h r' hr1 _ hpr
      have e : W trace d (k - 1) - (b.length : Int) + 1 = x0 - b.length := by omega
      rw [e] at hp2 hv2
      exact ⟨r' + 1, by push_cast; omega, hp2, by omega⟩

/-! ### no entry of an unfinished round lies weakly beyond (M, N) -/

theorem no_bad (a b : List α) (trace : List V) (h : CompleteNoFin a b trace) :
    ∀ d, d < trace.length → ∀ k, procd d (d + 1) k →
      ¬ ((a.length : Int) ≤ W trace d k ∧ (b.length : Int) ≤ W trace d k - k) := by
  intro d
  induction d using Nat.strongRecOn with
  | ind d ih =>
    intro hd k hk hbad
    have hnofin := (cnf_W a b trace h d hd).2.2 k hk
    cases d with
    | zero =>
      have := procd_zero k hk
      subst this
      have he := entry_zero a b trace h hd
      rcases slideAt_le a b 0 0 (by omega) (by omega) with h1 | h1
      · rcases slideAt_le_b a b 0 0 (by omega) (by omega) with h2 | h2
        · exact hnofin ⟨by omega, by omega⟩
        · omega
      · omega
    | succ d =>
      obtain ⟨x0, he, hx0, hy0, hprev⟩ := start_cases a b trace h d hd k hk
      by_cases hM : (a.length : Int) < x0
      · -- the start point is right of the grid: no slide
        have hs : slideAt a b x0 (x0 - k) = 0 := slideAt_zero_of_ge a b _ _ (Or.inl (by omega))
        rw [hs] at he
        have hx : W trace (d + 1) k = x0 := by omega
        rcases hprev with ⟨hp, hv⟩ | ⟨hp, hv⟩
        · by_cases hy : (b.length : Int) ≤ x0 - (k + 1)
          · exact ih d (by omega) (by omega) (k + 1) hp ⟨by omega, by omega⟩
          · -- previous entry is (x0 > M, N - 1): column M was reached on row N - 1 earlier, one step down is (M, N)
            obtain ⟨r, hr, hpr, hvr⟩ := right_of_grid a b trace h d (by omega) (k + 1) hp (by omega)
            have hr1 : r + 1 < trace.length := by omega
            obtain ⟨hp2, hv2⟩ := entry_ge_down a b trace h r hr1 _ hpr
            have e : (a.length : Int) - (W trace d (k + 1) - (k + 1)) - 1 = a.length - b.length := by omega
            rw [e] at hp2 hv2
            exact ih (r + 1) (by omega) hr1 _ hp2 ⟨by omega, by omega⟩
        · exact ih d (by omega) (by omega) (k - 1) hp ⟨by omega, by omega⟩
      · have hsa : (slideAt a b x0 (x0 - k) : Int) ≤ a.length - x0 := by
          rcases slideAt_le a b x0 (x0 - k) hx0 hy0 with h1 | h1
          · exact h1
          · exact absurd h1 hM
        by_cases hN : (b.length : Int) < x0 - k
        · -- the start point is below the grid: no slide, x = x0 = M
          have hs : slideAt a b x0 (x0 - k) = 0 := slideAt_zero_of_ge a b _ _ (Or.inr (by omega))
          rw [hs] at he
          have hx : W trace (d + 1) k = x0 := by omega
          rcases hprev with ⟨hp, hv⟩ | ⟨hp, hv⟩
          · exact ih d (by omega) (by omega) (k + 1) hp ⟨by omega, by omega⟩
          · -- previous entry is (M - 1, y > N): row N was reached in column M - 1 earlier, one step right is (M, N)
            obtain ⟨r, hr, hpr, hvr⟩ := below_grid a b trace h d (by omega) (k - 1) hp (by omega)
            have hr1 : r + 1 < trace.length := by omega
            obtain ⟨hp2, hv2⟩ := entry_ge_right a b trace h r hr1 _ hpr
            have e : W trace d (k - 1) - (b.length : Int) + 1 = a.length - b.length := by omega
            rw [e] at hp2 hv2
            exact ih (r + 1) (by omega) hr1 _ hp2 ⟨by omega, by omega⟩
        · have hsb : (slideAt a b x0 (x0 - k) : Int) ≤ b.length - (x0 - k) := by
            rcases slideAt_le_b a b x0 (x0 - k) hx0 hy0 with h1 | h1
            · exact h1
            · exact absurd h1 hN
          exact hnofin ⟨by omega, by omega⟩

/-- **no_long_run**: at most M + N complete rounds can pass without reaching (M, N) -/
theorem no_long_run (a b : List α) (trace : List V) (h : CompleteNoFin a b trace) :
    trace.length ≤ a.length + b.length := by
  apply Classical.byContradiction
  intro hlt
  have hlen : a.length + b.length < trace.length := by omega
  obtain ⟨hp, hv⟩ := lower_bound_end a b trace h hlen
  exact no_bad a b trace h _ hlen _ hp ⟨hv, by omega⟩

/-- **ses_total**: the forward search always reaches (M, N) -/
theorem ses_total (a b : List α) : ∃ trace, shortestEditSequence a b = some trace := by
  cases hs : shortestEditSequence a b with
  | some t => exact ⟨t, rfl⟩
  | none =>
    unfold shortestEditSequence at hs
    obtain ⟨trace, hl, hc⟩ := sesLoop_none a b _ 0 _ [] rfl rfl (by intro d hd; simp at hd) hs
    have := no_long_run a b trace hc
    omega

/-- `backtrack` never fails on the trace of a finished search -/
theorem backtrack_total (a b : List α) (trace : List V) (hs : shortestEditSequence a b = some trace) :
    ∃ recorded, backtrack trace a.length b.length = some recorded := by
  obtain ⟨D, n, hlen, hinv, hn1, hn2, vD, hvD, hxM, hyN⟩ := ses_spec a b trace hs
  have hlast : n ≤ trace.length := by omega
  have hne : trace ≠ [] := by intro h; rw [h] at hlen; simp at hlen
  have hD : trace.length - 1 = D := by omega
  have hkD : ((a.length : Int) - b.length) = -(D : Int) + 2 * ((n - 1 : Nat) : Int) := by omega
  have hinit : BackInv a b trace n D a.length b.length := by
    refine ⟨by omega, ?_, ⟨vD, hvD, ?_⟩, by omega, by omega⟩
    · have : nOf trace.length n D = n := by unfold nOf; simp [hlen]
      rw [this]
      exact ⟨n - 1, by omega, hkD⟩
    · rw [hkD]; exact hxM
  have htail : Tail a b (snakesOf ([] : List (Nat × Int × Int))) a.length b.length := by
    left; constructor <;> omega
  obtain ⟨d', x', y', acc', hbl, _, _, _⟩ :=
    backLoop_good a b trace n hinv hlast trace.length D a.length b.length [] (by omega) hinit htail
  unfold backtrack
  simp only [hne, if_false, hD, hbl]
  exact ⟨_, rfl⟩

end RegalModel.Diff
