import RegalModel.Model.Directive
namespace RegalModel.Directive
open List

def CleanName (n : Str) : Prop := n ≠ [] ∧ ∀ c ∈ n, isGoSpace c = false ∧ c ≠ ','
def AllWs (w : Str) : Prop := ∀ c ∈ w, isReWs c = true

/-- a comma list with arbitrary whitespace before and after every name -/
def spaced : List (Str × Str × Str) → Str
  | [] => []
  | [(l, n, r)] => l ++ n ++ r
  | (l, n, r) :: rest => l ++ n ++ r ++ ',' :: spaced rest

theorem reWs_goSpace (c : Char) (h : isReWs c = true) : isGoSpace c = true := by
  simp [isGoSpace, h]

theorem not_goSpace_not_reWs (c : Char) (h : isGoSpace c = false) : isReWs c = false := by
  cases h' : isReWs c
  · rfl
  · rw [reWs_goSpace c h'] at h; cases h

theorem stripWs_append (a b : Str) : stripWs (a ++ b) = stripWs a ++ stripWs b := by
  simp [stripWs]

theorem stripWs_ws (w : Str) (h : AllWs w) : stripWs w = [] := by
  unfold stripWs
  rw [List.filter_eq_nil_iff]
  intro c hc
  simp [h c hc]

theorem stripWs_clean (n : Str) (h : CleanName n) : stripWs n = n := by
  unfold stripWs
  rw [List.filter_eq_self]
  intro c hc
  simp [not_goSpace_not_reWs c (h.2 c hc).1]

theorem stripWs_comma (s : Str) : stripWs (',' :: s) = ',' :: stripWs s := by
  simp [stripWs, isReWs]

/-- after whitespace removal the list is the names joined by commas -/
def joined : List Str → Str
  | [] => []
  | [n] => n
  | n :: rest => n ++ ',' :: joined rest

theorem stripWs_spaced (items : List (Str × Str × Str))
    (h : ∀ it ∈ items, CleanName it.2.1 ∧ AllWs it.1 ∧ AllWs it.2.2) :
    stripWs (spaced items) = joined (items.map (·.2.1)) := by
  induction items with
  | nil => simp [spaced, joined, stripWs]
  | cons it rest ih =>
    obtain ⟨l, n, r⟩ := it
    obtain ⟨hn, hl, hr⟩ := h (l, n, r) (by simp)
    cases rest with
    | nil =>
      simp only [spaced, List.map_cons, List.map_nil, joined, stripWs_append, stripWs_ws l hl, stripWs_ws r hr,
        stripWs_clean n hn, List.nil_append, List.append_nil]
    | cons it2 rest2 =>
      have ih' := ih (fun x hx => h x (by simp [hx]))
      simp only [spaced, List.map_cons, joined, stripWs_append, stripWs_comma, stripWs_ws l hl, stripWs_ws r hr,
        stripWs_clean n hn, List.nil_append, List.append_nil]
      simp only [List.map_cons] at ih'
      rw [ih']

theorem splitOn_nocomma (n : Str) (h : ∀ c ∈ n, c ≠ ',') : splitOn ',' n = [n] := by
  induction n with
  | nil => rfl
  | cons c n ih =>
    have hc : c ≠ ',' := h c (by simp)
    have := ih (fun x hx => h x (by simp [hx]))
    simp [splitOn, hc, this]

theorem splitOn_cons_word (n rest : Str) (h : ∀ c ∈ n, c ≠ ',') :
    splitOn ',' (n ++ ',' :: rest) = n :: splitOn ',' rest := by
  induction n with
  | nil => simp [splitOn]
  | cons c n ih =>
    have hc : c ≠ ',' := h c (by simp)
    have := ih (fun x hx => h x (by simp [hx]))
    simp [splitOn, hc, this]

theorem splitOn_joined (ns : List Str) (hne : ns ≠ []) (h : ∀ n ∈ ns, ∀ c ∈ n, c ≠ ',') :
    splitOn ',' (joined ns) = ns := by
  induction ns with
  | nil => exact absurd rfl hne
  | cons n rest ih =>
    cases rest with
    | nil => simpa [joined] using splitOn_nocomma n (h n (by simp))
    | cons n2 rest2 =>
      simp only [joined]
      rw [splitOn_cons_word n _ (h n (by simp))]
      rw [ih (by simp) (fun x hx => h x (by simp [hx]))]

theorem dropWhile_prefix (p : Char → Bool) (l : Str) (x : Char) (xs : Str) (hl : ∀ c ∈ l, p c = true) (hx : p x = false) :
    (l ++ x :: xs).dropWhile p = x :: xs := by
  induction l with
  | nil => simp [List.dropWhile, hx]
  | cons c l ih =>
    have := ih (fun y hy => hl y (by simp [hy]))
    simp [List.dropWhile, hl c (by simp), this]

/-- trimming on the right removes exactly a trailing run of spaces after a non-space character -/
theorem trimRight_spec (core tail : Str) (x : Char) (hx : isGoSpace x = false) (ht : ∀ c ∈ tail, isGoSpace c = true) :
    (((core ++ [x]) ++ tail).reverse.dropWhile isGoSpace).reverse = core ++ [x] := by
  have : ((core ++ [x]) ++ tail).reverse = tail.reverse ++ x :: core.reverse := by simp
  rw [this, dropWhile_prefix isGoSpace tail.reverse x core.reverse (by simpa using ht) hx]
  simp

/-- a non-empty list of items ends, up to trailing whitespace, with the last character of a name -/
theorem spaced_end (items : List (Str × Str × Str)) (hne : items ≠ [])
    (h : ∀ it ∈ items, CleanName it.2.1 ∧ AllWs it.1 ∧ AllWs it.2.2) :
    ∃ core x tail, spaced items = (core ++ [x]) ++ tail ∧ isGoSpace x = false ∧ AllWs tail := by
  induction items with
  | nil => exact absurd rfl hne
  | cons it rest ih =>
    obtain ⟨l, n, r⟩ := it
    obtain ⟨hn, hl, hr⟩ := h (l, n, r) (by simp)
    cases rest with
    | nil =>
      obtain ⟨hnn, hnc⟩ := hn
      have hlast := List.dropLast_concat_getLast hnn
      refine ⟨l ++ n.dropLast, n.getLast hnn, r, ?_, (hnc _ (List.getLast_mem hnn)).1, hr⟩
      simp only [spaced]
      have hlast' : n.dropLast ++ [n.getLast hnn] = n := hlast
      calc l ++ n ++ r = l ++ (n.dropLast ++ [n.getLast hnn]) ++ r := by rw [hlast']
        _ = l ++ n.dropLast ++ [n.getLast hnn] ++ r := by simp
    | cons it2 rest2 =>
      obtain ⟨core, x, tail, he, hx, ht⟩ := ih (by simp) (fun y hy => h y (by simp [hy]))
      refine ⟨l ++ n ++ r ++ ',' :: core, x, tail, ?_, hx, ht⟩
      simp only [spaced] at he ⊢
      rw [he]
      simp

theorem findSub_prefix (pat s : Str) (hp : pat ≠ []) : findSub pat (pat ++ s) = some 0 := by
  cases pat with
  | nil => exact absurd rfl hp
  | cons c p =>
    simp only [List.cons_append, findSub]
    have : (c :: p).isPrefixOf (c :: (p ++ s)) = true := by
      rw [List.isPrefixOf_iff_prefix]
      exact ⟨s, by simp⟩
    simp [this]

end RegalModel.Directive
