import RegalModel.Lemmas.DiffForward
import RegalModel.Lemmas.DiffWalk
/-!
The backward pass: `backtrack` over a trace that satisfies the forward invariant yields a good chain.
-/
namespace RegalModel.Diff
open List

variable {α : Type} [DecidableEq α]

/-! ### exact results of the two scanning loops of `operations` -/

theorem delLoop_exact (M : Nat) (sk : Int) (y : Nat) (T : Nat) (hT : (T : Int) - y = sk) (hM : T ≤ M) :
    ∀ fuel x, x ≤ T → T - x ≤ fuel → delLoop M sk y fuel x = T := by
  intro fuel
  induction fuel with
  | zero => intro x hx hf; simp only [delLoop]; omega
  | succ f ih =>
    intro x hx hf
    simp only [delLoop]
    by_cases h : sk > (x : Int) - y
    · simp only [h, if_true]
      by_cases h2 : x + 1 = M
      · simp only [h2, if_true]; omega
      · simp only [h2, if_false]
        exact ih (x + 1) (by omega) (by omega)
    · simp only [h, if_false]; omega

theorem insLoop_exact (sk : Int) (x : Nat) (T : Nat) (hT : (x : Int) - T = sk) :
    ∀ fuel y, y ≤ T → T - y ≤ fuel → insLoop sk x fuel y = T := by
  intro fuel
  induction fuel with
  | zero => intro y hy hf; simp only [insLoop]; omega
  | succ f ih =>
    intro y hy hf
    simp only [insLoop]
    by_cases h : sk < (x : Int) - y
    · simp only [h, if_true]
      exact ih (y + 1) (by omega) (by omega)
    · simp only [h, if_false]; omega

/-- from (X, Y), a snake on diagonal `sx - sy` whose slide starts at (X1, Y1), reached by deleting only or
inserting only: the loop body finds exactly that start point -/
theorem snakeStep_exact (M : Nat) (b : List α) (sx sy : Int) (X Y X1 Y1 : Nat)
    (hX : X ≤ X1) (hY : Y ≤ Y1) (hone : X1 = X ∨ Y1 = Y) (hk : (X1 : Int) - Y1 = sx - sy) (hM : X1 ≤ M) :
    (snakeStep M b sx sy X Y).x1 = X1 ∧ (snakeStep M b sx sy X Y).y1 = Y1 ∧
      (snakeStep M b sx sy X Y).diag = (sx - X1).toNat := by
  have hx1 : delLoop M (sx - sy) Y ((sx - sy - ((X : Int) - Y)).toNat) X = X1 := by
    rcases hone with h | h
    · subst h
      have : ¬ sx - sy > ((X1 : Nat) : Int) - Y := by omega
      exact delLoop_noop _ _ _ _ _ this
    · subst h
      exact delLoop_exact M (sx - sy) Y1 X1 hk hM _ X hX (by omega)
  have hy1 : insLoop (sx - sy) X1 (((X1 : Int) - Y - (sx - sy)).toNat) Y = Y1 :=
    insLoop_exact (sx - sy) X1 Y1 hk _ Y hY (by omega)
  refine ⟨hx1, ?_, ?_⟩
  · show insLoop (sx - sy) (delLoop M (sx - sy) Y _ X) _ Y = Y1
    rw [hx1]; exact hy1
  · show (sx - (delLoop M (sx - sy) Y _ X : Nat)).toNat = _
    rw [hx1]

/-- the tail condition of `GoodFrom`: either the end was reached or the rest is a good chain -/
def Tail (a b : List α) (rest : List (Option (Int × Int))) (x y : Int) : Prop :=
  (x.toNat ≥ a.length ∧ y.toNat ≥ b.length) ∨ GoodFrom a b rest x.toNat y.toNat

theorem good_cons (a b : List α) (rest : List (Option (Int × Int))) (sx sy : Int) (X Y X1 Y1 : Nat)
    (hX : X ≤ X1) (hY : Y ≤ Y1) (hone : X1 = X ∨ Y1 = Y) (hk : (X1 : Int) - Y1 = sx - sy)
    (hle : (X1 : Int) ≤ sx) (hsx : sx ≤ a.length) (hsy : sy ≤ b.length)
    (heq : (a.drop X1).take (sx - X1).toNat = (b.drop Y1).take (sx - X1).toNat)
    (ht : Tail a b rest sx sy) :
    GoodFrom a b (some (sx, sy) :: rest) X Y := by
  obtain ⟨h1, h2, h3⟩ := snakeStep_exact a.length b sx sy X Y X1 Y1 hX hY hone hk (by omega)
  unfold GoodFrom
  simp only [h1, h2, h3]
  have e1 : X1 + (sx - X1).toNat = sx.toNat := by omega
  have e2 : Y1 + (sx - X1).toNat = sy.toNat := by omega
  rw [e1, e2]
  refine ⟨by omega, by omega, heq, ?_⟩
  split
  · trivial
  · rename_i hn
    rcases ht with ht | ht
    · exact absurd ht hn
    · exact ht

/-! ### one backward step over the trace -/

theorem kprev_procd (w : V) (d n : Nat) (k : Int) (hn : n ≤ d + 2) (hk : procd (d + 1) n k) :
    procd d (d + 1) (if goesDown w ((d + 1 : Nat) : Int) k then k + 1 else k - 1) := by
  obtain ⟨t, ht, rfl⟩ := hk
  by_cases hg : goesDown w ((d + 1 : Nat) : Int) (-((d + 1 : Nat) : Int) + 2 * (t : Int)) = true
  · simp only [hg, if_true]
    have ht2 : t < d + 1 := by
      unfold goesDown at hg
      simp only [Bool.or_eq_true, decide_eq_true_eq, Bool.and_eq_true, bne_iff_ne, ne_eq] at hg
      rcases hg with hg | hg
      · omega
      · have := hg.1; omega
    exact ⟨t, ht2, by push_cast; omega⟩
  · simp only [hg, Bool.false_eq_true, if_false]
    have ht1 : 1 ≤ t := by
      unfold goesDown at hg
      simp only [Bool.or_eq_true, decide_eq_true_eq, not_or] at hg
      rcases Nat.eq_zero_or_pos t with h0 | h0
      · subst h0
        exact absurd (by push_cast; omega) hg.1
      · omega
    exact ⟨t - 1, by omega, by push_cast; omega⟩

theorem back_step (a b : List α) (trace : List V) (lastN : Nat) (hinv : TraceInv a b trace lastN)
    (hlast : lastN ≤ trace.length) (d : Nat) (hd : d + 1 < trace.length) (v w : V)
    (hv : trace[d + 1]? = some v) (hw : trace[d]? = some w) (k : Int)
    (hk : procd (d + 1) (nOf trace.length lastN (d + 1)) k) :
    procd d (d + 1) (if goesDown v ((d + 1 : Nat) : Int) k then k + 1 else k - 1) ∧
    v (if goesDown v ((d + 1 : Nat) : Int) k then k + 1 else k - 1) =
      w (if goesDown v ((d + 1 : Nat) : Int) k then k + 1 else k - 1) ∧
    goesDown v ((d + 1 : Nat) : Int) k = goesDown w ((d + 1 : Nat) : Int) k ∧
    v k = newX a b w ((d + 1 : Nat) : Int) k := by
  obtain ⟨v', hv', hr⟩ := traceInv_get a b trace lastN (d + 1) hinv hd
  rw [hv] at hv'; cases hv'
  have hprev : prevV trace (d + 1) = w := by simp [prevV, hw]
  rw [hprev] at hr
  have hpar := procd_parity _ _ _ hk
  have hm : v (k - 1) = w (k - 1) := by rw [hr]; simp [hpar.1]
  have hp : v (k + 1) = w (k + 1) := by rw [hr]; simp [hpar.2]
  have hg := (startX_congr v w ((d + 1 : Nat) : Int) k hm hp).1
  have hn : nOf trace.length lastN (d + 1) ≤ d + 2 := by
    unfold nOf; split <;> omega
  refine ⟨?_, ?_, hg, ?_⟩
  · rw [hg]; exact kprev_procd w d _ k hn hk
  · by_cases h : goesDown v ((d + 1 : Nat) : Int) k = true
    · simp only [h, if_true]; exact hp
    · simp only [h, Bool.false_eq_true, if_false]; exact hm
  · rw [hr]; simp [hk]

/-! ### the loop of `backtrack` -/

/-- what is known of the state (d, x, y) of the backward loop -/
structure BackInv (a b : List α) (trace : List V) (lastN d : Nat) (x y : Int) : Prop where
  hd : d < trace.length
  hk : procd d (nOf trace.length lastN d) (x - y)
  hx : ∃ v, trace[d]? = some v ∧ v (x - y) = x
  hM : x ≤ a.length
  hN : y ≤ b.length

theorem backInv_nonneg (a b : List α) (trace : List V) (lastN d : Nat) (x y : Int)
    (hinv : TraceInv a b trace lastN) (hlast : lastN ≤ trace.length) (h : BackInv a b trace lastN d x y) :
    0 ≤ x ∧ 0 ≤ y := by
  obtain ⟨v, hv, hvx⟩ := h.hx
  have := trace_lower_bounds a b trace lastN hinv hlast d h.hd v hv (x - y) h.hk
  rw [hvx] at this
  constructor <;> omega

/-- the snake recorded when the loop stops closes the chain from (0, 0) -/
theorem final_good (a b : List α) (trace : List V) (lastN d : Nat) (x y : Int) (rest : List (Option (Int × Int)))
    (hinv : TraceInv a b trace lastN) (hlast : lastN ≤ trace.length) (h : BackInv a b trace lastN d x y)
    (hstop : ¬ (x > 0 ∧ y > 0 ∧ d > 0)) (ht : Tail a b rest x y) :
    GoodFrom a b (some (x, y) :: rest) 0 0 := by
  obtain ⟨hx0, hy0⟩ := backInv_nonneg a b trace lastN d x y hinv hlast h
  by_cases hxz : x ≤ 0
  · have : x = 0 := by omega
    subst this
    exact good_cons a b rest 0 y 0 0 0 y.toNat (by omega) (by omega) (Or.inl rfl) (by omega) (by omega)
      (by omega) h.hN (by simp) ht
  · by_cases hyz : y ≤ 0
    · have : y = 0 := by omega
      subst this
      exact good_cons a b rest x 0 0 0 x.toNat 0 (by omega) (by omega) (Or.inr rfl) (by omega) (by omega)
        h.hM (by omega) (by simp) ht
    · have hd0 : d = 0 := by omega
      subst hd0
      obtain ⟨v, hv, hvx⟩ := h.hx
      obtain ⟨v', hv', hr⟩ := traceInv_get a b trace lastN 0 hinv h.hd
      rw [hv] at hv'; cases hv'
      have hk := h.hk
      have hk0 : x - y = 0 := by
        obtain ⟨t, ht, hxy⟩ := hk
        have : t = 0 := by
          unfold nOf at ht
          split at ht <;> omega
        subst this
        simpa using hxy
      have hval : v 0 = slideAt a b 0 0 := by
        have hp : procd 0 (nOf trace.length lastN 0) 0 := by rw [← hk0]; exact hk
        rw [hr]
        simp only [hp, if_true]
        have hs : startX (prevV trace 0) ((0 : Nat) : Int) 0 = 0 := by
          simp [startX, goesDown, prevV, Vinit]
        unfold newX
        rw [hs]; simp
      rw [hk0] at hvx
      have hxs : x = slide a b := by
        rw [← hvx, hval]; simp [slideAt]
      have hys : y = slide a b := by omega
      refine good_cons a b rest x y 0 0 0 0 (by omega) (by omega) (Or.inl rfl) (by omega) (by omega) h.hM h.hN ?_ ht
      have : (x - ((0 : Nat) : Int)).toNat = slide a b := by omega
      rw [this]
      simpa using slide_eq a b

theorem backLoop_good (a b : List α) (trace : List V) (lastN : Nat)
    (hinv : TraceInv a b trace lastN) (hlast : lastN ≤ trace.length) :
    ∀ fuel d x y acc, d ≤ fuel → BackInv a b trace lastN d x y → Tail a b (snakesOf acc) x y →
      ∃ d' x' y' acc', backLoop trace fuel d x y acc = some (d', x', y', acc') ∧ 0 ≤ x' ∧ 0 ≤ y' ∧
        GoodFrom a b (snakesOf ((d', x', y') :: acc')) 0 0 := by
  intro fuel
  induction fuel with
  | zero =>
    intro d x y acc hdf h ht
    have hd0 : d = 0 := by omega
    have hstop : ¬ (x > 0 ∧ y > 0 ∧ d > 0) := by omega
    obtain ⟨hx0, hy0⟩ := backInv_nonneg a b trace lastN d x y hinv hlast h
    refine ⟨d, x, y, acc, by simp only [backLoop, hstop, if_false], hx0, hy0, ?_⟩
    exact final_good a b trace lastN d x y _ hinv hlast h hstop ht
  | succ f ih =>
    intro d x y acc hdf h ht
    obtain ⟨hx0, hy0⟩ := backInv_nonneg a b trace lastN d x y hinv hlast h
    by_cases hc : x > 0 ∧ y > 0 ∧ d > 0
    · obtain ⟨v, hv, hvx⟩ := h.hx
      obtain ⟨d0, rfl⟩ : ∃ d0, d = d0 + 1 := ⟨d - 1, by omega⟩
      have hd0 : d0 < trace.length := by have := h.hd; omega
      obtain ⟨w, hw, _⟩ := traceInv_get a b trace lastN d0 hinv hd0
      obtain ⟨b1, b2, b3, b4⟩ := back_step a b trace lastN hinv hlast d0 h.hd v w hv hw (x - y) h.hk
      simp only [backLoop, hc, and_self, if_true, hv, Nat.add_sub_cancel]
      -- the previous point
      generalize hkp : (if goesDown v ((d0 + 1 : Nat) : Int) (x - y) then x - y + 1 else x - y - 1) = kPrev at b1 b2
      have hnd0 : nOf trace.length lastN d0 = d0 + 1 := by unfold nOf; simp [h.hd]
      have hlb := trace_lower_bounds a b trace lastN hinv hlast d0 hd0 w hw kPrev (by rw [hnd0]; exact b1)
      rw [← b2] at hlb
      -- where the slide of round d0+1 on diagonal x - y started
      have hxnew : x = startX w ((d0 + 1 : Nat) : Int) (x - y) +
          slideAt a b (startX w ((d0 + 1 : Nat) : Int) (x - y)) (startX w ((d0 + 1 : Nat) : Int) (x - y) - (x - y)) := by
        have := b4; rw [hvx] at this; exact this
      have hstart : startX w ((d0 + 1 : Nat) : Int) (x - y) =
          if goesDown v ((d0 + 1 : Nat) : Int) (x - y) then v kPrev else v kPrev + 1 := by
        unfold startX
        rw [← b3]
        by_cases hg : goesDown v ((d0 + 1 : Nat) : Int) (x - y) = true
        · simp only [hg, if_true] at hkp ⊢
          rw [b2, ← hkp]
        · simp only [hg, Bool.false_eq_true, if_false] at hkp ⊢
          rw [b2, ← hkp]
      generalize hx0' : startX w ((d0 + 1 : Nat) : Int) (x - y) = x0 at hxnew hstart
      have hx0nn : 0 ≤ x0 ∧ 0 ≤ x0 - (x - y) ∧ v kPrev ≤ x0 ∧ v kPrev - kPrev ≤ x0 - (x - y) ∧
          (x0 = v kPrev ∨ x0 - (x - y) = v kPrev - kPrev) := by
        by_cases hg : goesDown v ((d0 + 1 : Nat) : Int) (x - y) = true
        · simp only [hg, if_true] at hkp hstart
          refine ⟨by omega, by omega, by omega, by omega, Or.inl hstart⟩
        · simp only [hg, Bool.false_eq_true, if_false] at hkp hstart
          refine ⟨by omega, by omega, by omega, by omega, Or.inr (by omega)⟩
      have hslide : slideAt a b x0 (x0 - (x - y)) = slide (a.drop x0.toNat) (b.drop (x0 - (x - y)).toNat) := by
        unfold slideAt
        rw [if_pos ⟨hx0nn.1, hx0nn.2.1⟩]
      have hM := h.hM
      have hN := h.hN
      have hinv' : BackInv a b trace lastN d0 (v kPrev) (v kPrev - kPrev) := by
        refine ⟨hd0, ?_, ⟨w, hw, ?_⟩, by omega, by omega⟩
        · rw [hnd0]
          have : v kPrev - (v kPrev - kPrev) = kPrev := by omega
          rw [this]; exact b1
        · have : v kPrev - (v kPrev - kPrev) = kPrev := by omega
          rw [this]; exact b2.symm
      have htail : Tail a b (snakesOf ((d0 + 1, x, y) :: acc)) (v kPrev) (v kPrev - kPrev) := by
        right
        show GoodFrom a b (some (x, y) :: snakesOf acc) _ _
        refine good_cons a b (snakesOf acc) x y (v kPrev).toNat (v kPrev - kPrev).toNat x0.toNat (x0 - (x - y)).toNat
          (by omega) (by omega) ?_ (by omega) (by omega) h.hM h.hN ?_ ht
        · rcases hx0nn.2.2.2.2 with e | e
          · left; rw [e]
          · right; rw [e]
        · have : (x - ((x0.toNat : Nat) : Int)).toNat = slide (a.drop x0.toNat) (b.drop (x0 - (x - y)).toNat) := by
            omega
          rw [this]
          exact slide_eq _ _
      have := ih d0 (v kPrev) (v kPrev - kPrev) ((d0 + 1, x, y) :: acc) (by omega) hinv' htail
      exact this
    · refine ⟨d, x, y, acc, by simp only [backLoop, hc, if_false], hx0, hy0, ?_⟩
      exact final_good a b trace lastN d x y _ hinv hlast h hc ht

/-- **backtrack_good**: the snakes `backtrack` extracts from the trace of `shortestEditSequence` form a
good chain from (0, 0), for all documents -/
theorem backtrack_good (a b : List α) (trace : List V) (recorded : List (Nat × Int × Int))
    (hs : shortestEditSequence a b = some trace) (hb : backtrack trace a.length b.length = some recorded) :
    GoodFrom a b (snakesOf recorded) 0 0 := by
  obtain ⟨D, n, hlen, hinv, hn1, hn2, vD, hvD, hxM, hyN⟩ := ses_spec a b trace hs
  have hlast : n ≤ trace.length := by omega
  have hne : trace ≠ [] := by intro h; rw [h] at hlen; simp at hlen
  have hD : trace.length - 1 = D := by omega
  have hkD : ((a.length : Int) - b.length) = -(D : Int) + 2 * ((n - 1 : Nat) : Int) := by omega
  have hinit : BackInv a b trace n D a.length b.length := by
    refine ⟨by omega, ?_, ⟨vD, hvD, ?_⟩, by omega, by omega⟩
    · have : nOf trace.length n D = n := by unfold nOf; simp [hlen]
      rw [this]
      exact ⟨n - 1, by omega, hkD⟩
    · rw [hkD]; exact hxM
  have htail : Tail a b (snakesOf ([] : List (Nat × Int × Int))) a.length b.length := by
    left; constructor <;> omega
  obtain ⟨d', x', y', acc', hbl, hx', hy', hg⟩ :=
    backLoop_good a b trace n hinv hlast trace.length D a.length b.length [] (by omega) hinit htail
  unfold backtrack at hb
  simp only [hne, if_false, hD, hbl] at hb
  have : ¬ (x' < 0 ∨ y' < 0) := by omega
  simp only [this, if_false, Option.some.injEq] at hb
  rw [← hb]; exact hg

end RegalModel.Diff
