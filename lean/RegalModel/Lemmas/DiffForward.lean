import RegalModel.Model.Diff
/-! Invariants of the forward pass (`shortestEditSequence`): what every stored `V` entry means. -/
namespace RegalModel.Diff
open List

variable {α : Type} [DecidableEq α]

/-! ### slide -/

theorem slide_le (a b : List α) : slide a b ≤ a.length ∧ slide a b ≤ b.length := by
  induction a generalizing b with
  | nil => simp [slide]
  | cons x xs ih =>
    cases b with
    | nil => simp [slide]
    | cons y ys =>
      simp only [slide]
      split
      · have := ih ys; simp only [List.length_cons]; omega
      · simp

theorem slide_eq (a b : List α) : a.take (slide a b) = b.take (slide a b) := by
  induction a generalizing b with
  | nil => simp [slide]
  | cons x xs ih =>
    cases b with
    | nil => simp [slide]
    | cons y ys =>
      simp only [slide]
      split
      · rename_i h; subst h; simp [ih ys]
      · simp

/-- the slide performed at point (x, y): 0 outside the non-negative quadrant -/
def slideAt (a b : List α) (x y : Int) : Nat :=
  if 0 ≤ x ∧ 0 ≤ y then slide (a.drop x.toNat) (b.drop y.toNat) else 0

/-- the value written to `V[k]` in round `d`, as a function of the array before the write -/
def newX (a b : List α) (v : V) (d k : Int) : Int :=
  startX v d k + slideAt a b (startX v d k) (startX v d k - k)

theorem stepK_fst (a b : List α) (v : V) (d k : Int) : (stepK a b v d k).1 = upd v k (newX a b v d k) := by
  simp [stepK, newX, slideAt]

theorem stepK_snd (a b : List α) (v : V) (d k : Int) :
    (stepK a b v d k).2 = decide (newX a b v d k = a.length ∧ newX a b v d k - k = b.length) := by
  simp [stepK, newX, slideAt]

theorem startX_congr (v v' : V) (d k : Int) (h1 : v (k - 1) = v' (k - 1)) (h2 : v (k + 1) = v' (k + 1)) :
    goesDown v d k = goesDown v' d k ∧ startX v d k = startX v' d k := by
  unfold startX goesDown
  rw [h1, h2]
  exact ⟨rfl, rfl⟩

theorem newX_congr (a b : List α) (v v' : V) (d k : Int) (h1 : v (k - 1) = v' (k - 1)) (h2 : v (k + 1) = v' (k + 1)) :
    newX a b v d k = newX a b v' d k := by
  unfold newX
  rw [(startX_congr v v' d k h1 h2).2]

/-! ### one round -/

/-- diagonal `j` has been processed among the first `n` iterations of round `d` (k = -d, -d+2, …) -/
def procd (d n : Nat) (j : Int) : Prop := ∃ t : Nat, t < n ∧ j = -(d : Int) + 2 * t

instance (d n : Nat) (j : Int) : Decidable (procd d n j) :=
  if h : 0 ≤ j + d ∧ (j + d) % 2 = 0 ∧ ((j + d) / 2).toNat < n then
    isTrue ⟨((j + d) / 2).toNat, h.2.2, by
      have h1 := h.1; have h2 := h.2.1
      have : ((((j + d) / 2).toNat : Nat) : Int) = (j + d) / 2 := Int.toNat_of_nonneg (by omega)
      omega⟩
  else
    isFalse (by
      rintro ⟨t, ht, rfl⟩
      apply h
      refine ⟨by omega, by omega, ?_⟩
      have : (-(d : Int) + 2 * (t : Int) + (d : Int)) / 2 = t := by omega
      rw [this]; simpa using ht)

/-- `vout` is `vin` after the first `n` iterations of round `d` -/
def Round (a b : List α) (d n : Nat) (vin vout : V) : Prop :=
  ∀ j, vout j = if procd d n j then newX a b vin d j else vin j

theorem procd_succ (d n : Nat) (j : Int) : procd d (n + 1) j ↔ procd d n j ∨ j = -(d : Int) + 2 * n := by
  constructor
  · rintro ⟨t, ht, rfl⟩
    by_cases h : t = n
    · subst h; exact Or.inr rfl
    · exact Or.inl ⟨t, by omega, rfl⟩
  · rintro (⟨t, ht, rfl⟩ | rfl)
    · exact ⟨t, by omega, rfl⟩
    · exact ⟨n, by omega, rfl⟩

theorem procd_parity (d n : Nat) (j : Int) (h : procd d n j) : ¬ procd d n (j - 1) ∧ ¬ procd d n (j + 1) := by
  obtain ⟨t, _, rfl⟩ := h
  constructor <;> (rintro ⟨s, _, hs⟩; omega)

theorem round_zero (a b : List α) (d : Nat) (v : V) : Round a b d 0 v v := by
  intro j
  have : ¬ procd d 0 j := by rintro ⟨t, ht, _⟩; omega
  simp [this]

/-- processing one more diagonal keeps the closed form (the neighbours read are never written in this round) -/
theorem round_step (a b : List α) (d n : Nat) (vin v : V) (h : Round a b d n vin v) :
    Round a b d (n + 1) vin (stepK a b v d (-(d : Int) + 2 * n)).1 := by
  intro j
  rw [stepK_fst]
  have hk1 : v (-(d : Int) + 2 * n - 1) = vin (-(d : Int) + 2 * n - 1) := by
    rw [h]; have : ¬ procd d n (-(d : Int) + 2 * n - 1) := by rintro ⟨s, _, hs⟩; omega
    simp [this]
  have hk2 : v (-(d : Int) + 2 * n + 1) = vin (-(d : Int) + 2 * n + 1) := by
    rw [h]; have : ¬ procd d n (-(d : Int) + 2 * n + 1) := by rintro ⟨s, _, hs⟩; omega
    simp [this]
  unfold upd
  by_cases hj : j = -(d : Int) + 2 * n
  · subst hj
    have hp : procd d (n + 1) (-(d : Int) + 2 * n) := (procd_succ d n _).2 (Or.inr rfl)
    simp only [hp, if_true]
    exact newX_congr a b v vin d _ hk1 hk2
  · simp only [hj, if_false]
    rw [h j]
    have : procd d (n + 1) j ↔ procd d n j := by
      rw [procd_succ]; constructor
      · rintro (h1 | h1); exact h1; exact absurd h1 hj
      · exact Or.inl
    by_cases hp : procd d n j
    · simp [hp, this.2 hp]
    · have : ¬ procd d (n + 1) j := fun h' => hp (this.1 h')
      simp [hp, this]

/-- result of the inner loop started at iteration `i` with enough fuel -/
theorem rowLoop_spec (a b : List α) (d : Nat) (vin : V) (fuel i : Nat) (v : V)
    (hr : Round a b d i vin v) (hi : i ≤ d + 1) (hf : d + 1 ≤ fuel + i) :
    ∃ n, i ≤ n ∧ n ≤ d + 1 ∧ Round a b d n vin (rowLoop a b d fuel i v).1 ∧
      ((rowLoop a b d fuel i v).2 = true →
        1 ≤ n ∧ (rowLoop a b d fuel i v).1 (-(d : Int) + 2 * (n - 1 : Nat)) = a.length ∧
        (rowLoop a b d fuel i v).1 (-(d : Int) + 2 * (n - 1 : Nat)) - (-(d : Int) + 2 * (n - 1 : Nat)) = b.length) ∧
      ((rowLoop a b d fuel i v).2 = false → n = d + 1) := by
  induction fuel generalizing i v with
  | zero =>
    have : i = d + 1 := by omega
    subst this
    exact ⟨d + 1, Nat.le_refl _, Nat.le_refl _, by simpa [rowLoop] using hr, by simp [rowLoop], fun _ => rfl⟩
  | succ f ih =>
    unfold rowLoop
    by_cases hk : (-(d : Int) + 2 * (i : Int)) > d
    · have : i = d + 1 := by omega
      subst this
      simp only [hk, if_true]
      exact ⟨d + 1, Nat.le_refl _, Nat.le_refl _, hr, by simp, fun _ => rfl⟩
    · simp only [hk, if_false]
      have hstep := round_step a b d i vin v hr
      cases hfin : (stepK a b v d (-(d : Int) + 2 * i)).2 with
      | true =>
        simp only [hfin, if_true]
        refine ⟨i + 1, by omega, by omega, hstep, ?_, by simp⟩
        intro _
        have hsnd := stepK_snd a b v d (-(d : Int) + 2 * i)
        rw [hfin] at hsnd
        have hval : (stepK a b v d (-(d : Int) + 2 * i)).1 (-(d : Int) + 2 * i) = newX a b v d (-(d : Int) + 2 * i) := by
          rw [stepK_fst]; simp [upd]
        have hdec := of_decide_eq_true hsnd.symm
        refine ⟨by omega, ?_, ?_⟩
        · have : ((i + 1 - 1 : Nat) : Int) = i := by omega
          rw [this, hval]; exact hdec.1
        · have : ((i + 1 - 1 : Nat) : Int) = i := by omega
          rw [this, hval]; exact hdec.2
      | false =>
        simp only [hfin, Bool.false_eq_true, if_false]
        obtain ⟨n, h1, h2, h3, h4, h5⟩ := ih (i + 1) _ hstep (by omega) (by omega)
        exact ⟨n, by omega, h2, h3, h4, h5⟩

end RegalModel.Diff

namespace RegalModel.Diff
open List

variable {α : Type} [DecidableEq α]

def Vinit : V := fun _ => 0

/-- the array a round starts from: the previous round's result (the initial zero array for round 0) -/
def prevV (trace : List V) : Nat → V
  | 0 => Vinit
  | d + 1 => (trace[d]?).getD Vinit

/-- `trace` = results of rounds 0 … len-1; every round but the last is complete (d+1 diagonals), the last one
processed `lastN` diagonals -/
def TraceInv (a b : List α) (trace : List V) (lastN : Nat) : Prop :=
  ∀ d, d < trace.length → ∃ v, trace[d]? = some v ∧
    Round a b d (if d + 1 < trace.length then d + 1 else lastN) (prevV trace d) v

theorem prevV_append (acc : List V) (w : V) (d : Nat) (h : d ≤ acc.length) : prevV (acc ++ [w]) d = prevV acc d := by
  cases d with
  | zero => rfl
  | succ d' =>
    simp only [prevV]
    rw [List.getElem?_append_left (by omega)]

theorem sesLoop_spec (a b : List α) (fuel d : Nat) (v : V) (acc trace : List V)
    (hlen : acc.length = d) (hv : v = prevV acc d)
    (hinv : ∀ d', d' < acc.length → ∃ w, acc[d']? = some w ∧ Round a b d' (d' + 1) (prevV acc d') w)
    (h : sesLoop a b fuel d v acc = some trace) :
    ∃ D n, trace.length = D + 1 ∧ TraceInv a b trace n ∧ 1 ≤ n ∧ n ≤ D + 1 ∧
      ∃ vD, trace[D]? = some vD ∧ vD (-(D : Int) + 2 * (n - 1 : Nat)) = a.length ∧
        vD (-(D : Int) + 2 * (n - 1 : Nat)) - (-(D : Int) + 2 * (n - 1 : Nat)) = b.length := by
  induction fuel generalizing d v acc with
  | zero => simp [sesLoop] at h
  | succ f ih =>
    unfold sesLoop at h
    obtain ⟨n, _, hn2, hround, hfinT, hfinF⟩ := rowLoop_spec a b d v (d + 1) 0 v (round_zero a b d v) (by omega) (by omega)
    cases hfin : (rowLoop a b d (d + 1) 0 v).2 with
    | true =>
      simp only [hfin, if_true, Option.some.injEq] at h
      subst h
      obtain ⟨hn1, hx, hy⟩ := hfinT hfin
      refine ⟨d, n, by simp [hlen], ?_, hn1, hn2, (rowLoop a b d (d + 1) 0 v).1, ?_, hx, hy⟩
      · intro d' hd'
        simp only [List.length_append, List.length_singleton] at hd'
        by_cases hlt : d' < acc.length
        · obtain ⟨w, hw, hr⟩ := hinv d' hlt
          refine ⟨w, by rw [List.getElem?_append_left hlt]; exact hw, ?_⟩
          have : d' + 1 < (acc ++ [(rowLoop a b d (d + 1) 0 v).1]).length := by simp; omega
          simp only [this, if_true]
          rw [prevV_append _ _ _ (by omega)]
          exact hr
        · have hd : d' = d := by omega
          subst hd
          refine ⟨(rowLoop a b d' (d' + 1) 0 v).1, by rw [List.getElem?_append_right (by omega)]; simp [hlen], ?_⟩
          have : ¬ d' + 1 < (acc ++ [(rowLoop a b d' (d' + 1) 0 v).1]).length := by simp; omega
          simp only [this, if_false]
          rw [prevV_append _ _ _ (by omega), ← hv]
          exact hround
      · rw [List.getElem?_append_right (by omega)]; simp [hlen]
    | false =>
      simp only [hfin, Bool.false_eq_true, if_false] at h
      have hn : n = d + 1 := hfinF hfin
      subst hn
      apply ih (d + 1) _ (acc ++ [(rowLoop a b d (d + 1) 0 v).1]) (by simp [hlen]) ?_ ?_ h
      · simp only [prevV]
        rw [List.getElem?_append_right (by omega)]; simp [hlen]
      · intro d' hd'
        simp only [List.length_append, List.length_singleton] at hd'
        by_cases hlt : d' < acc.length
        · obtain ⟨w, hw, hr⟩ := hinv d' hlt
          refine ⟨w, by rw [List.getElem?_append_left hlt]; exact hw, ?_⟩
          rw [prevV_append _ _ _ (by omega)]
          exact hr
        · have hd : d' = d := by omega
          subst hd
          refine ⟨(rowLoop a b d' (d' + 1) 0 v).1, by rw [List.getElem?_append_right (by omega)]; simp [hlen], ?_⟩
          rw [prevV_append _ _ _ (by omega), ← hv]
          exact hround

theorem ses_spec (a b : List α) (trace : List V) (h : shortestEditSequence a b = some trace) :
    ∃ D n, trace.length = D + 1 ∧ TraceInv a b trace n ∧ 1 ≤ n ∧ n ≤ D + 1 ∧
      ∃ vD, trace[D]? = some vD ∧ vD (-(D : Int) + 2 * (n - 1 : Nat)) = a.length ∧
        vD (-(D : Int) + 2 * (n - 1 : Nat)) - (-(D : Int) + 2 * (n - 1 : Nat)) = b.length :=
  sesLoop_spec a b _ 0 _ [] trace rfl rfl (by intro d' hd'; simp at hd') h

end RegalModel.Diff

namespace RegalModel.Diff
open List

variable {α : Type} [DecidableEq α]

/-- number of diagonals processed in round `d` of a trace of length `len` whose last round processed `lastN` -/
def nOf (len lastN d : Nat) : Nat := if d + 1 < len then d + 1 else lastN

theorem traceInv_get (a b : List α) (trace : List V) (lastN d : Nat) (h : TraceInv a b trace lastN) (hd : d < trace.length) :
    ∃ v, trace[d]? = some v ∧ Round a b d (nOf trace.length lastN d) (prevV trace d) v := h d hd

theorem newX_ge_start (a b : List α) (v : V) (d k : Int) : startX v d k ≤ newX a b v d k := by
  unfold newX; omega

/-- **lower bounds**: every processed entry is a point of the non-negative quadrant: 0 ≤ x and 0 ≤ y = x - k -/
theorem trace_lower_bounds (a b : List α) (trace : List V) (lastN : Nat) (hinv : TraceInv a b trace lastN)
    (hlast : lastN ≤ trace.length) :
    ∀ d, d < trace.length → ∀ v, trace[d]? = some v → ∀ k, procd d (nOf trace.length lastN d) k → 0 ≤ v k ∧ k ≤ v k := by
  intro d
  induction d with
  | zero =>
    intro hd v hv k hk
    obtain ⟨v', hv', hr⟩ := traceInv_get a b trace lastN 0 hinv hd
    rw [hv] at hv'; cases hv'
    obtain ⟨t, ht, rfl⟩ := hk
    have ht0 : t = 0 := by
      unfold nOf at ht
      split at ht <;> omega
    subst ht0
    have hp : procd 0 (nOf trace.length lastN 0) (-((0 : Nat) : Int) + 2 * ((0 : Nat) : Int)) := ⟨0, ht, rfl⟩
    rw [hr _]
    simp only [hp, if_true]
    have hs : startX (prevV trace 0) ((0 : Nat) : Int) (-((0 : Nat) : Int) + 2 * ((0 : Nat) : Int)) = 0 := by
      simp [startX, goesDown, prevV, Vinit]
    have := newX_ge_start a b (prevV trace 0) ((0 : Nat) : Int) (-((0 : Nat) : Int) + 2 * ((0 : Nat) : Int))
    rw [hs] at this
    constructor <;> omega
  | succ d ih =>
    intro hd v hv k hk
    obtain ⟨v', hv', hr⟩ := traceInv_get a b trace lastN (d + 1) hinv hd
    rw [hv] at hv'; cases hv'
    have hd' : d < trace.length := by omega
    obtain ⟨w, hw, _⟩ := hinv d hd'
    have hprev : prevV trace (d + 1) = w := by simp [prevV, hw]
    have hnd : nOf trace.length lastN d = d + 1 := by unfold nOf; simp [hd]
    have ihw := ih hd' w hw
    rw [hnd] at ihw
    obtain ⟨t, ht, rfl⟩ := hk
    have htle : t ≤ d + 1 := by
      unfold nOf at ht
      split at ht <;> omega
    have hp : procd (d + 1) (nOf trace.length lastN (d + 1)) (-((d + 1 : Nat) : Int) + 2 * (t : Int)) := ⟨t, ht, rfl⟩
    rw [hr _]
    simp only [hp, if_true, hprev]
    have hge := newX_ge_start a b w ((d + 1 : Nat) : Int) (-((d + 1 : Nat) : Int) + 2 * (t : Int))
    -- bound the start point
    have hstart : 0 ≤ startX w ((d + 1 : Nat) : Int) (-((d + 1 : Nat) : Int) + 2 * (t : Int)) ∧
        (-((d + 1 : Nat) : Int) + 2 * (t : Int)) ≤ startX w ((d + 1 : Nat) : Int) (-((d + 1 : Nat) : Int) + 2 * (t : Int)) := by
      unfold startX
      by_cases hg : goesDown w ((d + 1 : Nat) : Int) (-((d + 1 : Nat) : Int) + 2 * (t : Int)) = true
      · simp only [hg, if_true]
        -- k+1 is processed in round d: t < d+1
        have ht2 : t < d + 1 := by
          unfold goesDown at hg
          simp only [Bool.or_eq_true, decide_eq_true_eq, Bool.and_eq_true, bne_iff_ne, ne_eq] at hg
          rcases hg with hg | hg
          · omega
          · have := hg.1; omega
        have := ihw (-((d + 1 : Nat) : Int) + 2 * (t : Int) + 1) ⟨t, ht2, by push_cast; omega⟩
        constructor <;> omega
      · simp only [hg, Bool.false_eq_true, if_false]
        have ht1 : 1 ≤ t := by
          unfold goesDown at hg
          simp only [Bool.or_eq_true, decide_eq_true_eq, not_or] at hg
          rcases Nat.eq_zero_or_pos t with h0 | h0
          · subst h0
            exact absurd (by push_cast; omega) hg.1
          · omega
        have := ihw (-((d + 1 : Nat) : Int) + 2 * (t : Int) - 1) ⟨t - 1, by omega, by push_cast; omega⟩
        constructor <;> omega
    constructor <;> omega

end RegalModel.Diff
