import RegalModel.Lemmas.DiffBack
/-!
From line operations to LSP text edits: `editsOfOps` under the client semantics `applyEdits` is `render`.
-/
namespace RegalModel.Diff
open List

/-- operations are ordered, non-overlapping, and inserts are empty ranges -/
def SortedFrom {α} : Nat → List (Op α) → Prop
  | _, [] => True
  | i, op :: rest => i ≤ op.i1 ∧ op.i1 ≤ op.i2 ∧ (op.kind = .insert → op.i2 = op.i1) ∧ SortedFrom op.i2 rest

theorem sortedFrom_weaken {α} (i j : Nat) (ops : List (Op α)) (h : i ≤ j) (hs : SortedFrom j ops) : SortedFrom i ops := by
  cases ops with
  | nil => trivial
  | cons op rest => exact ⟨by have := hs.1; omega, hs.2⟩

theorem sortedFrom_head {α} (i : Nat) (ops : List (Op α)) (hs : SortedFrom i ops) :
    ∀ op, ops.head? = some op → i ≤ op.i1 := by
  cases ops with
  | nil => intro op h; cases h
  | cons o rest => intro op h; cases h; exact hs.1

theorem walk_sorted {α} (M N : Nat) (b : List α) (snakes : List (Option (Int × Int))) (x y : Nat) :
    SortedFrom x (walk M N b snakes x y) := by
  induction snakes generalizing x y with
  | nil => simp [walk, SortedFrom]
  | cons s rest ih =>
    cases s with
    | none => simpa [walk] using ih x y
    | some p =>
      obtain ⟨sx, sy⟩ := p
      obtain ⟨h1, _, h3, _, _, _⟩ := snakeStep_spec M b sx sy x y
      have hrest := ih ((snakeStep M b sx sy x y).x1 + (snakeStep M b sx sy x y).diag)
        ((snakeStep M b sx sy x y).y1 + (snakeStep M b sx sy x y).diag)
      -- the tail after this snake's own operations, sorted from x1
      have key : ∀ tail : List (Op α), SortedFrom (snakeStep M b sx sy x y).x1 tail →
          SortedFrom x ((snakeStep M b sx sy x y).ops ++ tail) := by
        intro tail ht
        rw [h3]
        by_cases hd : sx - sy > (x : Int) - y <;> by_cases hi : sx - sy < ((snakeStep M b sx sy x y).x1 : Int) - y
        · simp only [hd, hi, if_true, List.cons_append, List.nil_append, SortedFrom]
          simp [ht, h1]
        · simp only [hd, hi, if_true, if_false, List.cons_append, List.nil_append, List.append_nil, SortedFrom]
          simp [ht, h1]
        · simp only [hd, hi, if_true, if_false, List.cons_append, List.nil_append, SortedFrom]
          simp [ht, h1]
        · simp only [hd, hi, if_false, List.nil_append]
          exact sortedFrom_weaken _ _ _ h1 ht
      simp only [walk]
      split
      · have := key [] trivial
        simpa using this
      · exact key _ (sortedFrom_weaken _ _ _ (Nat.le_add_right _ _) hrest)

theorem applyEdits_render (lines : List (List Char)) (ops : List (Op (List Char))) :
    ∀ i, SortedFrom i ops → applyEdits lines i (editsOfOps ops) = (render lines i ops).flatten := by
  induction ops with
  | nil => intro i _; simp [editsOfOps, applyEdits, render]
  | cons op rest ih =>
    intro i hs
    obtain ⟨h1, h2, h3, h4⟩ := hs
    cases hk : op.kind with
    | delete =>
      have he : editsOfOps (op :: rest) = { l1 := op.i1, l2 := op.i2, text := [] } :: editsOfOps rest := by
        simp [editsOfOps, hk]
      rw [he]
      simp only [applyEdits, render, hk, List.append_nil, List.flatten_append]
      have : max i op.i2 = op.i2 := by omega
      rw [this, ih op.i2 h4]
    | insert =>
      have hi2 := h3 hk
      by_cases hc : op.content.flatten = []
      · have he : editsOfOps (op :: rest) = editsOfOps rest := by
          simp only [editsOfOps, List.filterMap_cons, hk, hc, if_true]
        rw [he, ih i (sortedFrom_weaken _ _ _ (by omega) h4)]
        rw [render_shift lines i op.i1 rest h1 (sortedFrom_head _ _ (hi2 ▸ h4))]
        simp only [render, hk, List.flatten_append, hc, List.nil_append]
      · have he : editsOfOps (op :: rest) =
            { l1 := op.i1, l2 := op.i2, text := op.content.flatten } :: editsOfOps rest := by
          simp only [editsOfOps, List.filterMap_cons, hk, hc, if_false]
        rw [he]
        simp only [applyEdits, render, hk, List.flatten_append, List.append_assoc]
        have : max i op.i2 = op.i1 := by omega
        rw [this, ih op.i1 (hi2 ▸ h4)]

end RegalModel.Diff
