import RegalModel.Model.Diff
/-! Correctness of the `operations` walk and of `render`, for any list of snakes that forms a good chain. -/
namespace RegalModel.Diff
open List

variable {α : Type}

theorem delLoop_ge (M : Nat) (sk : Int) (y : Nat) (fuel x : Nat) : x ≤ delLoop M sk y fuel x := by
  induction fuel generalizing x with
  | zero => simp [delLoop]
  | succ f ih =>
    unfold delLoop
    split
    · split
      · omega
      · exact Nat.le_trans (Nat.le_succ x) (ih (x + 1))
    · exact Nat.le_refl x

theorem delLoop_noop (M : Nat) (sk : Int) (y : Nat) (fuel x : Nat) (h : ¬ sk > (x : Int) - y) :
    delLoop M sk y fuel x = x := by
  cases fuel with
  | zero => rfl
  | succ f => simp [delLoop, h]

theorem insLoop_ge (sk : Int) (x : Nat) (fuel y : Nat) : y ≤ insLoop sk x fuel y := by
  induction fuel generalizing y with
  | zero => simp [insLoop]
  | succ f ih =>
    unfold insLoop
    split
    · exact Nat.le_trans (Nat.le_succ y) (ih (y + 1))
    · exact Nat.le_refl y

theorem insLoop_noop (sk : Int) (x : Nat) (fuel y : Nat) (h : ¬ sk < (x : Int) - y) : insLoop sk x fuel y = y := by
  cases fuel with
  | zero => rfl
  | succ f => simp [insLoop, h]

theorem snakeStep_spec (M : Nat) (b : List α) (sx sy : Int) (x y : Nat) :
    let s := snakeStep M b sx sy x y
    x ≤ s.x1 ∧ y ≤ s.y1 ∧
    s.ops = (if sx - sy > (x : Int) - y then [({ kind := .delete, i1 := x, i2 := s.x1, j1 := y, content := [] } : Op α)] else [])
        ++ (if sx - sy < (s.x1 : Int) - y then
              [({ kind := .insert, i1 := s.x1, i2 := s.x1, j1 := y, content := (b.drop y).take (s.y1 - y) } : Op α)] else []) ∧
    (¬ sx - sy > (x : Int) - y → s.x1 = x) ∧ (¬ sx - sy < (s.x1 : Int) - y → s.y1 = y) ∧
    s.diag = (sx - s.x1).toNat := by
  refine ⟨delLoop_ge _ _ _ _ _, insLoop_ge _ _ _ _, rfl, delLoop_noop _ _ _ _ _, insLoop_noop _ _ _ _, rfl⟩

/-- what `operations` needs of the snake list, from state (x, y): indices stay inside the documents
(otherwise Go panics on `b[op.J1:j2]`), every diagonal run covers equal lines, and the walk ends
exactly at (M, N) -/
def GoodFrom (a b : List α) : List (Option (Int × Int)) → Nat → Nat → Prop
  | [], x, y => x = a.length ∧ y = b.length
  | none :: rest, x, y => GoodFrom a b rest x y
  | some (sx, sy) :: rest, x, y =>
    let s := snakeStep a.length b sx sy x y
    s.x1 + s.diag ≤ a.length ∧ s.y1 + s.diag ≤ b.length ∧
    (a.drop s.x1).take s.diag = (b.drop s.y1).take s.diag ∧
    (if s.x1 + s.diag ≥ a.length ∧ s.y1 + s.diag ≥ b.length then True
     else GoodFrom a b rest (s.x1 + s.diag) (s.y1 + s.diag))

theorem render_shift (a : List α) (x1 x2 : Nat) (ops : List (Op α)) (h : x1 ≤ x2)
    (hh : ∀ op, ops.head? = some op → x2 ≤ op.i1) :
    render a x1 ops = (a.drop x1).take (x2 - x1) ++ render a x2 ops := by
  cases ops with
  | nil =>
    simp only [render]
    have : a.drop x2 = (a.drop x1).drop (x2 - x1) := by
      rw [List.drop_drop]; congr 1; omega
    rw [this, List.take_append_drop]
  | cons op rest =>
    have hop := hh op rfl
    simp only [render]
    rw [← List.append_assoc]
    congr 1
    have e1 : op.i1 - x1 = (x2 - x1) + (op.i1 - x2) := by omega
    rw [e1, List.take_add]
    congr 1
    rw [List.drop_drop]
    congr 2
    omega

theorem walk_head_ge (M N : Nat) (b : List α) (snakes : List (Option (Int × Int))) (x y : Nat) :
    ∀ op, (walk M N b snakes x y).head? = some op → x ≤ op.i1 := by
  induction snakes generalizing x y with
  | nil => intro op h; simp [walk] at h
  | cons s rest ih =>
    cases s with
    | none => simpa [walk] using ih x y
    | some p =>
      obtain ⟨sx, sy⟩ := p
      intro op h
      simp only [walk] at h
      obtain ⟨hx1, _, hops, _, _, _⟩ := snakeStep_spec M b sx sy x y
      generalize snakeStep M b sx sy x y = s at h hx1 hops
      -- the head of s.ops, if any, starts at x or at s.x1 ≥ x
      have hhead : ∀ o, s.ops.head? = some o → x ≤ o.i1 := by
        intro o ho
        rw [hops] at ho
        by_cases hd : sx - sy > (x : Int) - y
        · simp only [hd, if_true, List.cons_append, List.head?_cons, Option.some.injEq] at ho
          subst ho; exact Nat.le_refl _
        · simp only [hd, if_false, List.nil_append] at ho
          by_cases hi : sx - sy < (s.x1 : Int) - y
          · simp only [hi, if_true, List.head?_cons, Option.some.injEq] at ho
            subst ho; exact hx1
          · simp [hi] at ho
      split at h
      · exact hhead op h
      · cases hso : s.ops with
        | nil =>
          rw [hso, List.nil_append] at h
          exact Nat.le_trans (Nat.le_trans hx1 (Nat.le_add_right _ _)) (ih _ _ op h)
        | cons o os =>
          rw [hso] at h
          simp only [List.cons_append, List.head?_cons, Option.some.injEq] at h
          subst h
          exact hhead o (by rw [hso]; rfl)

/-- **operations_render**: replaying the operations produced by the walk over a good chain turns `a`
(from line x on) into `b` (from line y on) -/
theorem walk_render (a b : List α) (snakes : List (Option (Int × Int))) (x y : Nat)
    (hg : GoodFrom a b snakes x y) :
    render a x (walk a.length b.length b snakes x y) = b.drop y := by
  induction snakes generalizing x y with
  | nil =>
    obtain ⟨rfl, rfl⟩ := hg
    simp [walk, render]
  | cons s rest ih =>
    cases s with
    | none => exact ih x y hg
    | some p =>
      obtain ⟨sx, sy⟩ := p
      simp only [GoodFrom] at hg
      simp only [walk]
      obtain ⟨hx1, hy1, hops, hx1n, hy1n, _⟩ := snakeStep_spec a.length b sx sy x y
      generalize snakeStep a.length b sx sy x y = s at hg hx1 hy1 hops hx1n hy1n ⊢
      obtain ⟨hbx, hby, heq, hrest⟩ := hg
      -- the tail of the computation, rendered from cursor s.x1
      have htail : ∀ tailOps : List (Op α),
          (tailOps = [] ∧ s.x1 + s.diag = a.length ∧ s.y1 + s.diag = b.length) ∨
          (tailOps = walk a.length b.length b rest (s.x1 + s.diag) (s.y1 + s.diag) ∧
            GoodFrom a b rest (s.x1 + s.diag) (s.y1 + s.diag)) →
          render a s.x1 tailOps = b.drop s.y1 := by
        intro tailOps ht
        rcases ht with ⟨rfl, hxe, hye⟩ | ⟨rfl, hgr⟩
        · simp only [render]
          have h1 : a.drop s.x1 = (a.drop s.x1).take s.diag := by
            rw [List.take_of_length_le]; simp; omega
          have h2 : b.drop s.y1 = (b.drop s.y1).take s.diag := by
            rw [List.take_of_length_le]; simp; omega
          rw [h1, h2, heq]
        · rw [render_shift a s.x1 (s.x1 + s.diag) _ (by omega) (walk_head_ge _ _ _ _ _ _)]
          rw [ih _ _ hgr]
          have : s.x1 + s.diag - s.x1 = s.diag := by omega
          rw [this, heq]
          have : b.drop (s.y1 + s.diag) = (b.drop s.y1).drop s.diag := by rw [List.drop_drop]
          rw [this, List.take_append_drop]
      -- the insert part, rendered from cursor s.x1
      have hins : ∀ tailOps : List (Op α), render a s.x1 tailOps = b.drop s.y1 →
          render a s.x1 ((if sx - sy < (s.x1 : Int) - y then
            [({ kind := .insert, i1 := s.x1, i2 := s.x1, j1 := y, content := (b.drop y).take (s.y1 - y) } : Op α)] else [])
              ++ tailOps) = b.drop y := by
        intro tailOps ht
        by_cases hi : sx - sy < (s.x1 : Int) - y
        · simp only [hi, if_true, List.cons_append, List.nil_append, render, Nat.sub_self, List.take_zero]
          rw [ht]
          have : b.drop s.y1 = (b.drop y).drop (s.y1 - y) := by rw [List.drop_drop]; congr 1; omega
          rw [this]
          exact List.take_append_drop _ _
        · simp only [hi, if_false, List.nil_append]
          rw [hy1n hi] at ht
          exact ht
      -- the delete part, rendered from cursor x
      have hdel : ∀ tailOps : List (Op α), render a s.x1 tailOps = b.drop y →
          render a x ((if sx - sy > (x : Int) - y then
            [({ kind := .delete, i1 := x, i2 := s.x1, j1 := y, content := [] } : Op α)] else []) ++ tailOps) = b.drop y := by
        intro tailOps ht
        by_cases hd : sx - sy > (x : Int) - y
        · simp only [hd, if_true, List.cons_append, List.nil_append, render, Nat.sub_self, List.take_zero,
            List.nil_append]
          exact ht
        · simp only [hd, if_false, List.nil_append]
          rw [hx1n hd] at ht
          exact ht
      rw [hops]
      by_cases hb : s.x1 + s.diag ≥ a.length ∧ s.y1 + s.diag ≥ b.length
      · simp only [hb, and_self, if_true]
        have := hdel _ (hins [] (htail [] (Or.inl ⟨rfl, by omega, by omega⟩)))
        simpa [List.append_assoc] using this
      · simp only [hb, if_false] at hrest ⊢
        have := hdel _ (hins _ (htail _ (Or.inr ⟨rfl, hrest⟩)))
        simpa [List.append_assoc] using this

end RegalModel.Diff
