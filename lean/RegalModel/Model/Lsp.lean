/-
Model of the diagnostics pipeline of internal/lsp/server.go (`StartDiagnosticsWorker`, the event handlers) and
of internal/lsp/cache/cache.go `SetFileDiagnosticsForRules`.

The pipeline is modelled at the protocol level: which derived data is *stale* and which jobs are queued.
Worker steps are atomic (the real workers interleave at a finer grain; the free-running harness samples that).
`fixed = true` is the tree after the repair of `workspace/didDeleteFiles` / `didRenameFiles` (they enqueue an
aggregate-only workspace job); `fixed = false` is the code as it was.
-/
namespace RegalModel.Lsp

structure Diag where
  code : String
  line : Nat
  deriving DecidableEq, Repr

/-- `SetFileDiagnosticsForRules`: keep the diagnostics of other rules, replace those of `rules` -/
def setForRules (current : List Diag) (rules : List String) (new : List Diag) : List Diag :=
  current.filter (fun d => !rules.contains d.code) ++ new

abbrev Uri := String

structure St where
  files : List Uri            -- files of the workspace (cache)
  fileStale : List Uri        -- single-file results (parse, file diagnostics, aggregates of that file) older than the content
  aggStale : Bool             -- cross-file diagnostics older than the cached aggregates / file set
  fileJobs : List Uri         -- lintFileJobs
  wsJobs : Nat                -- aggregate-capable jobs in lintWorkspaceJobs + workspaceLintRuns
  deriving Repr

inductive Ev where
  | change (u : Uri)          -- didOpen / didChange / didCreate / didRename(new uri): content set, file job queued
  | delete (u : Uri)          -- didDeleteFiles / the old uri of a rename
  | config                    -- config reloaded: a full workspace job is queued
  | fileWorker                -- the file worker takes one job
  | dispatchDrop              -- the dispatcher drops an aggregate-only job (rate limiter)
  | wsWorker                  -- the workspace worker runs one job
  deriving Repr

def rateLimit : Nat := 5      -- `len(workspaceLintRuns) > workspaceLintRunBufferSize/2`

def step (fixed : Bool) (s : St) : Ev → St
  | .change u =>
    { s with files := if s.files.contains u then s.files else s.files ++ [u],
             fileStale := if s.fileStale.contains u then s.fileStale else s.fileStale ++ [u],
             fileJobs := s.fileJobs ++ [u] }
  | .delete u =>
    { s with files := s.files.filter (· ≠ u), fileStale := s.fileStale.filter (· ≠ u),
             aggStale := true,                     -- the file's aggregates left the cache
             wsJobs := if fixed then s.wsJobs + 1 else s.wsJobs }
  | .config => { s with aggStale := true, fileStale := s.fileStale, wsJobs := s.wsJobs + 1 }
  | .fileWorker =>
    match s.fileJobs with
    | [] => s
    | u :: rest =>
      -- lint the file (if it still exists), store its aggregates, queue an aggregate-only workspace job
      { s with fileJobs := rest,
               fileStale := if rest.contains u then s.fileStale else s.fileStale.filter (· ≠ u),
               aggStale := true, wsJobs := s.wsJobs + 1 }
  | .dispatchDrop => if s.wsJobs > 5 then { s with wsJobs := s.wsJobs - 1 } else s
  | .wsWorker =>
    if s.wsJobs = 0 then s
    else { s with wsJobs := s.wsJobs - 1,
                  -- the run uses the aggregates cached at this moment; it is current unless file jobs are still
                  -- queued (each of them queues another run) or further runs are queued behind it
                  aggStale := decide (s.fileJobs ≠ []) }

def quiescent (s : St) : Bool := s.fileJobs.isEmpty && s.wsJobs = 0

/-- everything published is current -/
def current (s : St) : Bool := s.fileStale.isEmpty && !s.aggStale

def init (files : List Uri) : St := { files := files, fileStale := [], aggStale := false, fileJobs := [], wsJobs := 0 }

end RegalModel.Lsp
