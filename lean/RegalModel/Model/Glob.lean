/-
Model of the two gitignore-style pattern compilers of Regal (property C05):

* Go   : pkg/config/filter.go      `excludeFile`, `filterPaths`, `FilterIgnoredPaths` (prefix normalisation)
* Rego : bundle/regal/config/exclusion.rego `_pattern_compiler`, `_internal_slashes`,
         `_leading_doublestar_pattern`, `_trailing_slash`, `_exclude`, `_global_ignore_patterns`,
         `excluded_file`; bundle/regal/main/main.rego `_file_name_relative_to_root`

Strings are `List Char` (code points).  Go works on bytes; the only byte-level
operations it uses are prefix/suffix/contains tests against the ASCII strings
"/", "**/", "**" and dropping the last byte before looking for "/".  Because
every byte of a multi-byte UTF-8 sequence is ≥ 0x80 these coincide with the
code-point versions (hypothesis `Utf8Facts` of DESIGN §3; sampled by the
correspondence check with multi-byte names).

The glob matcher itself (gobwas/glob, used by both sides with separator '/')
is a parameter `gm : Str → Str → Bool`.
-/
namespace RegalModel.Glob

abbrev Str := List Char

def s (x : String) : Str := x.toList

def hasPrefix (p x : Str) : Bool := p.isPrefixOf x
def hasSuffix (p x : Str) : Bool := p.isSuffixOf x
def trimPrefix (p x : Str) : Str := if p.isPrefixOf x then x.drop p.length else x

/-! ### Go side: `excludeFile` -/

/-- `if !strings.Contains(pattern[:n-1], "/") { pattern = "**/" + pattern }` -/
def goInternal (p : Str) : Str :=
  if '/' ∈ p.dropLast then p else s "**/" ++ p

/-- the `ps` slice -/
def goLeading (p : Str) : List Str :=
  if hasPrefix (s "**/") p then [p, trimPrefix (s "**/") p] else [p]

/-- one iteration of the `switch` building `ps1` -/
def goTrailing (p : Str) : List Str :=
  if hasSuffix (s "/") p then [p ++ s "**"]
  else if !hasSuffix (s "/") p && !hasSuffix (s "**") p then [p, p ++ s "/**"]
  else [p]

/-- the list `ps1` of `excludeFile`, in order -/
def goPatterns (pattern : Str) : List Str :=
  let p := trimPrefix (s "/") (goInternal pattern)
  (goLeading p).flatMap goTrailing

/-- filename handling at the top of `excludeFile` (pathPrefix already normalised) -/
def goRel (filename pathPrefix : Str) : Str :=
  if pathPrefix ≠ [] then trimPrefix pathPrefix filename else filename

/-- `excludeFile` for a non-empty pattern (the only way `filterPaths` calls it) -/
def goExclude (gm : Str → Str → Bool) (pattern filename pathPrefix : Str) : Bool :=
  (goPatterns pattern).any fun p => gm p (goRel filename pathPrefix)

/-- normalisation in `FilterIgnoredPaths`: a non-empty prefix ends with the separator -/
def goNormPrefix (pathPrefix : Str) : Str :=
  if pathPrefix ≠ [] && !hasSuffix (s "/") pathPrefix then pathPrefix ++ s "/" else pathPrefix

/-- `filterPaths`: keep the files no non-empty pattern excludes, in order -/
def goFilterPaths (gm : Str → Str → Bool) (paths ignore : List Str) (pathPrefix : Str) : List Str :=
  paths.filter fun f => !(ignore.any fun pat => pat ≠ [] && goExclude gm pat f pathPrefix)

/-! ### Rego side: `exclusion.rego` -/

/-- `_internal_slashes` : `substring(pattern, 0, count(pattern)-1)` then `contains(s, "/")`.
For the empty pattern OPA's `substring(s, 0, -1)` returns the rest of the string (= ""), which
`dropLast` also gives. -/
def regoInternal (p : Str) : Str :=
  if '/' ∈ p.dropLast then p else s "**/" ++ p

/-- `_leading_doublestar_pattern` (a set; duplicates are harmless for membership) -/
def regoLeading (p : Str) : List Str :=
  if hasPrefix (s "**/") p then [p, p.drop 3] else [p]

/-- `_trailing_slash` : three-way else chain -/
def regoTrailing (p : Str) : List Str :=
  if !hasSuffix (s "/") p && !hasSuffix (s "**") p then [p, p ++ s "/**"]
  else if hasSuffix (s "/") p then [p ++ s "**"]
  else [p]

/-- `_pattern_compiler` (set comprehension) -/
def regoPatterns (pattern : Str) : List Str :=
  (regoLeading (trimPrefix (s "/") (regoInternal pattern))).flatMap regoTrailing

/-- `_exclude` (since the repair of the empty-pattern defect: `pattern != ""` first) -/
def regoExclude (gm : Str → Str → Bool) (pattern file : Str) : Bool :=
  pattern ≠ [] && (regoPatterns pattern).any fun p => gm p file

/-- `_file_name_relative_to_root` (two function clauses; they are mutually exclusive) -/
def regoRel (filename root : Str) : Str :=
  if root = s "/" then trimPrefix (s "/") filename
  else trimPrefix (root ++ s "/") filename

/-- relativisation used by the *custom rule* report clause of main.rego -/
def regoRelCustom (filename root : Str) : Str := trimPrefix (root ++ s "/") filename

/-- `_global_ignore_patterns` -/
def globalIgnore (cliIgnore cfgIgnore : List Str) : List Str :=
  if cliIgnore.length > 0 then cliIgnore else cfgIgnore

/-- Go: `ignore := conf.Ignore.Files; if len(l.ignoreFiles) > 0 { ignore = l.ignoreFiles }` -/
def goGlobalIgnore (cliIgnore cfgIgnore : List Str) : List Str :=
  if cliIgnore.length > 0 then cliIgnore else cfgIgnore

/-- `excluded_file(category, title, file)`; `ruleIgnore` = `for_rule(c,t).ignore.files` -/
def excludedFile (gm : Str → Str → Bool) (globalPats ruleIgnore : List Str) (file : Str) : Bool :=
  (globalPats.any fun p => regoExclude gm p file) || (ruleIgnore.any fun p => regoExclude gm p file)

end RegalModel.Glob
