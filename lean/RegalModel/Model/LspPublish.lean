/-
Publication order for ONE uri of the language server (`sendFileDiagnostics`, /repo internal/lsp/server.go): the client
shows whatever `textDocument/publishDiagnostics` notification arrived last. Publishers are the handlers (after
`cache.Delete` they publish the now empty list to clear the client) and the two lint workers (after storing results).

`sendFileDiagnostics` = read the diagnostics from the cache, then notify. Since /repo 792e3f5 both happen under
`publishLock` (one step, `publish`); before, a worker could be preempted between the two (`workerRead`, `workerNotify`).
Stores are guarded by `Cache.IfPresent` (`guarded = true`, /repo 8be5692): nothing is stored for an absent file.
-/
namespace RegalModel.LspPublish

abbrev Diag := String

structure St where
  present : Bool              -- the uri has contents in the cache
  cache : List Diag           -- cache.diagnosticsFile[uri] (parse errors folded in)
  pending : Bool              -- a handler has deleted the uri and has not sent its clearing notification yet
  held : Option (List Diag)   -- a worker has read the diagnostics and not notified yet (only without publishLock)
  published : List Diag       -- what the client shows
  deriving Repr, DecidableEq

inductive Ev where
  | change                    -- didOpen / didChange / didCreate / new uri of a rename
  | store (d : List Diag)     -- a worker stores lint results (through IfPresent when guarded)
  | delete                    -- handler: cache.Delete
  | handlerPublish            -- handler: sendFileDiagnostics after the delete
  | publish                   -- worker: sendFileDiagnostics under publishLock (read and notify in one step)
  | workerRead                -- worker, no lock: read …
  | workerNotify              -- … and notify later
  deriving Repr

def step (guarded : Bool) (s : St) : Ev → St
  | .change => { s with present := true }
  | .store d => if !guarded || s.present then { s with cache := d } else s
  | .delete => { s with present := false, cache := [], pending := true }
  | .handlerPublish => if s.pending then { s with published := s.cache, pending := false } else s
  | .publish => { s with published := s.cache }
  | .workerRead => { s with held := some s.cache }
  | .workerNotify =>
    match s.held with
    | some d => { s with published := d, held := none }
    | none => s

def init : St := { present := true, cache := [], pending := false, held := none, published := [] }

def run (guarded : Bool) (s : St) (evs : List Ev) : St := evs.foldl (step guarded) s

/-- the events of the tree as it is: publications are one step -/
def Serialized : Ev → Bool
  | .workerRead | .workerNotify => false
  | _ => true

/-- nothing is cached for an absent uri, and the client shows nothing for it unless the clearing notification of the
handler is still to come -/
def Inv (s : St) : Prop := s.held = none ∧ (s.present = false → s.cache = [] ∧ (s.pending = true ∨ s.published = []))

/-- no handler or worker is in the middle of anything -/
def quiescent (s : St) : Bool := !s.pending && s.held.isNone

end RegalModel.LspPublish
