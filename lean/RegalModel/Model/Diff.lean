/-
Model of internal/lsp/diff.go (`splitLines`, `shortestEditSequence`, `backtrack`, `operations`) and
internal/lsp/format.go (`ComputeEdits`), function by function.

* lines are elements of any type with decidable equality (`α`); documents are `List α`
* the array `V` (indexed by `k + offset`) is a total function `Int → Int` with point updates; that every
  index the Go code uses lies inside the allocated array is a separate arithmetic theorem
  (`Props/C16.lean: index_in_bounds`), so a Go "index out of range" panic cannot hide behind the
  totalisation
* loops run on explicit fuel that is provably sufficient
* a `nil` entry of `snakes` / `trace` is `none`; an impossible state of the Go code (it would panic or return
  garbage) makes the model return `none`
-/
namespace RegalModel.Diff

/-! ### splitLines -/

/-- `strings.SplitAfter(text, "\n")` with the trailing "" dropped -/
def splitLinesAux : List Char → List Char → List (List Char)
  | [], cur => if cur = [] then [] else [cur.reverse]
  | c :: rest, cur => if c = '\n' then (c :: cur).reverse :: splitLinesAux rest [] else splitLinesAux rest (c :: cur)

def splitLines (s : List Char) : List (List Char) := splitLinesAux s []

/-! ### operations -/

inductive Kind | delete | insert
  deriving DecidableEq, Repr

structure Op (α : Type) where
  kind : Kind
  i1 : Nat
  i2 : Nat
  j1 : Nat
  content : List α       -- b[j1:j2] for inserts
  deriving Repr

/-- `for snake[0]-snake[1] > x-y { x++; if x == M { break } }` — returns the new x -/
def delLoop (M : Nat) (sk : Int) (y : Nat) : Nat → Nat → Nat
  | 0, x => x
  | fuel + 1, x => if sk > (x : Int) - y then (if x + 1 = M then x + 1 else delLoop M sk y fuel (x + 1)) else x

/-- `for snake[0]-snake[1] < x-y { y++ }` — returns the new y -/
def insLoop (sk : Int) (x : Nat) : Nat → Nat → Nat
  | 0, y => y
  | fuel + 1, y => if sk < (x : Int) - y then insLoop sk x fuel (y + 1) else y

structure StepOut (α : Type) where
  ops : List (Op α)      -- the delete and/or insert operation added for this snake
  x1 : Nat               -- x after the delete loop
  y1 : Nat               -- y after the insert loop
  diag : Nat             -- number of diagonal steps (`for x < snake[0] { x++; y++ }`)

/-- the body of the `for _, snake := range snakes` loop for one non-nil snake, from state (x, y) -/
def snakeStep {α} (M : Nat) (b : List α) (sx sy : Int) (x y : Nat) : StepOut α :=
  let sk := sx - sy
  let x1 := delLoop M sk y ((sk - ((x : Int) - y)).toNat) x
  let dels : List (Op α) := if sk > (x : Int) - y then [{ kind := .delete, i1 := x, i2 := x1, j1 := y, content := [] }] else []
  let y1 := insLoop sk x1 (((x1 : Int) - y - sk).toNat) y
  let inss : List (Op α) := if sk < (x1 : Int) - y then
      [{ kind := .insert, i1 := x1, i2 := x1, j1 := y, content := (b.drop y).take (y1 - y) }] else []
  { ops := dels ++ inss, x1 := x1, y1 := y1, diag := (sx - x1).toNat }

/-- the loop over the snakes; `break` when `x >= M && y >= N` -/
def walk {α} (M N : Nat) (b : List α) : List (Option (Int × Int)) → Nat → Nat → List (Op α)
  | [], _, _ => []
  | none :: rest, x, y => walk M N b rest x y
  | some (sx, sy) :: rest, x, y =>
    let s := snakeStep M b sx sy x y
    if s.x1 + s.diag ≥ M ∧ s.y1 + s.diag ≥ N then s.ops else s.ops ++ walk M N b rest (s.x1 + s.diag) (s.y1 + s.diag)

/-! ### shortestEditSequence -/

abbrev V := Int → Int

def upd (v : V) (k x : Int) : V := fun j => if j = k then x else v j

/-- `for x < M && y < N && a[x] == b[y] { x++; y++ }` — number of diagonal steps -/
def slide {α} [DecidableEq α] : List α → List α → Nat
  | a :: as, b :: bs => if a = b then slide as bs + 1 else 0
  | _, _ => 0

/-- the start point chosen for diagonal k in round d: down (`V[k+1]`) or right (`V[k-1] + 1`) -/
def goesDown (v : V) (d k : Int) : Bool := k = -d || (k ≠ d && decide (v (k - 1) < v (k + 1)))

def startX (v : V) (d k : Int) : Int := if goesDown v d k then v (k + 1) else v (k - 1) + 1

/-- one iteration of the inner loop: new V and whether `(M, N)` was reached -/
def stepK {α} [DecidableEq α] (a b : List α) (v : V) (d k : Int) : V × Bool :=
  let x0 := startX v d k
  let y0 := x0 - k
  let s : Nat := if 0 ≤ x0 ∧ 0 ≤ y0 then slide (a.drop x0.toNat) (b.drop y0.toNat) else 0
  let x := x0 + s
  (upd v k x, decide (x = a.length ∧ x - k = b.length))

/-- the inner loop `for k := -d; k <= d; k += 2`, `i` counts iterations: k = -d + 2i -/
def rowLoop {α} [DecidableEq α] (a b : List α) (d : Nat) : Nat → Nat → V → V × Bool
  | 0, _, v => (v, false)
  | fuel + 1, i, v =>
    let k : Int := -(d : Int) + 2 * i
    if k > d then (v, false) else
      let (v', fin) := stepK a b v d k
      if fin then (v', true) else rowLoop a b d fuel (i + 1) v'

/-- the outer loop; returns the trace (one V per round, oldest first) or none (`return nil, 0`) -/
def sesLoop {α} [DecidableEq α] (a b : List α) : Nat → Nat → V → List V → Option (List V)
  | 0, _, _, _ => none
  | fuel + 1, d, v, trace =>
    let (v', fin) := rowLoop a b d (d + 1) 0 v
    if fin then some (trace ++ [v']) else sesLoop a b fuel (d + 1) v' (trace ++ [v'])

def shortestEditSequence {α} [DecidableEq α] (a b : List α) : Option (List V) :=
  sesLoop a b (a.length + b.length + 1) 0 (fun _ => 0) []

/-! ### backtrack -/

/-- the loop `for ; x > 0 && y > 0 && d > 0; d--`; returns the snakes recorded for rounds d, d-1, …
(newest first) together with the state (d, x, y) the loop stopped in -/
def backLoop (trace : List V) : Nat → Nat → Int → Int → List (Nat × Int × Int) → Option (Nat × Int × Int × List (Nat × Int × Int))
  | 0, d, x, y, acc => if x > 0 ∧ y > 0 ∧ d > 0 then none else some (d, x, y, acc)
  | fuel + 1, d, x, y, acc =>
    if x > 0 ∧ y > 0 ∧ d > 0 then
      match trace[d]? with
      | none => none
      | some v =>
        let k := x - y
        let kPrev := if goesDown v d k then k + 1 else k - 1
        let x' := v kPrev
        backLoop trace fuel (d - 1) x' (x' - kPrev) ((d, x, y) :: acc)
    else some (d, x, y, acc)

/-- `backtrack`: the Go function returns a slice indexed by round with nil holes; `operations` iterates it in
index order and skips the holes, so the slice is represented by its non-nil entries `(round, x, y)` in index
order (the recorded list is built newest-first while the round decreases, hence ascending) -/
def backtrack (trace : List V) (M N : Nat) : Option (List (Nat × Int × Int)) :=
  if trace = [] then none else
  match backLoop trace trace.length (trace.length - 1) M N [] with
  | none => none
  | some (d, x, y, acc) => some (if x < 0 ∨ y < 0 then acc else (d, x, y) :: acc)

def snakesOf (recorded : List (Nat × Int × Int)) : List (Option (Int × Int)) :=
  recorded.map fun e => some (e.2.1, e.2.2)

/-! ### operations / ComputeEdits -/

def operations {α} [DecidableEq α] (a b : List α) : Option (List (Op α)) :=
  if a = [] ∧ b = [] then some [] else
  match shortestEditSequence a b with
  | none => none              -- Go: `snakes := make([][]int, 0)`; `snakes[-1]` panics
  | some trace =>
    match backtrack trace a.length b.length with
    | none => none
    | some recorded => some (walk a.length b.length b (snakesOf recorded) 0 0)

/-- an LSP text edit at line granularity: replace lines `[l1, l2)` (character 0) by `text` -/
structure Edit where
  l1 : Nat
  l2 : Nat
  text : List Char
  deriving Repr, DecidableEq

def editsOfOps (ops : List (Op (List Char))) : List Edit :=
  ops.filterMap fun op =>
    match op.kind with
    | .delete => some { l1 := op.i1, l2 := op.i2, text := [] }
    | .insert =>
      let c := op.content.flatten
      if c = [] then none else some { l1 := op.i1, l2 := op.i2, text := c }

def computeEdits (before after : List Char) : Option (List Edit) :=
  (operations (splitLines before) (splitLines after)).map editsOfOps

/-! ### the client side -/

/-- applying line operations to `a` from cursor `i` (all ranges refer to the ORIGINAL document) -/
def render {α} (a : List α) : Nat → List (Op α) → List α
  | i, [] => a.drop i
  | i, op :: rest =>
    (a.drop i).take (op.i1 - i) ++
      (match op.kind with
       | .delete => render a op.i2 rest
       | .insert => op.content ++ render a op.i1 rest)

/-- LSP client semantics restricted to whole-line edits `(l1,0)-(l2,0)`: edits are applied to the original
document; a line index equal to the number of lines denotes the end of the document -/
def applyEdits (lines : List (List Char)) : Nat → List Edit → List Char
  | i, [] => (lines.drop i).flatten
  | i, e :: rest => ((lines.drop i).take (e.l1 - i)).flatten ++ e.text ++ applyEdits lines (max i e.l2) rest

end RegalModel.Diff
