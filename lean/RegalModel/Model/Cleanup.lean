/-
Model of `util.DirCleanUpPaths(target, preserve)` (internal/util/util.go) as used by `regal fix` after a file was
moved away: which directories are removed. Paths are absolute, given as lists of components (the root is `[]`).

  preserveDirs := every preserve path and its ancestors (stopping before "/")
  dir := Dir(target)
  for dir ∉ preserveDirs:  every entry of dir is the target or the directory collected last → collect dir, go up;
                           otherwise stop
-/
namespace RegalModel.Cleanup

abbrev Str := String
abbrev Path := List Str

structure FS where
  files : List Path
  dirs : List Path          -- explicitly existing (possibly empty) directories
  deriving Repr

def parent (p : Path) : Path := p.dropLast

/-- the direct entries of `dir`: first component below it of every file / directory underneath -/
def entries (fs : FS) (dir : Path) : List Path :=
  ((fs.files ++ fs.dirs).filterMap fun p =>
    if dir.isPrefixOf p && dir.length < p.length then some (p.take (dir.length + 1)) else none).eraseDups

/-- ancestors-or-self of a path, the root excluded (`if p == "/" { break }`) -/
def ancestors (p : Path) : List Path := (List.range p.length).map fun i => p.take (p.length - i)

def preserveDirs (preserve : List Path) : List Path := preserve.flatMap ancestors

def cleanLoop (fs : FS) (target : Path) (pres : List Path) : Nat → Path → Option Path → List Path
  | 0, _, _ => []
  | fuel + 1, dir, last =>
    if pres.contains dir then []
    else if (entries fs dir).all (fun e => e == target || some e == last) then
      dir :: cleanLoop fs target pres fuel (parent dir) (some dir)
    else []

def dirCleanUpPaths (fs : FS) (target : Path) (preserve : List Path) : List Path :=
  cleanLoop fs target (preserveDirs preserve) target.length (parent target) none

end RegalModel.Cleanup
