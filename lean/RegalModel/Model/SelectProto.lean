/-
Model of the wait / error protocol at the end of pkg/linter/linter.go `lintWithRegoRules`:

  n workers, each ends by either merging its result (ok) or sending one error to the buffered
  `errCh` (capacity n, so the send never blocks) and then `wg.Done()`; a waiter goroutine does
  `wg.Wait(); doneCh <- true`; the main goroutine runs one `select` over `errCh` and `doneCh`
  (the `ctx.Done()` case needs an external cancel and is left out).

`fixed = true` is the tree after the repair (after `<-doneCh` the error channel is polled once more),
`fixed = false` the code as it was (the report is returned at once).
-/
namespace RegalModel.SelectProto

structure PState where
  n : Nat                 -- number of workers
  pending : Nat           -- workers still running
  merged : Nat            -- workers that merged their result
  erred : Nat             -- workers that failed (ever)
  inChan : Nat            -- errors currently in errCh
  result : Option Bool    -- none: main is waiting; some true: report returned; some false: error returned
  deriving Repr, DecidableEq

def init (n : Nat) : PState := { n := n, pending := n, merged := 0, erred := 0, inChan := 0, result := none }

inductive Step (fixed : Bool) : PState → PState → Prop
  | workerOk (s : PState) : s.pending > 0 →
      Step fixed s { s with pending := s.pending - 1, merged := s.merged + 1 }
  | workerErr (s : PState) : s.pending > 0 →
      Step fixed s { s with pending := s.pending - 1, erred := s.erred + 1, inChan := s.inChan + 1 }
  | selectErr (s : PState) : s.result = none → s.inChan > 0 →
      Step fixed s { s with inChan := s.inChan - 1, result := some false }
  | selectDone (s : PState) : s.result = none → s.pending = 0 →
      Step fixed s { s with result := some (if fixed then decide (s.inChan = 0) else true) }

inductive Reachable (fixed : Bool) : PState → Prop
  | init (n : Nat) : Reachable fixed (init n)
  | step {s t : PState} : Reachable fixed s → Step fixed s t → Reachable fixed t

/-- bookkeeping invariant of every reachable state -/
def Inv (s : PState) : Prop :=
  s.pending + s.merged + s.erred = s.n ∧ (s.result = none → s.inChan = s.erred) ∧ s.inChan ≤ s.erred

end RegalModel.SelectProto
