/-
A finer model of the language server's cache than `Model/Lsp.lean`: the file worker is NOT atomic. A job first reads
the file's contents (`start`), then parses and lints for a while, then stores the module (`updateParse`) and the file's
aggregates (`updateFileDiagnostics`) — and the file may be deleted or renamed away in between.

`guarded = true` is the tree after the repairs "do not re-create the module / the aggregates of a file deleted while it
was being parsed / linted" (the stores re-check that the file's contents are still cached); `guarded = false` is the
code as it was.

In `step` the re-check and the store are ONE step. That is what /repo does since 8be5692 (`Cache.IfPresent` runs the
check and the stores under the lock `Cache.Delete` takes; tie: facts.lspstores). Before that commit the check and the
store were two steps of the worker (`step2`, event `check`), and a delete could land between them.
-/
namespace RegalModel.LspCache

abbrev Uri := String

structure St where
  files : List Uri            -- cache.fileContents
  modules : List Uri          -- cache.modules
  aggs : List Uri             -- cache.aggregateData (files that have an entry)
  jobs : List Uri             -- lintFileJobs
  inflight : Option Uri       -- the job the file worker is working on (contents already read)
  deriving Repr

inductive Ev where
  | change (u : Uri)          -- didOpen / didChange / didCreate: contents stored, job queued
  | delete (u : Uri)          -- didDeleteFiles / old uri of a rename: cache.Delete
  | start                     -- the worker takes a job and reads the contents (skips the job if they are gone)
  | storeModule               -- updateParse finished: SetModule
  | storeAggs                 -- updateFileDiagnostics finished: SetFileAggregates, job done
  deriving Repr

def step (guarded : Bool) (s : St) : Ev → St
  | .change u => { s with files := if s.files.contains u then s.files else u :: s.files, jobs := s.jobs ++ [u] }
  | .delete u => { s with files := s.files.filter (· ≠ u), modules := s.modules.filter (· ≠ u),
                          aggs := s.aggs.filter (· ≠ u) }
  | .start =>
    match s.inflight, s.jobs with
    | none, u :: rest => if s.files.contains u then { s with jobs := rest, inflight := some u } else { s with jobs := rest }
    | _, _ => s
  | .storeModule =>
    match s.inflight with
    | some u => if !guarded || s.files.contains u then { s with modules := u :: s.modules } else s
    | none => s
  | .storeAggs =>
    match s.inflight with
    | some u => if !guarded || s.files.contains u then { s with aggs := u :: s.aggs, inflight := none }
                else { s with inflight := none }
    | none => s

/-- the worker of /repo before 8be5692: the re-check (`check`) and the stores are separate steps. `checked` is the
worker's local "the file was still there when I looked". -/
structure St2 where
  s : St
  checked : Bool
  deriving Repr

inductive Ev2 where
  | ev (e : Ev)
  | check                     -- `if _, ok := cache.GetFileContents(uri); !ok { return }`
  deriving Repr

def step2 (t : St2) : Ev2 → St2
  | .check => { t with checked := match t.s.inflight with | some u => t.s.files.contains u | none => false }
  | .ev .storeModule =>
    match t.s.inflight with
    | some u => if t.checked then { t with s := { t.s with modules := u :: t.s.modules } } else t
    | none => t
  | .ev .storeAggs =>
    match t.s.inflight with
    | some u => if t.checked then { s := { t.s with aggs := u :: t.s.aggs, inflight := none }, checked := false }
                else { s := { t.s with inflight := none }, checked := false }
    | none => t
  | .ev e => { t with s := step true t.s e }

def run2 (t : St2) (evs : List Ev2) : St2 := evs.foldl step2 t

def init (files : List Uri) : St := { files := files, modules := files, aggs := files, jobs := [], inflight := none }

def run (guarded : Bool) (s : St) (evs : List Ev) : St := evs.foldl (step guarded) s

/-- nothing is cached for a file that is not in the workspace -/
def Clean (s : St) : Prop := (∀ u ∈ s.modules, u ∈ s.files) ∧ (∀ u ∈ s.aggs, u ∈ s.files)

end RegalModel.LspCache
