/-
Model of pkg/fixer/fileprovider/inmem.go (`InMemoryFileProvider`), pkg/fixer/fixer.go `handleRename`,
pkg/fixer/rename.go `renameCandidate` (on its parsed name structure), internal/util/util.go
`FindClosestMatchingRoot` (on path components, after the repair) and the write-out of cmd/fix.go.

Every file carries its `origin` (the path it was loaded from) so that conservation can be stated.
-/
namespace RegalModel.FileProvider

structure Entry where
  path : String
  origin : String
  content : String
  deriving DecidableEq, Repr

structure Provider where
  files : List Entry := []          -- keys (`path`) distinct
  modified : List String := []      -- set
  deleted : List String := []       -- set
  deriving Repr

def Provider.get (p : Provider) (f : String) : Option Entry := p.files.find? (·.path = f)
def Provider.has (p : Provider) (f : String) : Bool := p.files.any (·.path = f)

def addSet (s : List String) (x : String) : List String := if x ∈ s then s else s ++ [x]
def delSet (s : List String) (x : String) : List String := s.filter (· ≠ x)

/-- `Put` of new content on an existing path (what a content fix does) -/
def Provider.putContent (p : Provider) (f c : String) : Provider :=
  { p with files := p.files.map fun e => if e.path = f then { e with content := c } else e,
           modified := addSet p.modified f }

/-- `Delete` -/
def Provider.delete (p : Provider) (f : String) : Provider :=
  { files := p.files.filter (·.path ≠ f), modified := delSet p.modified f, deleted := addSet p.deleted f }

/-- `Rename`: error (none) if `from` is unknown or `to` exists; else Put(to) and Delete(from) -/
def Provider.rename (p : Provider) (src dst : String) : Option Provider :=
  match p.get src with
  | none => none
  | some e =>
    if p.has dst then none
    else
      let p1 : Provider := { p with files := p.files ++ [{ e with path := dst }], modified := addSet p.modified dst }
      some (p1.delete src)

inductive Op where
  | put (f c : String)
  | rename (src dst : String)
  deriving Repr

/-- the fixer only Puts files it just read, and a failed rename leaves the provider as it is -/
def step (p : Provider) : Op → Provider
  | .put f c => if p.has f then p.putContent f c else p
  | .rename s d => (p.rename s d).getD p

def load (paths : List (String × String)) : Provider :=
  { files := paths.map fun (f, c) => { path := f, origin := f, content := c } }

/-! ### renameCandidate on the parsed name -/

/-- `dir/stem[_N][_test].ext` -/
structure Name where
  dir : String
  stem : String
  counter : Option Nat
  test : Bool
  ext : String
  deriving DecidableEq, Repr

def candidate (n : Name) : Name :=
  { n with counter := some (match n.counter with | none => 1 | some k => k + 1) }

def iter (n : Name) : Nat → Name
  | 0 => n
  | k + 1 => candidate (iter n k)

/-! ### roots -/

/-- `FindClosestMatchingRoot` on components: the exact match, else the longest root that is a proper
ancestor (after the repair: whole components only) -/
def closestRoot (roots : List (List String)) (path : List String) : Option (List String) :=
  if path ∈ roots then some path
  else
    (roots.filter fun r => r.isPrefixOf path && r.length < path.length).foldl
      (fun best r => match best with
        | none => some r
        | some b => if r.length > b.length then some r else some b) none

/-! ### write-out -/

abbrev Disk := List (String × String)

def diskGet (d : Disk) (f : String) : Option String := (d.find? (·.1 = f)).map (·.2)
def diskRemove (d : Disk) (f : String) : Disk := d.filter (·.1 ≠ f)
def diskWrite (d : Disk) (f c : String) : Disk := diskRemove d f ++ [(f, c)]

def writeStep (p : Provider) (d : Disk) (f : String) : Disk :=
  match p.get f with
  | some e => diskWrite d f e.content
  | none => d

/-- deletes, then writes every modified file with the provider's content -/
def writeOut (p : Provider) (d : Disk) : Disk :=
  p.modified.foldl (writeStep p) (p.deleted.foldl diskRemove d)

end RegalModel.FileProvider
