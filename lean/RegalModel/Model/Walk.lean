/-
Model of file discovery: pkg/config/filter.go `FilterIgnoredPaths(checkFileExists = true)` / `walkPaths`
(filepath.WalkDir with the callback: skip `.git`, `.idea`, `node_modules` directories, keep non-directories
whose path ends in ".rego"), over a finite directory tree.
-/
namespace RegalModel.Walk

inductive Node where
  | file (name : String)
  | dir (name : String) (children : List Node)
  deriving Repr, Inhabited

def Node.name : Node → String
  | .file n => n
  | .dir n _ => n

/-- `rio.IsSkipWalkDirectory` (applies to directories only) -/
def skipName (n : String) : Bool := n = ".git" || n = ".idea" || n = "node_modules"

/-- `filepath.Join(path, name)` for clean relative/absolute `path` -/
def join (path name : String) : String := path ++ "/" ++ name

mutual
/-- WalkDir rooted at a node reached under `path` (the path string of the node itself) -/
def walk (path : String) : Node → List String
  | .file _ => if path.endsWith ".rego" then [path] else []
  | .dir name children => if skipName name then [] else walkList path children
def walkList (path : String) : List Node → List String
  | [] => []
  | c :: cs => walk (join path c.name) c ++ walkList path cs
end

/-- one path argument: `os.Stat` fails (none) ⇒ the whole call fails -/
def walkArgs : List (String × Option Node) → Option (List String)
  | [] => some []
  | (_, none) :: rest => (walkArgs rest).bind fun _ => none
  | (arg, some n) :: rest => (walkArgs rest).map fun l => walk arg n ++ l

/-! the specification: enumerate every file with the flag "some directory from the argument down to the
file's parent has a skip name", then select -/
mutual
def allFiles (path : String) (skipped : Bool) : Node → List (String × Bool)
  | .file _ => [(path, skipped)]
  | .dir name children => allFilesList path (skipped || skipName name) children
def allFilesList (path : String) (skipped : Bool) : List Node → List (String × Bool)
  | [] => []
  | c :: cs => allFiles (join path c.name) skipped c ++ allFilesList path skipped cs
end

def spec (path : String) (n : Node) : List String :=
  ((allFiles path false n).filter fun e => !e.2 && e.1.endsWith ".rego").map (·.1)

end RegalModel.Walk
