/-
Model of pkg/config/config.go `FindConfig` / `findUpwards` and cmd/utils.go `readUserConfig`.
A search path is the chain of directories from the start directory up to the root, nearest first.
-/
namespace RegalModel.ConfigFind

structure Level where
  regalDir : Bool        -- a directory named `.regal` exists here
  configYaml : Bool      -- `.regal/config.yaml` exists (only meaningful with regalDir)
  regalYaml : Bool       -- a file `.regal.yaml` exists here
  deriving DecidableEq, Repr

inductive Found where
  | dirConfig (depth : Nat)      -- `<level depth>/.regal/config.yaml`
  | fileConfig (depth : Nat)     -- `<level depth>/.regal.yaml`
  | errConflict                  -- both kinds in one directory
  | errMissing                   -- nearest `.regal` directory has no config.yaml
  | errNotFound
  deriving DecidableEq, Repr

/-- `findUpwards`: index of the nearest level satisfying `p` -/
def findUp (p : Level → Bool) : List Level → Option Nat
  | [] => none
  | l :: rest => if p l then some 0 else (findUp p rest).map (· + 1)

/-- `FindConfig` (the length comparison of the two parents is a depth comparison: for two ancestors of one
path the longer string is the nearer directory) -/
def findConfig (chain : List Level) : Found :=
  match findUp (·.regalDir) chain, findUp (·.regalYaml) chain with
  | none, none => .errNotFound
  | some d, none =>
    if ((chain[d]?).map (·.configYaml)).getD false then .dirConfig d else .errMissing
  | none, some f => .fileConfig f
  | some d, some f =>
    if d = f then .errConflict
    else if f < d then .fileConfig f
    else if ((chain[d]?).map (·.configYaml)).getD false then .dirConfig d else .errMissing

inductive Used where
  | found (f : Found)      -- a project config file
  | global                 -- `$HOME/.config/regal/config.yaml`
  | defaults               -- no user config at all (the error is not reported by `regal lint`)
  | error
  deriving DecidableEq, Repr

/-- `readUserConfig` + how `regal lint` treats its error when no --config-file is given -/
def configUsed (chain : List Level) (globalExists : Bool) : Used :=
  match findConfig chain with
  | .dirConfig d => .found (.dirConfig d)
  | .fileConfig f => .found (.fileConfig f)
  | _ => if globalExists then .global else .defaults

/-- specification: the nearest directory that has a usable config of either kind -/
def hasConfig (l : Level) : Bool := (l.regalDir && l.configYaml) || l.regalYaml

end RegalModel.ConfigFind
