/-
Model of the safety gate of cmd/fix.go (after the repair recorded in known-findings.json) and of
internal/git/git.go `findRepoPath`.
-/
namespace RegalModel.GitGuard

abbrev Path := List String      -- components, outermost first

structure GuardIn where
  dryRun : Bool
  force : Bool
  repo : Option Path            -- result of FindGitRepo (none: no repository found)
  status : List Path            -- files with a git status entry, made absolute (repo root ++ key)
  modified : List Path          -- fileProvider.ModifiedFiles()  (absolute)
  deleted : List Path           -- fileProvider.DeletedFiles()   (absolute)

inductive Outcome | refuse | dry | write
  deriving DecidableEq, Repr

def conflicting (g : GuardIn) : List Path := (g.modified ++ g.deleted).filter fun f => g.status.contains f

/-- what `fix` does after the fixer ran without rename conflicts -/
def guard (g : GuardIn) : Outcome :=
  if !g.dryRun && !g.force then
    match g.repo with
    | none => .refuse
    | some _ => if (conflicting g).isEmpty then .write else .refuse
  else if g.dryRun then .dry else .write

/-- disk as a finite map path ↦ content -/
abbrev Disk := List (Path × String)

def diskRemove (d : Disk) (p : Path) : Disk := d.filter (·.1 ≠ p)
def diskWrite (d : Disk) (p : Path) (c : String) : Disk := diskRemove d p ++ [(p, c)]

/-- deletes, then writes (the order of cmd/fix.go) — only when the outcome is `write` -/
def apply (g : GuardIn) (content : Path → String) (d : Disk) : Disk :=
  match guard g with
  | .write => g.modified.foldl (fun d p => diskWrite d p (content p)) (g.deleted.foldl diskRemove d)
  | _ => d

/-- `findRepoPath`: walk upwards from `dir` (components innermost first) until a `.git` directory is found;
the walk includes the top (`[]` = "/" for absolute, "." for relative arguments) -/
def findRepo (hasGit : List String → Bool) : List String → Option (List String)
  | [] => if hasGit [] then some [] else none
  | c :: parent => if hasGit (c :: parent) then some (c :: parent) else findRepo hasGit parent

/-- `FindGitRepo(dirs...)`: the repository of every argument is looked up from THAT argument (never from the working
directory); they must all be the same one. `none` = an error or no repository: `fix` refuses without --force.
(`findRepoPath` returns "" when an argument is in no repository; a mix of "" and a repository is an error too.) -/
def findRepoMulti (hasGit : List String → Bool) : List (List String) → Option (List String)
  | [] => none
  | d :: ds =>
    match findRepo hasGit d with
    | none => none
    | some r => if ds.all (fun d' => findRepo hasGit d' = some r) then some r else none

/-- the code before the repair compared repo-relative status keys with absolute provider paths -/
def conflictingOld (statusKeys : List (List Char)) (modified : List (List Char)) : List (List Char) :=
  modified.filter fun f => statusKeys.contains f

end RegalModel.GitGuard
