import RegalModel.Model.Glob
/-
The *lint kernel*: executable model of

* bundle/regal/config/config.rego      `_force_disabled`, `_force_enabled`, `ignored_rule`, `level_for_rule`
* bundle/regal/config/exclusion.rego   (via Model/Glob)
* bundle/regal/main/main.rego          `_rules_to_run`, `_grouped_notices`, `report` (built-in + custom),
                                        `aggregate` (built-in + custom, `_mark_if_empty`),
                                        `aggregate_report` (built-in + custom), `_ignored`
* bundle/regal/util/util.rego          `keys_to_numbers` (string row keys -> numbers)
* pkg/linter/linter.go                 `Lint`, the mutex-protected merge of `lintWithRegoRules`,
                                        notice de-duplication, aggregate selection, summary

Everything the ~95 lint rules, OPA's parser and evaluator do is the parameter `Env`
(DESIGN §1, "the Env boundary").  All theorems are `∀ env`.
-/
namespace RegalModel.Kernel
open RegalModel.Glob

/-! ### data -/

structure Params where
  disable : List String := []
  enable : List String := []
  disableCategory : List String := []
  enableCategory : List String := []
  disableAll : Bool := false
  enableAll : Bool := false
  ignoreFiles : List Str := []
  deriving Repr, DecidableEq

/-- one entry of `merged_config.rules[category][title]` -/
structure RuleCfg where
  level : Option String := none
  ignoreFiles : List Str := []
  deriving Repr, DecidableEq

abbrev RuleId := String × String   -- (category, title)

structure Cfg where
  rules : List (RuleId × RuleCfg) := []     -- merged_config.rules, keys distinct
  ignoreFiles : List Str := []              -- merged_config.ignore.files
  pathPrefix : Str := []                    -- data.internal.path_prefix
  deriving Repr

structure Violation where
  category : String
  title : String
  level : String
  file : Str                 -- location.file ("" when the violation carries no location)
  row : Option Nat           -- location.row, none when there is no location
  payload : String := ""     -- everything else (description, col, text, end …), opaque
  deriving Repr, DecidableEq

structure Notice where
  category : String
  title : String
  severity : String
  payload : String := ""
  deriving Repr, DecidableEq

/-- an aggregate entry; `src` = aggregate_source.file; `data` opaque. -/
structure Agg where
  src : Str
  data : String
  deriving Repr, DecidableEq

/-- ignore directives of one file: row (already `+1`) ↦ rule names -/
abbrev Directives := List (Nat × List String)

/-- a parsed file as the rules see it -/
structure File where
  name : Str
  content : String := ""
  deriving Repr, DecidableEq

/-- The Env boundary: behaviour of the rule packages and of the parser. `raw*` results carry
the level already stamped by `result.fail` — the kernel re-derives it (see `stamp`). -/
structure Env where
  builtin : List RuleId                                   -- packages under data.regal.rules
  custom : List RuleId                                    -- packages under data.custom.regal.rules
  report : RuleId → File → List Violation                 -- `<rule>.report` (level field ignored)
  notices : RuleId → File → List Notice                   -- `<rule>.notices`
  hasAggregate : RuleId → Bool                            -- rule defines `aggregate`
  aggregate : RuleId → File → List Agg                    -- `<rule>.aggregate` (collect)
  aggReport : RuleId → List Agg → List Violation          -- `<rule>.aggregate_report with input.aggregate`
  directives : File → Directives                          -- ast.ignore_directives

/-! ### config.rego -/

def forceDisabled (p : Params) (c t : String) : Bool :=
  t ∈ p.disable
  || (p.disableAll && !(c ∈ p.enableCategory) && !(t ∈ p.enable))
  || (c ∈ p.disableCategory && !(t ∈ p.enable))

def forceEnabled (p : Params) (c t : String) : Bool :=
  t ∈ p.enable
  || (p.enableAll && !(c ∈ p.disableCategory) && !(t ∈ p.disable))
  || (c ∈ p.enableCategory && !(t ∈ p.disable))

def Cfg.find (cfg : Cfg) (r : RuleId) : Option RuleCfg := (cfg.rules.find? (·.1 = r)).map (·.2)

def Cfg.levelOf (cfg : Cfg) (r : RuleId) : Option String := (cfg.find r).bind (·.level)

/-- `ignored_rule(category, title)` -/
def ignoredRule (cfg : Cfg) (p : Params) (r : RuleId) : Bool :=
  if forceDisabled p r.1 r.2 then true
  else cfg.levelOf r = some "ignore" && !forceEnabled p r.1 r.2

/-- `level_for_rule(category, title)` -/
def levelForRule (cfg : Cfg) (p : Params) (r : RuleId) : String :=
  if forceDisabled p r.1 r.2 then "ignore"
  else if forceEnabled p r.1 r.2 then "error"
  else match cfg.levelOf r with
    | some l => l
    | none => "error"

/-! ### main.rego -/

/-- the matcher is fixed for a run; kept as an explicit parameter -/
abbrev Matcher := Str → Str → Bool

def globalPatterns (cfg : Cfg) (p : Params) : List Str := globalIgnore p.ignoreFiles cfg.ignoreFiles

def ruleIgnore (cfg : Cfg) (r : RuleId) : List Str :=
  match cfg.find r with
  | some rc => rc.ignoreFiles
  | none => []

def excluded (gm : Matcher) (cfg : Cfg) (p : Params) (r : RuleId) (file : Str) : Bool :=
  excludedFile gm (globalPatterns cfg p) (ruleIgnore cfg r) file

/-- `_rules_to_run[category][title]`, evaluated for the file named `name` -/
def rulesToRun (gm : Matcher) (cfg : Cfg) (p : Params) (name : Str) : List RuleId :=
  (cfg.rules.map (·.1)).filter fun r =>
    !ignoredRule cfg p r && !excluded gm cfg p r (regoRel name cfg.pathPrefix)

/-- `_ignored(violation, directives)` : lookup at `row` and at `row + 1` -/
def ignored (v : Violation) (d : Directives) : Bool :=
  match v.row with
  | none => false
  | some r => d.any fun e => (e.1 = r || e.1 = r + 1) && v.title ∈ e.2

/-- `result.fail` stamps `level_for_rule` -/
def stamp (cfg : Cfg) (p : Params) (r : RuleId) (v : Violation) : Violation :=
  { v with category := r.1, title := r.2, level := levelForRule cfg p r }

def noticesOf (env : Env) (r : RuleId) (f : File) : List Notice :=
  if r ∈ env.builtin then env.notices r f else []

/-- `lint.notices` -/
def fileNotices (env : Env) (gm : Matcher) (cfg : Cfg) (p : Params) (f : File) : List Notice :=
  (rulesToRun gm cfg p f.name).flatMap fun r => noticesOf env r f

/-- built-in `report` clause -/
def reportBuiltin (env : Env) (gm : Matcher) (cfg : Cfg) (p : Params) (f : File) : List Violation :=
  (rulesToRun gm cfg p f.name).flatMap fun r =>
    if r ∈ env.builtin && (noticesOf env r f).isEmpty then
      ((env.report r f).map (stamp cfg p r)).filter fun v => !ignored v (env.directives f)
    else []

/-- custom `report` clause -/
def reportCustom (env : Env) (gm : Matcher) (cfg : Cfg) (p : Params) (f : File) : List Violation :=
  env.custom.flatMap fun r =>
    if !ignoredRule cfg p r && !excluded gm cfg p r (regoRelCustom f.name cfg.pathPrefix) then
      ((env.report r f).map (stamp cfg p r)).filter fun v => !ignored v (env.directives f)
    else []

def fileViolations (env : Env) (gm : Matcher) (cfg : Cfg) (p : Params) (f : File) : List Violation :=
  reportBuiltin env gm cfg p f ++ reportCustom env gm cfg p f

def key (r : RuleId) : String := r.1 ++ "/" ++ r.2

/-- result of collecting for one rule: `none` = rule not invoked, `some []` = the empty marker `{{}}` -/
abbrev AggOut := List (String × List Agg)

/-- `lint.aggregates` for one file (only when "collect" ∈ operations) -/
def fileAggregates (env : Env) (gm : Matcher) (cfg : Cfg) (p : Params) (f : File) : AggOut :=
  ((rulesToRun gm cfg p f.name).filterMap fun r =>
      if r ∈ env.builtin && env.hasAggregate r then
        some (key r, env.aggregate r f)                   -- `[]` stands for the marker `{{}}` (also for built-in rules
                                                          -- since the repair "register built-in aggregate rules that
                                                          -- aggregated nothing")
      else none)
  ++ (env.custom.filterMap fun r =>
      if env.hasAggregate r && !ignoredRule cfg p r && !excluded gm cfg p r f.name then
        some (key r, env.aggregate r f)                   -- `[]` stands for the marker `{{}}`
      else none)

structure FileResult where
  name : Str
  violations : List Violation
  notices : List Notice
  aggregates : AggOut        -- empty unless collect
  directives : Directives
  deriving Repr

/-- one evaluation of `data.regal.main.lint` for a file -/
def lintFile (env : Env) (gm : Matcher) (cfg : Cfg) (p : Params) (collect : Bool) (f : File) : FileResult :=
  { name := f.name
    violations := fileViolations env gm cfg p f
    notices := fileNotices env gm cfg p f
    aggregates := if collect then fileAggregates env gm cfg p f else []
    directives := env.directives f }

/-! ### Go: the shared report and its merge (`lintWithRegoRules`) -/

structure RegoReport where
  violations : List Violation := []
  notices : List Notice := []
  aggregates : List (String × List Agg) := []      -- map key ↦ entries (keys distinct)
  directives : List (Str × Directives) := []        -- map file ↦ directives
  deriving Repr

def aggInsert (m : List (String × List Agg)) (k : String) (es : List Agg) : List (String × List Agg) :=
  match m with
  | [] => [(k, es)]
  | (k', es') :: rest => if k' = k then (k', es' ++ es) :: rest else (k', es') :: aggInsert rest k es

def dirInsert (m : List (Str × Directives)) (k : Str) (d : Directives) : List (Str × Directives) :=
  match m with
  | [] => [(k, d)]
  | (k', d') :: rest => if k' = k then (k', d) :: rest else (k', d') :: dirInsert rest k d

/-- the mutex-protected block: append violations and notices, fold aggregates (an empty entry
list only makes the key exist), store the file's directives -/
def merge (r : RegoReport) (fr : FileResult) : RegoReport :=
  { violations := r.violations ++ fr.violations
    notices := r.notices ++ fr.notices
    aggregates := fr.aggregates.foldl (fun m kv => aggInsert m kv.1 kv.2) r.aggregates
    directives := dirInsert r.directives fr.name fr.directives }

def mergeAll (frs : List FileResult) : RegoReport := frs.foldl merge {}

/-! ### aggregate report -/

def aggLookup (m : List (String × List Agg)) (k : String) : Option (List Agg) :=
  (m.find? (·.1 = k)).map (·.2)

def dirLookup (m : List (Str × Directives)) (file : Str) : Directives :=
  match m.find? (·.1 = file) with
  | some e => e.2
  | none => []

def aggFileName : Str := "__aggregate_report__".toList

/-- built-in `aggregate_report` clause -/
def aggReportBuiltin (env : Env) (gm : Matcher) (cfg : Cfg) (p : Params)
    (aggs : List (String × List Agg)) (dirs : List (Str × Directives)) : List Violation :=
  (rulesToRun gm cfg p aggFileName).flatMap fun r =>
    if r ∈ env.builtin then
      ((env.aggReport r ((aggLookup aggs (key r)).getD [])).map (stamp cfg p r)).filter fun v =>
        !ignored v (dirLookup dirs v.file)
    else []

/-- custom `aggregate_report` clause: one evaluation per key present in `aggregates_internal` -/
def aggReportCustom (env : Env) (gm : Matcher) (cfg : Cfg) (p : Params)
    (aggs : List (String × List Agg)) (dirs : List (Str × Directives)) : List Violation :=
  env.custom.flatMap fun r =>
    match aggLookup aggs (key r) with
    | none => []
    | some es =>
      if !ignoredRule cfg p r && !excluded gm cfg p r aggFileName then
        ((env.aggReport r es).map (stamp cfg p r)).filter fun v => !ignored v (dirLookup dirs v.file)
      else []

def aggregateViolations (env : Env) (gm : Matcher) (cfg : Cfg) (p : Params)
    (aggs : List (String × List Agg)) (dirs : List (Str × Directives)) : List Violation :=
  aggReportBuiltin env gm cfg p aggs dirs ++ aggReportCustom env gm cfg p aggs dirs

/-! ### Go: `Lint` -/

structure Summary where
  filesScanned : Nat
  filesFailed : Nat
  rulesSkipped : Nat
  numViolations : Nat
  deriving Repr, DecidableEq

structure Report where
  violations : List Violation
  notices : List Notice
  summary : Summary
  aggregates : List (String × List Agg)     -- exported (`WithExportAggregates`)
  deriving Repr

/-- keep the first occurrence of every element, in order -/
def dedup {α} [DecidableEq α] (l : List α) : List α :=
  l.foldl (fun acc n => if n ∈ acc then acc else acc ++ [n]) []

/-- `if !slices.Contains(finalReport.Notices, notice) { append }` -/
def dedupNotices (ns : List Notice) : List Notice := dedup ns

/-- keys of `ViolationsFileCount()` -/
def distinctFiles (vs : List Violation) : List Str := dedup (vs.map (·.file))

structure LintOpts where
  useCollectQuery : Bool := false
  exportAggregates : Bool := false
  overridden : List (String × List Agg) := []
  deriving Repr

/-- `Lint` after filtering and parsing: `files` are the parsed inputs (FileNames order irrelevant to the
result up to permutation), `order` the completion order of the per-file goroutines. -/
def lintResults (env : Env) (gm : Matcher) (cfg : Cfg) (p : Params) (o : LintOpts) (files : List File) :
    List FileResult :=
  files.map (lintFile env gm cfg p (decide (files.length > 1) || o.useCollectQuery))

def finish (env : Env) (gm : Matcher) (cfg : Cfg) (p : Params) (o : LintOpts) (nfiles : Nat)
    (rr : RegoReport) : Report :=
  let notices := dedupNotices rr.notices
  let all : List (String × List Agg) :=
    if o.overridden.length > 0 then o.overridden
    else if nfiles > 1 then rr.aggregates else []
  let aggV := if all.length > 0 then aggregateViolations env gm cfg p all rr.directives else []
  let vs := rr.violations ++ aggV
  { violations := vs
    notices := notices
    summary := { filesScanned := nfiles
                 filesFailed := (distinctFiles vs).length
                 rulesSkipped := (notices.filter fun n => n.severity ≠ "none").length
                 numViolations := vs.length }
    aggregates := if o.exportAggregates then rr.aggregates else [] }

/-- the whole run, with the completion order of the workers given by `order` (a permutation
of the per-file results) -/
def lintOrdered (env : Env) (gm : Matcher) (cfg : Cfg) (p : Params) (o : LintOpts) (files : List File)
    (order : List FileResult) : Report :=
  finish env gm cfg p o files.length (mergeAll order)

def lint (env : Env) (gm : Matcher) (cfg : Cfg) (p : Params) (o : LintOpts) (files : List File) : Report :=
  lintOrdered env gm cfg p o files (lintResults env gm cfg p o files)

/-- `DetermineEnabledRules`: built-in rules with no notices that are not ignored.
The query has no input file: notices are evaluated with `input` undefined. -/
def determineEnabled (env : Env) (cfg : Cfg) (p : Params) (noInput : File) : List RuleId :=
  env.builtin.filter fun r => (env.notices r noInput).isEmpty && !ignoredRule cfg p r

end RegalModel.Kernel
