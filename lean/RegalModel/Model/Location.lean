import RegalModel.Model.Kernel
/-
Model of the shared location machinery: bundle/regal/util/util.rego `to_location_object`, `_location_to_text`,
`_cut_col`; bundle/regal/result/result.rego `location` / `_with_text`, `ranged_location_between`;
internal/lsp/lint.go `getRangeForViolation`.  Strings are lists of code points (OPA's substring/count work on
code points); `lines` = `input.regal.file.lines`.
-/
namespace RegalModel.Location

abbrev Line := List Char

structure Pos where
  row : Nat
  col : Nat
  deriving DecidableEq, Repr

structure Loc where
  row : Nat
  col : Nat
  endPos : Pos
  text : Line
  deriving DecidableEq, Repr

/-- OPA `substring(s, offset, length)`: a negative offset is an error (undefined under non-strict evaluation);
negative length = to the end; offset beyond the end = "" -/
def substring (s : Line) (offset : Int) (length : Int) : Option Line :=
  if offset < 0 then none
  else if length < 0 then some (s.drop offset.toNat) else some ((s.drop offset.toNat).take length.toNat)

/-- `_cut_col(i, len, line, col, end_col)` -/
def cutCol (i len : Nat) (line : Line) (col endCol : Nat) : Option Line :=
  if i = 0 ∧ len = 1 then substring line ((col : Int) - 1) ((endCol : Int) - 1)   -- two lines: first line from col
  else if i = 0 ∧ len > 1 then some line
  else if i = len then substring line 0 endCol
  else if i > 0 then some line
  else none

/-- `_location_to_text(row, col, end_row, end_col)`; `none` = undefined (e.g. `lines[row-1]` does not exist) -/
def locationToText (lines : List Line) (row col endRow endCol : Nat) : Option Line :=
  if row = endRow then
    if row ≥ 1 then (lines[row - 1]?).bind fun l => substring l ((col : Int) - 1) ((endCol : Int) - col) else none
  else
    let sl := (lines.drop (row - 1)).take (endRow - (row - 1))     -- array.slice(lines, row-1, end_row)
    let len := sl.length - 1
    let parts := (sl.zipIdx).filterMap fun (l, i) => cutCol i len l col endCol
    some ((parts.intersperse ['\n']).flatten)

/-- `to_location_object("r:c:er:ec")` given the four parsed numbers -/
def toLocationObject (lines : List Line) (r c er ec : Nat) : Option Loc :=
  (locationToText lines r c er ec).map fun t => { row := r, col := c, endPos := ⟨er, ec⟩, text := t }

structure OutLoc where
  row : Nat
  col : Nat
  endPos : Pos
  text : Option Line       -- the whole reported line
  file : Option (List Char)
  deriving DecidableEq, Repr

/-- `_with_text`: text := the entire line `lines[row-1]`, file := the linted file; if that line does not exist
the location object is passed through unchanged (`else`) -/
def withText (lines : List Line) (file : List Char) (l : Loc) : OutLoc :=
  match (if l.row ≥ 1 then lines[l.row - 1]? else none) with
  | some line => { row := l.row, col := l.col, endPos := l.endPos, text := some line, file := some file }
  | none => { row := l.row, col := l.col, endPos := l.endPos, text := some l.text, file := none }

/-- `result.location(x)` for a node with location string r:c:er:ec -/
def resultLocation (lines : List Line) (file : List Char) (r c er ec : Nat) : Option OutLoc :=
  (toLocationObject lines r c er ec).map (withText lines file)

/-- `ranged_location_between(x, y)`: start of x, end of y -/
def rangedBetween (x y : OutLoc) : OutLoc := { x with endPos := y.endPos }

/-- a location string is well-formed for `lines` -/
def WF (lines : List Line) (r c er ec : Nat) : Prop :=
  1 ≤ r ∧ r ≤ lines.length ∧ 1 ≤ c ∧ (r < er ∨ (r = er ∧ c ≤ ec))

structure Range where
  startLine : Nat
  startChar : Nat
  endLine : Nat
  endChar : Nat
  deriving DecidableEq, Repr

/-- `getRangeForViolation` (LSP, 0-based; `max(.., 0)` on the int subtraction) -/
def lspRange (row col : Nat) (endPos : Option Pos) (textLen : Nat) : Range :=
  match endPos with
  | some e => { startLine := row - 1, startChar := col - 1, endLine := e.row - 1, endChar := e.col - 1 }
  | none => { startLine := row - 1, startChar := col - 1, endLine := row - 1, endChar := col - 1 + textLen }

end RegalModel.Location
