/-
Model of pkg/rules/rules.go `RegoVersionFromVersionsMap` (after the repairs recorded in known-findings.json)
and of the key normalisation of pkg/config/config.go `AllRegoVersions`.

Paths are lists of components (`List Str`); `render` is the string the Go code actually compares:
`path.Join("/", dir, "/")` + trailing "/" for a configured directory, `filepath.Dir(filename) + "/"` for
the file.  A component never contains '/' and is not empty — that is what a clean path is.
-/
namespace RegalModel.Version

abbrev Str := List Char

/-- "/" ++ c₁ ++ "/" ++ c₂ ++ "/" … : the configured directory as matched (`matchingVersionedDir`) -/
def render (cs : List Str) : Str := '/' :: cs.flatMap (· ++ ['/'])

/-- `filepath.Dir(filename) + "/"` for an absolute, clean file name whose directory components are `cs`
(the root directory "/" gives "//") -/
def renderDir (cs : List Str) : Str := if cs = [] then ['/', '/'] else render cs

/-- `len(versionedDir)` of the clean relative key with these components ("" for the root) -/
def rawLen (cs : List Str) : Nat := (cs.map (·.length + 1)).sum - 1

inductive Ver | v0 | v1 | undefined
  deriving DecidableEq, Repr

def matchesKey (key dirc : List Str) : Bool := (render key).isPrefixOf (renderDir dirc)

/-- one iteration of the loop over the map (`>=` on the raw key length) -/
def step (dirc : List Str) (best : Nat × Ver) (e : List Str × Ver) : Nat × Ver :=
  if matchesKey e.1 dirc && decide (rawLen e.1 ≥ best.1) then (rawLen e.1, e.2) else best

/-- the loop over the map, in iteration order `entries` -/
def lookup (entries : List (List Str × Ver)) (dirc : List Str) (default : Ver) : Ver :=
  (entries.foldl (step dirc) (0, default)).2

/-- a file named by a path that does not start with "/" (relative to the working directory and not made
absolute): `dir + "/"` has no leading slash, so no configured directory matches -/
def lookupRelative (_entries : List (List Str × Ver)) (default : Ver) : Ver := default

/-- specification: the deepest configured directory that is an ancestor-or-self of the file's directory -/
def specLookup (entries : List (List Str × Ver)) (dirc : List Str) (default : Ver) : Ver :=
  match (entries.filter fun e => e.1.isPrefixOf dirc).foldl
      (fun (best : Option (List Str × Ver)) e =>
        match best with
        | none => some e
        | some b => if e.1.length ≥ b.1.length then some e else some b) none with
  | none => default
  | some e => e.2

/-- `AllRegoVersions`: manifest entries first (root manifest under the key of the project root), then
the project-wide version, then the configured roots; later assignments to the same key win -/
def allVersions (manifests : List (List Str × Ver)) (project : Option Ver) (roots : List (List Str × Ver)) :
    List (List Str × Ver) :=
  let ins (m : List (List Str × Ver)) (e : List Str × Ver) : List (List Str × Ver) :=
    (m.filter fun x => x.1 ≠ e.1) ++ [e]
  let m := manifests.foldl ins []
  let m := match project with | some v => ins m ([], v) | none => m
  roots.foldl ins m

end RegalModel.Version
