import RegalModel.Model.Kernel
/-
Model of pkg/config/bundle.go `LoadConfigWithDefaultsFromBundle`, restricted to what the routing
policies read: per-rule `level` and `ignore.files`, global `ignore.files`.

* `providedConfLevels`   : levels of the provided (built-in) config, keyed by rule *name*
* mergo.Merge WithOverride on the `Rule` struct: a non-empty user value replaces the default's
  (mergo itself is a trusted library; this shape is what the correspondence check samples)
* `extractUserRuleLevels`: rule level > category default > global default > provided level,
  applied only to rules that have a provided level
* `Rule.MarshalYAML`     : the level key is always written (possibly ""), so in Rego
  `merged_config.rules[c][t].level` is defined for every configured rule
-/
namespace RegalModel.ConfigMerge
open RegalModel.Kernel RegalModel.Glob

/-- a rule entry as written by the user: `level = ""` means not written -/
structure UserRule where
  level : String := ""
  ignoreFiles : List Str := []
  deriving Repr, DecidableEq

structure UserCfg where
  rules : List (RuleId × UserRule) := []
  catDefaults : List (String × String) := []     -- category ↦ default level ("" = key present, level not written)
  globalDefault : String := ""
  ignoreFiles : List Str := []
  deriving Repr

/-- provided config: rule ↦ level (built-in defaults; never "") -/
abbrev Provided := List (RuleId × String)

def providedLevelByName (prov : Provided) (title : String) : Option String :=
  (prov.find? (·.1.2 = title)).map (·.2)

def userRule (u : UserCfg) (r : RuleId) : Option UserRule := (u.rules.find? (·.1 = r)).map (·.2)

def catDefault (u : UserCfg) (c : String) : Option String := (u.catDefaults.find? (·.1 = c)).map (·.2)

/-- level after mergo (before `extractUserRuleLevels`) -/
def mergoLevel (provLevel : Option String) (ur : Option UserRule) : String :=
  match ur with
  | some x => if x.level ≠ "" then x.level else provLevel.getD ""
  | none => provLevel.getD ""

/-- `extractUserRuleLevels` for one rule of the merged config -/
def selectedLevel (prov : Provided) (u : UserCfg) (r : RuleId) (provLevel : Option String) : String :=
  let ur := userRule u r
  match providedLevelByName prov r.2 with
  | none => mergoLevel provLevel ur                  -- `continue`: no provided level for this rule name
  | some pl =>
    if (ur.map (·.level)).getD "" ≠ "" then (ur.map (·.level)).getD ""
    else match catDefault u r.1 with
      | some cl => if cl ≠ "" then cl else pl         -- a category default without level shadows the global one
      | none => if u.globalDefault ≠ "" then u.globalDefault else pl

def ruleIds (prov : Provided) (u : UserCfg) : List RuleId :=
  (prov.map (·.1)) ++ ((u.rules.map (·.1)).filter fun r => !(prov.map (·.1)).contains r)

/-- `LoadConfigWithDefaultsFromBundle` followed by `ToMap` -/
def mergeCfg (prov : Provided) (u : Option UserCfg) (pathPrefix : Str) : Cfg :=
  match u with
  | none => { rules := prov.map fun (r, l) => (r, { level := some l, ignoreFiles := [] }),
              ignoreFiles := [], pathPrefix := pathPrefix }
  | some u =>
    { rules := (ruleIds prov u).map fun r =>
        let pl := (prov.find? (·.1 = r)).map (·.2)
        (r, { level := some (selectedLevel prov u r pl),
              ignoreFiles := ((userRule u r).map (·.ignoreFiles)).getD [] })
      ignoreFiles := u.ignoreFiles
      pathPrefix := pathPrefix }

end RegalModel.ConfigMerge
