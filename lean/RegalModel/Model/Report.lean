/-
Model of cmd/lint.go (exit code tally) and of the *structure* of pkg/reporter/reporter.go: which violation
is presented how often by each output format.  Text layout, escaping and the JSON/XML encoders are trusted
libraries (sampled by the correspondence run, which parses the real output back).
-/
namespace RegalModel.Report

structure V where
  file : String
  row : Nat
  col : Nat
  title : String
  level : String
  deriving DecidableEq, Repr

inductive FailLevel | error | warning
  deriving DecidableEq, Repr

/-- the tally and the two `if`s of the lint command; `failed` = linting itself returned an error -/
def exitCode (fl : FailLevel) (levels : List String) (failed : Bool) : Nat :=
  if failed then 1 else
  let errorsFound := (levels.filter (· = "error")).length
  let warningsFound := (levels.filter (· = "warning")).length
  let code := if fl = .error && decide (errorsFound > 0) then 3 else 0
  if fl = .warning then
    if errorsFound > 0 then 3 else if warningsFound > 0 then 2 else code
  else code

/-- keep the first occurrence of every element (what `slices.Compact` leaves of a sorted slice) -/
def dedup {α} [DecidableEq α] (l : List α) : List α :=
  l.foldl (fun acc n => if n ∈ acc then acc else acc ++ [n]) []

/-- pretty / compact / github / sarif / json: one block, row, annotation, result or object per violation, in order -/
def recordsLinear (vs : List V) : List V := vs

/-- junit: group by file; `sortFn` is `slices.Sort` (any function returning a permutation) -/
def recordsJUnit (sortFn : List String → List String) (vs : List V) : List V :=
  (dedup (sortFn (vs.map (·.file)))).flatMap fun f => vs.filter (·.file = f)

/-- the code before the repair: no de-duplication of the file list -/
def recordsJUnitOld (sortFn : List String → List String) (vs : List V) : List V :=
  (sortFn (vs.map (·.file))).flatMap fun f => vs.filter (·.file = f)

end RegalModel.Report
