/-
Model of the three text fixes of pkg/fixer/fixes (after the repairs recorded in known-findings.json: lines
are indexed by rune; the closing quote of a pattern is searched, not taken from the end column) and of the
loop of pkg/fixer/fixer.go `applyLinterFixes`.
-/
namespace RegalModel.TextFix

abbrev Line := List Char

/-- `UseAssignmentOperator.Fix` on one line: insert ':' before the '=' at (1-based) column `col` -/
def useAssign (line : Line) (col : Nat) : Option Line :=
  if 1 ≤ col ∧ col - 1 < line.length ∧ line[col - 1]? = some '=' then
    some (line.take (col - 1) ++ ':' :: line.drop (col - 1))
  else none

/-- `NoWhitespaceComment.Fix` on one line: insert ' ' after the '#' at column `col` -/
def noWs (line : Line) (col : Nat) : Option Line :=
  if 1 ≤ col ∧ col ≤ line.length ∧ line[col - 1]? = some '#' then
    some (line.take col ++ ' ' :: line.drop col)
  else none

/-- `closingQuoteIndex`: scan for the first unescaped '"' (`esc` = the previous character was a backslash
whose escaped character is skipped); `rest` = the line from index i on -/
def closingFrom : Bool → Line → Nat → Option Nat
  | _, [], _ => none
  | true, _ :: rest, i => closingFrom false rest (i + 1)
  | false, c :: rest, i =>
    if c = '\\' then closingFrom true rest (i + 1)
    else if c = '"' then some i
    else closingFrom false rest (i + 1)

def closingQuote (line : Line) (start : Nat) : Option Nat :=
  if line[start]? = some '"' then closingFrom false (line.drop (start + 1)) (start + 1) else none

/-- `strings.ReplaceAll(s, "\\\\", "\\")`: scanning left to right, every pair of backslashes becomes one
(`pending` = one backslash read and not yet written) -/
def collapseS : Bool → Line → Line
  | false, [] => []
  | true, [] => ['\\']
  | false, c :: rest => if c = '\\' then collapseS true rest else c :: collapseS false rest
  | true, c :: rest => if c = '\\' then '\\' :: collapseS false rest else '\\' :: c :: collapseS false rest

def collapse (l : Line) : Line := collapseS false l

/-- `NonRawRegexPattern.Fix` on one line: the string literal starting at column `col` becomes a raw string -/
def nonRaw (line : Line) (col : Nat) : Option Line :=
  if col < 1 then none else
  match closingQuote line (col - 1) with
  | none => none
  | some e =>
    -- both quotes become backticks, then `\\` -> `\` in [start, end)
    let seg := '`' :: (line.drop col).take (e - col)
    some (line.take (col - 1) ++ collapse seg ++ '`' :: line.drop (e + 1))

/-- apply a line fix at (row, col) of a file given as lines; `none` = nothing changed -/
def fixAt (f : Line → Nat → Option Line) (lines : List Line) (row col : Nat) : Option (List Line) :=
  if row < 1 then none else
  match lines[row - 1]? with
  | none => none
  | some l => (f l col).map fun l' => lines.set (row - 1) l'

/-- the comment text satisfies no-whitespace-comment's pattern `^(#*)(\s+.*|$)` -/
def whitespaceComment (text : Line) : Bool :=
  match text.dropWhile (· = '#') with
  | [] => true
  | c :: _ => c = ' ' || c = '\t' || c = '\n' || c = '\r' || c = '\x0c' || c = '\x0b'

/-- the value of an interpreted string literal whose only escape sequence is `\\\\` (`pending` = a backslash
has been read); any other escape, a bare quote or a dangling backslash is outside this fragment -/
def interpS : Bool → Line → Option Line
  | false, [] => some []
  | true, [] => none
  | false, c :: rest =>
    if c = '\\' then interpS true rest
    else if c = '"' then none
    else (interpS false rest).map (c :: ·)
  | true, c :: rest => if c = '\\' then (interpS false rest).map ('\\' :: ·) else none

def interpSimple (l : Line) : Option Line := interpS false l

/-! ### the fix loop, abstractly -/

structure Sys (S V : Type) where
  lint : S → List V            -- violations of the enabled fixable rules
  fix : S → V → Option S       -- `none`: the fix found nothing to change (stale location, guard failed)

def stepFix {S V} (sys : Sys S V) (acc : S × Bool) (v : V) : S × Bool :=
  match sys.fix acc.1 v with
  | some s' => (s', true)
  | none => acc

/-- one pass: every violation of the lint report is handed to its fix, in order, on the CURRENT content -/
def pass {S V} (sys : Sys S V) (s : S) (vs : List V) : S × Bool := vs.foldl (stepFix sys) (s, false)

/-- `for { lint; if none break; pass; if !changed break }` with fuel -/
def loop {S V} (sys : Sys S V) : Nat → S → Option S
  | 0, _ => none
  | fuel + 1, s =>
    if (sys.lint s).isEmpty then some s
    else
      let r := pass sys s (sys.lint s)
      if r.2 then loop sys fuel r.1 else some r.1

end RegalModel.TextFix
