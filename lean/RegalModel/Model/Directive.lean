/-
Model of `ignore_directives` in bundle/regal/ast/comments.rego: which rule names an inline comment names.

  text := trim_space(comment.text)
  i := indexof(text, "regal ignore:");  i != -1
  list := regex.replace(substring(text, i + 13, -1), `\s`, "")
  rules := split(list, ",")

Strings are lists of characters (OPA's `indexof` / `substring` count runes).
-/
namespace RegalModel.Directive

abbrev Str := List Char

/-- RE2 `\s` = [\t\n\f\r ] -/
def isReWs (c : Char) : Bool := c = ' ' || c = '\t' || c = '\n' || c = '\x0c' || c = '\r'

/-- Go `unicode.IsSpace` on Latin-1 (what `trim_space` strips): RE2's set plus \v, U+0085, U+00A0 -/
def isGoSpace (c : Char) : Bool := isReWs c || c = '\x0b' || c = '\u0085' || c = ' '

def trimSpace (s : Str) : Str := ((s.dropWhile isGoSpace).reverse.dropWhile isGoSpace).reverse

def marker : Str := "regal ignore:".toList

/-- `indexof`: position of the first occurrence -/
def findSub (pat : Str) : Str → Option Nat
  | [] => if pat = [] then some 0 else none
  | c :: s => if pat.isPrefixOf (c :: s) then some 0 else (findSub pat s).map (· + 1)

/-- `split(s, sep)` for a one-character separator (always at least one element) -/
def splitOn (sep : Char) : Str → List Str
  | [] => [[]]
  | c :: s =>
    if c = sep then [] :: splitOn sep s
    else match splitOn sep s with
      | [] => [[c]]          -- unreachable
      | w :: ws => (c :: w) :: ws

def stripWs (s : Str) : Str := s.filter fun c => !isReWs c

/-- the names of the directive in a comment text, `none` when the comment is no directive -/
def names (commentText : Str) : Option (List Str) :=
  let t := trimSpace commentText
  (findSub marker t).map fun i => splitOn ',' (stripWs (t.drop (i + 13)))

/-- main.rego `_ignored`: `violation.title in ignored_rules` -/
def namesRule (commentText title : Str) : Bool :=
  match names commentText with
  | none => false
  | some ns => ns.contains title

end RegalModel.Directive
