/-
Model of the capability resolution in pkg/config/config.go `UnmarshalYAML` (minus first, then plus) and of
bundle/regal/capabilities/capabilities.rego (`has_if`, `has_contains`, `has_rego_v1_feature`, `is_opa_v1`,
`has_object_keys`, `has_strings_count`).
-/
namespace RegalModel.Caps

structure Caps where
  builtins : List String
  futureKeywords : List String
  features : List String
  deriving Repr, DecidableEq

/-- `for minus { delete(builtins, name) } ; for plus { builtins[name] = … }` -/
def resolve (base : Caps) (minus plus : List String) : Caps :=
  { base with builtins := (base.builtins.filter fun b => !(minus.contains b)) ++ plus }

def isOpaV1 (c : Caps) : Bool := c.features.contains "rego_v1"
def hasRegoV1Feature (c : Caps) : Bool := c.features.contains "rego_v1_import"
def hasIf (c : Caps) : Bool := c.futureKeywords.contains "if" || hasRegoV1Feature c || isOpaV1 c
def hasContains (c : Caps) : Bool := c.futureKeywords.contains "contains" || hasRegoV1Feature c || isOpaV1 c
def hasBuiltin (c : Caps) (b : String) : Bool := c.builtins.contains b
def hasObjectKeys (c : Caps) : Bool := hasBuiltin c "object.keys"
def hasStringsCount (c : Caps) : Bool := hasBuiltin c "strings.count"

end RegalModel.Caps
