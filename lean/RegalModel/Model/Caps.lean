/-
Model of the capability resolution in pkg/config/config.go `UnmarshalYAML` (minus first, then plus) and of
bundle/regal/capabilities/capabilities.rego (`has_if`, `has_contains`, `has_rego_v1_feature`, `is_opa_v1`,
`has_object_keys`, `has_strings_count`).
-/
namespace RegalModel.Caps

structure Caps where
  builtins : List String
  futureKeywords : List String
  features : List String
  deriving Repr, DecidableEq

/-- `for minus { delete(builtins, name) } ; for plus { builtins[name] = … }` -/
def resolve (base : Caps) (minus plus : List String) : Caps :=
  { base with builtins := (base.builtins.filter fun b => !(minus.contains b)) ++ plus }

def isOpaV1 (c : Caps) : Bool := c.features.contains "rego_v1"
def hasRegoV1Feature (c : Caps) : Bool := c.features.contains "rego_v1_import"
def hasIf (c : Caps) : Bool := c.futureKeywords.contains "if" || hasRegoV1Feature c || isOpaV1 c
def hasContains (c : Caps) : Bool := c.futureKeywords.contains "contains" || hasRegoV1Feature c || isOpaV1 c
def hasBuiltin (c : Caps) (b : String) : Bool := c.builtins.contains b
def hasObjectKeys (c : Caps) : Bool := hasBuiltin c "object.keys"
def hasStringsCount (c : Caps) : Bool := hasBuiltin c "strings.count"

/-- the gating table: rule (category, title) and the condition under which the target LACKS what the rule's advice
needs, i.e. under which the rule must be skipped with a notice of severity ≠ none (read off the rules' documentation
and `notices` clauses; severity-none notices — "obsolete since OPA 1.0" — are a different mechanism) -/
def gatingTable : List ((String × String) × (Caps → Bool)) :=
  [ (("idiomatic", "use-strings-count"),        fun c => !hasStringsCount c),
    (("idiomatic", "custom-has-key-construct"), fun c => !hasObjectKeys c),
    (("bugs", "sprintf-arguments-mismatch"),    fun c => !hasBuiltin c "sprintf"),
    (("bugs", "if-object-literal"),             fun c => !hasIf c),
    (("bugs", "if-empty-object"),               fun c => !hasIf c),
    (("custom", "one-liner-rule"),              fun c => !hasIf c),
    (("idiomatic", "use-if"),                   fun c => !hasIf c),
    (("idiomatic", "use-contains"),             fun c => !hasContains c),
    (("imports", "use-rego-v1"),                fun c => !hasRegoV1Feature c && !isOpaV1 c) ]

/-- the rules of the table that must be skipped for target capabilities `c` -/
def mustSkip (c : Caps) : List (String × String) :=
  (gatingTable.filter fun e => e.2 c).map (·.1)

end RegalModel.Caps
