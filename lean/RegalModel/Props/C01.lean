import RegalModel.Model.Kernel
namespace RegalModel.Kernel
theorem placeholder_c01 : True := trivial
end RegalModel.Kernel
