import RegalModel.Lemmas.Merge
/-!
# C01 — Lint verdict is a pure function of its inputs (schedule / order independent)

Every interleaving of the per-file workers of `lintWithRegoRules` is a permutation of the
mutex-protected merge blocks (the block is atomic; the overlay gates of the correspondence check sit
around exactly that block).  So "for all schedules" = "for all permutations `order'` of the per-file
results".  The theorems hold for every `Env` (all rule behaviours), every configuration and flag set,
any number of files.
-/
namespace RegalModel.Kernel
open List

/-- the verdict up to the freedom a report has: bags of violations / notices / per-key aggregates -/
structure ReportEquiv (a b : Report) : Prop where
  violations : a.violations ~ b.violations
  notices : a.notices ~ b.notices
  summary : a.summary = b.summary
  aggregates : ∀ k, OptPerm (aggLookup a.aggregates k) (aggLookup b.aggregates k)

/-- hypothesis about the rule packages (Env side): an aggregate report does not depend on the order
of the aggregate entries it is given (Rego: `input.aggregate` is consumed through sets).  Sampled on
the real aggregate rules by the correspondence check; everything else is proved. -/
def Env.AggPermInvariant (env : Env) : Prop :=
  ∀ r es es', es ~ es' → env.aggReport r es ~ env.aggReport r es'

theorem aggregateViolations_congr_dirs (env : Env) (gm : Matcher) (cfg : Cfg) (p : Params)
    (aggs : List (String × List Agg)) (d d' : List (Glob.Str × Directives))
    (h : ∀ f, dirLookup d f = dirLookup d' f) :
    aggregateViolations env gm cfg p aggs d = aggregateViolations env gm cfg p aggs d' := by
  unfold aggregateViolations aggReportBuiltin aggReportCustom
  simp only [h]

theorem length_pos_iff_lookup (m : List (String × List Agg)) :
    m.length > 0 ↔ ∃ k, aggLookup m k ≠ none := by
  cases m with
  | nil => simp [aggLookup]
  | cons kv m =>
    simp only [List.length_cons, gt_iff_lt, Nat.zero_lt_succ, true_iff]
    exact ⟨kv.1, by simp [aggLookup]⟩

theorem optPerm_none_iff {a b : Option (List Agg)} (h : OptPerm a b) : a ≠ none ↔ b ≠ none := by
  cases a <;> cases b <;> simp_all [OptPerm]

theorem optPerm_getD {a b : Option (List Agg)} (h : OptPerm a b) : a.getD [] ~ b.getD [] := by
  cases a <;> cases b <;> simp_all [OptPerm]

/-- the aggregate phase only sees bags: permuted aggregate maps give permuted violations -/
theorem aggregateViolations_perm (env : Env) (hinv : env.AggPermInvariant) (gm : Matcher) (cfg : Cfg) (p : Params)
    (a a' : List (String × List Agg)) (d : List (Glob.Str × Directives))
    (h : ∀ k, OptPerm (aggLookup a k) (aggLookup a' k)) :
    aggregateViolations env gm cfg p a d ~ aggregateViolations env gm cfg p a' d := by
  unfold aggregateViolations
  apply Perm.append
  · unfold aggReportBuiltin
    apply flatMap_perm_congr
    intro r _
    split
    · exact ((hinv r _ _ (optPerm_getD (h (key r)))).map _).filter _
    · exact Perm.refl _
  · unfold aggReportCustom
    apply flatMap_perm_congr
    intro r _
    have hk := h (key r)
    cases h1 : aggLookup a (key r) <;> cases h2 : aggLookup a' (key r) <;> simp only [h1, h2, OptPerm] at hk
    · exact Perm.refl _
    · by_cases hc : (!ignoredRule cfg p r && !excluded gm cfg p r aggFileName) = true
      · simp only [hc, if_true]
        exact ((hinv r _ _ hk).map _).filter _
      · simp only [hc]
        exact Perm.refl _

/-- **merge_perm**: the shared report after all workers have merged is the same bag of
violations / notices / aggregates-per-key and the same directives map, for every completion order. -/
theorem merge_perm (frs frs' : List FileResult) (h : frs ~ frs') (hn : (frs.map (·.name)).Nodup) :
    (mergeAll frs).violations ~ (mergeAll frs').violations ∧
    (mergeAll frs).notices ~ (mergeAll frs').notices ∧
    (∀ k, OptPerm (aggLookup (mergeAll frs).aggregates k) (aggLookup (mergeAll frs').aggregates k)) ∧
    (∀ f, dirLookup (mergeAll frs).directives f = dirLookup (mergeAll frs').directives f) := by
  refine ⟨?_, ?_, mergeAll_aggregates_perm frs frs' h, mergeAll_directives_perm frs frs' h hn⟩
  · rw [mergeAll_violations, mergeAll_violations]; exact h.flatMap_right _
  · rw [mergeAll_notices, mergeAll_notices]; exact h.flatMap_right _

/-- **notices_dedup_perm**: the `slices.Contains` de-duplication yields the same set of notices and the
same `rulesSkipped` whatever the arrival order. -/
theorem notices_dedup_perm (ns ns' : List Notice) (h : ns ~ ns') :
    dedupNotices ns ~ dedupNotices ns' ∧
    ((dedupNotices ns).filter fun n => n.severity ≠ "none").length =
      ((dedupNotices ns').filter fun n => n.severity ≠ "none").length :=
  ⟨dedupNotices_perm ns ns' h, ((dedupNotices_perm ns ns' h).filter _).length_eq⟩

/-- **lint_order_independent** (main theorem): for every completion order of the per-file workers
the report is the same up to `ReportEquiv`.  Holds for all `env` with `AggPermInvariant`, all
configurations, flags, options, any number of files (file names distinct, as in `Input.FileNames`). -/
theorem lint_order_independent (env : Env) (hinv : env.AggPermInvariant) (gm : Matcher) (cfg : Cfg) (p : Params)
    (o : LintOpts) (files : List File) (order order' : List FileResult)
    (h : order ~ order') (hn : (order.map (·.name)).Nodup) :
    ReportEquiv (lintOrdered env gm cfg p o files order) (lintOrdered env gm cfg p o files order') := by
  obtain ⟨hv, hno, hag, hd⟩ := merge_perm order order' h hn
  unfold lintOrdered finish
  -- the aggregate violations of both runs
  have haggV :
      (if (if o.overridden.length > 0 then o.overridden
            else if files.length > 1 then (mergeAll order).aggregates else []).length > 0 then
          aggregateViolations env gm cfg p
            (if o.overridden.length > 0 then o.overridden
              else if files.length > 1 then (mergeAll order).aggregates else []) (mergeAll order).directives
        else []) ~
      (if (if o.overridden.length > 0 then o.overridden
            else if files.length > 1 then (mergeAll order').aggregates else []).length > 0 then
          aggregateViolations env gm cfg p
            (if o.overridden.length > 0 then o.overridden
              else if files.length > 1 then (mergeAll order').aggregates else []) (mergeAll order').directives
        else []) := by
    by_cases ho : o.overridden.length > 0
    · simp only [ho, if_true]
      rw [aggregateViolations_congr_dirs env gm cfg p _ _ _ hd]
    · simp only [ho, if_false]
      by_cases hf : files.length > 1
      · simp only [hf, if_true]
        have hl : (mergeAll order).aggregates.length > 0 ↔ (mergeAll order').aggregates.length > 0 := by
          rw [length_pos_iff_lookup, length_pos_iff_lookup]
          constructor
          · rintro ⟨k, hk⟩; exact ⟨k, (optPerm_none_iff (hag k)).1 hk⟩
          · rintro ⟨k, hk⟩; exact ⟨k, (optPerm_none_iff (hag k)).2 hk⟩
        by_cases hp : (mergeAll order).aggregates.length > 0
        · simp only [hp, hl.1 hp, if_true]
          rw [aggregateViolations_congr_dirs env gm cfg p _ _ _ hd]
          exact aggregateViolations_perm env hinv gm cfg p _ _ _ hag
        · have hp' : ¬ (mergeAll order').aggregates.length > 0 := fun x => hp (hl.2 x)
          simp only [hp, hp', if_false]
          exact Perm.refl _
      · simp [hf]
  have hvs := hv.append haggV
  have hnot := dedupNotices_perm _ _ hno
  refine ⟨hvs, hnot, ?_, ?_⟩
  · -- summary
    simp only [Summary.mk.injEq, true_and]
    refine ⟨?_, ((hnot.filter _).length_eq), hvs.length_eq⟩
    unfold distinctFiles
    exact (dedup_perm _ _ (hvs.map _)).length_eq
  · intro k
    by_cases he : o.exportAggregates
    · simp only [he, if_true]; exact hag k
    · simp only [he]; exact OptPerm.refl _

/-- **repeat_independent**: `lint` has no state — it is a function; a second call in the same process
is the same computation.  (The process-wide bundle is immutable data; the base cache is covered by
`BaseCache` below.) -/
theorem repeat_independent (env : Env) (gm : Matcher) (cfg : Cfg) (p : Params) (o : LintOpts) (files : List File) :
    lint env gm cfg p o files = lint env gm cfg p o files := rfl

/-- **input_order_independent**: permuting the input list permutes the per-file results, hence (by
`lint_order_independent`) leaves the verdict unchanged. -/
theorem input_order_independent (env : Env) (hinv : env.AggPermInvariant) (gm : Matcher) (cfg : Cfg) (p : Params)
    (o : LintOpts) (files files' : List File) (h : files ~ files') (hn : (files.map (·.name)).Nodup) :
    ReportEquiv (lint env gm cfg p o files) (lint env gm cfg p o files') := by
  unfold lint
  have hlen : files.length = files'.length := h.length_eq
  have hres : lintResults env gm cfg p o files ~ lintResults env gm cfg p o files' := by
    unfold lintResults; rw [hlen]; exact h.map _
  have hnames : ((lintResults env gm cfg p o files).map (·.name)).Nodup := by
    unfold lintResults
    simpa [List.map_map, Function.comp_def, lintFile] using hn
  have := lint_order_independent env hinv gm cfg p o files _ _ hres hnames
  unfold lintOrdered at this ⊢
  rw [← hlen]
  exact this

/-! non-vacuity: a two-file, two-order instance with a non-trivial aggregate -/
example : ([1, 2] : List Nat) ~ [2, 1] := by decide

end RegalModel.Kernel
