import RegalModel.Props.C01
/-!
# C09 — Two-phase (collect, then report) aggregate linting equals one-shot linting
-/
namespace RegalModel.Kernel
open List

def KeysNodup (m : List (String × List Agg)) : Prop := (m.map (·.1)).Nodup

theorem aggInsert_keys (m : List (String × List Agg)) (k : String) (es : List Agg) (x : String) :
    x ∈ (aggInsert m k es).map (·.1) ↔ x = k ∨ x ∈ m.map (·.1) := by
  induction m with
  | nil => simp [aggInsert]
  | cons kv m ih =>
    obtain ⟨k0, es0⟩ := kv
    unfold aggInsert
    by_cases h : k0 = k
    · subst h; simp
    · simp only [h, if_false, List.map_cons, List.mem_cons, ih]
      constructor
      · rintro (h1 | h1 | h1)
        · exact Or.inr (Or.inl h1)
        · exact Or.inl h1
        · exact Or.inr (Or.inr h1)
      · rintro (h1 | h1 | h1)
        · exact Or.inr (Or.inl h1)
        · exact Or.inl h1
        · exact Or.inr (Or.inr h1)

theorem aggInsert_nodup (m : List (String × List Agg)) (k : String) (es : List Agg) (h : KeysNodup m) :
    KeysNodup (aggInsert m k es) := by
  unfold KeysNodup at *
  induction m with
  | nil => simp [aggInsert]
  | cons kv m ih =>
    obtain ⟨k0, es0⟩ := kv
    simp only [List.map_cons, List.nodup_cons] at h
    unfold aggInsert
    by_cases h0 : k0 = k
    · subst h0; simpa using h
    · simp only [h0, if_false, List.map_cons, List.nodup_cons]
      refine ⟨?_, ih h.2⟩
      rw [aggInsert_keys]
      rintro (h1 | h1)
      · exact h0 h1
      · exact h.1 h1

theorem foldl_aggInsert_nodup (cs m : List (String × List Agg)) (h : KeysNodup m) :
    KeysNodup (cs.foldl (fun m kv => aggInsert m kv.1 kv.2) m) := by
  induction cs generalizing m with
  | nil => exact h
  | cons kv cs ih => exact ih _ (aggInsert_nodup m kv.1 kv.2 h)

theorem foldl_merge_nodup (frs : List FileResult) (r : RegoReport) (h : KeysNodup r.aggregates) :
    KeysNodup (frs.foldl merge r).aggregates := by
  induction frs generalizing r with
  | nil => exact h
  | cons fr frs ih => exact ih _ (by simpa [merge] using foldl_aggInsert_nodup fr.aggregates r.aggregates h)

theorem mergeAll_nodup (frs : List FileResult) : KeysNodup (mergeAll frs).aggregates :=
  foldl_merge_nodup frs {} (by simp [KeysNodup])

/-- for a map with distinct keys, its contribution to key `k` is its lookup -/
theorem combine_of_nodup (m : List (String × List Agg)) (h : KeysNodup m) (base : Option (List Agg)) (k : String) :
    combine base m k = match aggLookup m k with
      | none => base
      | some es => some (base.getD [] ++ es) := by
  induction m generalizing base with
  | nil => simp [combine, aggLookup]
  | cons kv m ih =>
    obtain ⟨k0, es0⟩ := kv
    unfold KeysNodup at h
    simp only [List.map_cons, List.nodup_cons] at h
    rw [combine_cons]
    by_cases h0 : k = k0
    · subst h0
      have hnone : aggLookup m k = none := by
        unfold aggLookup
        rw [Option.map_eq_none_iff, List.find?_eq_none]
        intro x hx
        have : x.1 ≠ k := fun e => h.1 (by rw [← e]; exact List.mem_map_of_mem hx)
        simp [this]
      rw [ih h.2, hnone]
      simp [aggLookup]
    · have h0' : ¬ k0 = k := fun e => h0 e.symm
      simp only [h0, if_false]
      rw [ih h.2]
      simp [aggLookup, h0']

theorem combine_none_eq_lookup (cs : List (String × List Agg)) (k : String) :
    combine none cs k = aggLookup (cs.foldl (fun m kv => aggInsert m kv.1 kv.2) []) k := by
  rw [foldl_aggInsert_lookup]; simp [aggLookup]

/-- a normalised map `m` that represents the contributions `cs` can replace them inside `combine` -/
theorem combine_represent (m cs : List (String × List Agg)) (hn : KeysNodup m)
    (hrep : ∀ k, aggLookup m k = combine none cs k) (base : Option (List Agg)) (k : String) :
    combine base m k = combine base cs k := by
  rw [combine_of_nodup m hn, hrep]
  unfold combine
  cases hf : (cs.filter (·.1 = k)) with
  | nil => simp
  | cons a l => simp

theorem combine_flatten_represent (pairs : List (List (String × List Agg) × List (String × List Agg)))
    (h : ∀ pr ∈ pairs, KeysNodup pr.1 ∧ ∀ k, aggLookup pr.1 k = combine none pr.2 k)
    (base : Option (List Agg)) (k : String) :
    combine base (pairs.flatMap (·.1)) k = combine base (pairs.flatMap (·.2)) k := by
  induction pairs generalizing base with
  | nil => rfl
  | cons pr pairs ih =>
    simp only [List.flatMap_cons]
    rw [← combine_append, ← combine_append, combine_represent pr.1 pr.2 (h pr (by simp)).1 (h pr (by simp)).2]
    exact ih (fun q hq => h q (by simp [hq])) _

/-! ### the two pipelines -/

/-- exported aggregates of one collect run (`WithCollectQuery(true).WithExportAggregates(true)`) over `fs` -/
def exportOf (env : Env) (gm : Matcher) (cfg : Cfg) (p : Params) (fs : List File) : List (String × List Agg) :=
  (mergeAll (fs.map (lintFile env gm cfg p true))).aggregates

/-- merging exported maps key by key, in the given order (`allAggregates[k] = append(allAggregates[k], …)`) -/
def mergeExports (ms : List (List (String × List Agg))) : List (String × List Agg) :=
  (ms.flatMap id).foldl (fun m kv => aggInsert m kv.1 kv.2) []

theorem exportOf_lookup (env : Env) (gm : Matcher) (cfg : Cfg) (p : Params) (fs : List File) (k : String) :
    aggLookup (exportOf env gm cfg p fs) k = combine none (fs.flatMap (fileAggregates env gm cfg p)) k := by
  unfold exportOf
  rw [mergeAll_aggregates]
  simp [List.flatMap_map, lintFile]

theorem flatMap_flatMap_flatten {α β} (parts : List (List α)) (g : α → List β) :
    (parts.flatMap fun part => part.flatMap g) = parts.flatten.flatMap g := by
  induction parts with
  | nil => rfl
  | cons a parts ih => simp [List.flatMap_cons, List.flatMap_append, ih]

/-- **collect_partition_perm**: for every partition of the files into collect runs and every order
of merging the exported maps, each rule receives the same bag of aggregate entries as in a one-shot
run over all files; a key is present in one iff it is present in the other (empty markers included). -/
theorem collect_partition_perm (env : Env) (gm : Matcher) (cfg : Cfg) (p : Params)
    (parts : List (List File)) (files : List File) (h : parts.flatten ~ files) (k : String) :
    OptPerm (aggLookup (mergeExports (parts.map (exportOf env gm cfg p))) k)
            (aggLookup (exportOf env gm cfg p files) k) := by
  unfold mergeExports
  rw [foldl_aggInsert_lookup, exportOf_lookup]
  have hl : aggLookup ([] : List (String × List Agg)) k = none := by simp [aggLookup]
  rw [hl]
  -- replace every exported map by the raw contributions it represents
  have hrep := combine_flatten_represent
    (parts.map fun part => (exportOf env gm cfg p part, part.flatMap (fileAggregates env gm cfg p)))
    (by
      intro pr hpr
      simp only [List.mem_map] at hpr
      obtain ⟨part, _, rfl⟩ := hpr
      exact ⟨mergeAll_nodup _, fun k => exportOf_lookup env gm cfg p part k⟩)
    none k
  simp only [List.flatMap_map] at hrep
  have e1 : (parts.map (exportOf env gm cfg p)).flatMap id = parts.flatMap (exportOf env gm cfg p) := by
    simp [List.flatMap_map]
  rw [e1, hrep]
  have e2 : (parts.flatMap fun part => part.flatMap (fileAggregates env gm cfg p)) =
      parts.flatten.flatMap (fileAggregates env gm cfg p) := by
    exact flatMap_flatMap_flatten parts _
  rw [e2]
  exact combine_perm _ _ (h.flatMap_right _) k

/-- **two_phase_eq_one_shot** (same directives on both sides): the cross-file violations of the
report run over the merged exports are those of the one-shot run, as bags. -/
theorem two_phase_eq_one_shot (env : Env) (hinv : env.AggPermInvariant) (gm : Matcher) (cfg : Cfg) (p : Params)
    (parts : List (List File)) (files : List File) (h : parts.flatten ~ files)
    (d : List (Glob.Str × Directives)) :
    aggregateViolations env gm cfg p (mergeExports (parts.map (exportOf env gm cfg p))) d ~
      aggregateViolations env gm cfg p (exportOf env gm cfg p files) d :=
  aggregateViolations_perm env hinv gm cfg p _ _ d (collect_partition_perm env gm cfg p parts files h)

/-- the report run is triggered in both pipelines or in neither -/
theorem two_phase_triggers_same (env : Env) (gm : Matcher) (cfg : Cfg) (p : Params)
    (parts : List (List File)) (files : List File) (h : parts.flatten ~ files) :
    (mergeExports (parts.map (exportOf env gm cfg p))).length > 0 ↔ (exportOf env gm cfg p files).length > 0 := by
  rw [length_pos_iff_lookup, length_pos_iff_lookup]
  constructor
  · rintro ⟨k, hk⟩; exact ⟨k, (optPerm_none_iff (collect_partition_perm env gm cfg p parts files h k)).1 hk⟩
  · rintro ⟨k, hk⟩; exact ⟨k, (optPerm_none_iff (collect_partition_perm env gm cfg p parts files h k)).2 hk⟩

/-- **two_phase_directives (negation, proved)**: the property also demands the effect of inline
ignore directives.  The report-only run has no directives (they are only collected from files linted
in the same run), so a directive on an aggregate violation is honoured one-shot and ignored
two-phase.  Finding C09-directives. -/
theorem two_phase_directives_witness :
    let env : Env := { builtin := [("c", "t")], custom := [], report := fun _ _ => [], notices := fun _ _ => [],
                       hasAggregate := fun _ => true, aggregate := fun _ f => [{ src := f.name, data := "x" }],
                       aggReport := fun _ es => es.map fun a =>
                         { category := "c", title := "t", level := "", file := a.src, row := some 3 },
                       directives := fun f => if f.name = "a".toList then [(3, ["t"])] else [] }
    let cfg : Cfg := { rules := [(("c", "t"), { level := some "error" })] }
    let gm : Matcher := fun _ _ => false
    let files : List File := [{ name := "a".toList }, { name := "b".toList }]
    let oneShot := (lint env gm cfg {} {} files).violations
    let exports := mergeExports (files.map fun f => exportOf env gm cfg {} [f])
    let twoPhase := (lint env gm cfg {} { overridden := exports } []).violations
    oneShot.length = 1 ∧ twoPhase.length = 2 := by decide

end RegalModel.Kernel
