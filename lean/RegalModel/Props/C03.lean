import RegalModel.Model.SelectProto
/-!
# C03 (protocol part) / C01 / C02 — the wait/error protocol of `lintWithRegoRules`

*Proved here* (for any number of workers and every interleaving): no deadlock, an ok result contains
every file's merge, an evaluation error is never dropped.  *Not proved*: that the ~95 rules never
raise an evaluation error on a parseable module (`Env.Total`) — that is a statement about L3 and is
only sampled (see evidence `assumption_sampling`).
-/
namespace RegalModel.SelectProto

theorem inv_init (n : Nat) : Inv (init n) := by simp [Inv, init]

theorem inv_step {fixed : Bool} {s t : PState} (h : Inv s) (st : Step fixed s t) : Inv t := by
  obtain ⟨h1, h2, h3⟩ := h
  cases st with
  | workerOk hp => exact ⟨by simp only; omega, fun hr => h2 hr, h3⟩
  | workerErr hp =>
    refine ⟨by simp only; omega, fun hr => ?_, by simp only; omega⟩
    have := h2 hr; simp only; omega
  | selectErr hr hc => exact ⟨h1, fun hr' => by simp at hr', by simp only; omega⟩
  | selectDone hr hp => exact ⟨h1, fun hr' => by simp at hr', h3⟩

theorem inv_reachable {fixed : Bool} {s : PState} (h : Reachable fixed s) : Inv s := by
  induction h with
  | init n => exact inv_init n
  | step _ st ih => exact inv_step ih st

/-- once main has returned, its result never changes (the workers may still run) -/
theorem result_stable {fixed : Bool} {s t : PState} (st : Step fixed s t) (b : Bool) (h : s.result = some b) :
    t.result = some b := by
  cases st with
  | workerOk _ => exact h
  | workerErr _ => exact h
  | selectErr hr _ => rw [hr] at h; cases h
  | selectDone hr _ => rw [hr] at h; cases h

/-- strengthened invariant for the repaired code: an ok result means nobody failed and everybody merged -/
def OkInv (s : PState) : Prop := s.result = some true → s.erred = 0 ∧ s.pending = 0 ∧ s.merged = s.n

theorem okInv_reachable {s : PState} (h : Reachable true s) : OkInv s := by
  induction h with
  | init n => intro h; simp [init] at h
  | @step s t hs st ih =>
    have hinv := inv_reachable hs
    obtain ⟨h1, h2, h3⟩ := hinv
    intro ht
    cases st with
    | workerOk hp =>
      have := ih ht; dsimp only at *; omega
    | workerErr hp =>
      have := ih ht; dsimp only at *; omega
    | selectErr hr hc => simp at ht
    | selectDone hr hp =>
      simp only [if_true, Option.some.injEq, decide_eq_true_eq] at ht
      have := h2 hr
      dsimp only at *
      refine ⟨by omega, hp, by omega⟩

/-- **select_no_lost_error**: in every reachable state of the repaired protocol, if some worker
failed, main has not returned (and will not return) a report. -/
theorem select_no_lost_error {s : PState} (h : Reachable true s) (herr : s.erred > 0) :
    s.result ≠ some true := by
  intro hr
  have := okInv_reachable h hr
  omega

/-- **proto_complete**: a returned report contains every file's merge. -/
theorem proto_complete {s : PState} (h : Reachable true s) (hr : s.result = some true) :
    s.merged = s.n ∧ s.pending = 0 :=
  let ⟨_, hp, hm⟩ := okInv_reachable h hr
  ⟨hm, hp⟩

/-- **proto_no_deadlock**: while main is waiting some step is enabled; with `pending` as measure the
waiting phase ends after at most `n + 1` steps. -/
theorem proto_no_deadlock {fixed : Bool} (s : PState) (hr : s.result = none) : ∃ t, Step fixed s t := by
  by_cases hp : s.pending > 0
  · exact ⟨_, Step.workerOk s hp⟩
  · exact ⟨_, Step.selectDone s hr (by omega)⟩

/-- every step either decreases `pending` or makes main return: no infinite waiting -/
theorem proto_progress {fixed : Bool} {s t : PState} (st : Step fixed s t) (hr : s.result = none) :
    t.pending < s.pending ∨ t.result ≠ none := by
  cases st with
  | workerOk hp => left; simp only; omega
  | workerErr hp => left; simp only; omega
  | selectErr _ _ => right; simp
  | selectDone _ _ => right; simp

/-- **lost_error_witness** (the code before the repair): one file, its worker fails, the waiter
signals, `select` takes `doneCh`: a report is returned although a worker failed.  Replayed on the real
code with the schedule gate (16 of 24 runs dropped the error), repaired by commit 3eb566e. -/
theorem lost_error_witness : ∃ s, Reachable false s ∧ s.erred > 0 ∧ s.result = some true := by
  refine ⟨{ n := 1, pending := 0, merged := 0, erred := 1, inChan := 1, result := some true }, ?_, by decide, rfl⟩
  have h0 : Reachable false (init 1) := Reachable.init 1
  have h1 := Reachable.step h0 (Step.workerErr (init 1) (by decide))
  have h2 := Reachable.step h1 (Step.selectDone _ rfl rfl)
  simpa [init] using h2

/-! non-vacuity: the repaired protocol does return reports and does return errors -/
example : ∃ s, Reachable true s ∧ s.result = some true := by
  refine ⟨{ n := 1, pending := 0, merged := 1, erred := 0, inChan := 0, result := some true }, ?_, rfl⟩
  have h1 := Reachable.step (Reachable.init (fixed := true) 1) (Step.workerOk (init 1) (by decide))
  have h2 := Reachable.step h1 (Step.selectDone _ rfl rfl)
  simpa [init] using h2

end RegalModel.SelectProto
