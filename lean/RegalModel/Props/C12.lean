import RegalModel.Model.TextFix
/-!
# C12 — Fixing terminates, removes what it claims to fix, and is idempotent

The loop of `applyLinterFixes` over an abstract linter (`lint`) and fixes (`fix`).  What is proved for ALL
systems: idempotence and the post-condition; termination under the explicit progress hypothesis (every
successful fix decreases a measure) — that hypothesis is what each concrete fix owes (C11, Env side) and is
exactly what the repaired `use-assignment-operator` column violated before (non-termination witness below).
-/
namespace RegalModel.TextFix

variable {S V : Type}

theorem foldl_stays_changed (sys : Sys S V) (l : List V) (a : S × Bool) (ha : a.2 = true) :
    (l.foldl (stepFix sys) a).2 = true := by
  induction l generalizing a with
  | nil => exact ha
  | cons w l ih =>
    simp only [List.foldl_cons]
    apply ih
    unfold stepFix
    cases sys.fix a.1 w <;> simp [ha]

theorem foldl_unchanged (sys : Sys S V) (vs : List V) (acc : S × Bool)
    (h : (vs.foldl (stepFix sys) acc).2 = false) : vs.foldl (stepFix sys) acc = acc := by
  induction vs generalizing acc with
  | nil => rfl
  | cons v vs ih =>
    simp only [List.foldl_cons] at h ⊢
    cases hf : sys.fix acc.1 v with
    | none =>
      have hs : stepFix sys acc v = acc := by simp [stepFix, hf]
      rw [hs] at h ⊢
      exact ih acc h
    | some s' =>
      have hs : stepFix sys acc v = (s', true) := by simp [stepFix, hf]
      rw [hs] at h
      have := foldl_stays_changed sys vs (s', true) rfl
      rw [this] at h
      cases h

theorem pass_unchanged (sys : Sys S V) (s : S) (vs : List V) (h : (pass sys s vs).2 = false) :
    pass sys s vs = (s, false) := foldl_unchanged sys vs (s, false) h

/-- **loop_post**: when the loop ends in state `t`, either nothing (fixable, enabled) is reported for `t`, or
the last full pass over a report changed nothing (it started and ended in `t`). -/
theorem loop_post (sys : Sys S V) (fuel : Nat) (s t : S) (h : loop sys fuel s = some t) :
    (sys.lint t).isEmpty = true ∨ pass sys t (sys.lint t) = (t, false) := by
  induction fuel generalizing s with
  | zero => simp [loop] at h
  | succ f ih =>
    unfold loop at h
    split at h
    · rename_i hl
      simp only [Option.some.injEq] at h; subst h
      exact Or.inl hl
    · simp only at h
      split at h
      · exact ih _ h
      · rename_i hc
        simp only [Option.some.injEq] at h
        have hu := pass_unchanged sys s (sys.lint s) (by simpa using hc)
        rw [hu] at h
        simp only at h
        subst h
        exact Or.inr hu

/-- **loop_idempotent**: running the fixer again on its own result changes nothing (for every system,
whatever the fixes do). -/
theorem loop_idempotent (sys : Sys S V) (fuel : Nat) (s t : S) (h : loop sys fuel s = some t) :
    loop sys 1 t = some t := by
  rcases loop_post sys fuel s t h with h1 | h1
  · simp [loop, h1]
  · unfold loop
    split
    · rfl
    · simp [h1]

/-- the measure decreases along a pass -/
theorem foldl_measure (sys : Sys S V) (μ : S → Nat) (hμ : ∀ s v s', sys.fix s v = some s' → μ s' < μ s)
    (vs : List V) (acc : S × Bool) (m : Nat) (h1 : μ acc.1 ≤ m) (h2 : acc.2 = true → μ acc.1 < m) :
    μ (vs.foldl (stepFix sys) acc).1 ≤ m ∧ ((vs.foldl (stepFix sys) acc).2 = true → μ (vs.foldl (stepFix sys) acc).1 < m) := by
  induction vs generalizing acc with
  | nil => exact ⟨h1, h2⟩
  | cons v vs ih =>
    simp only [List.foldl_cons]
    cases hf : sys.fix acc.1 v with
    | none =>
      have hs : stepFix sys acc v = acc := by simp [stepFix, hf]
      rw [hs]; exact ih acc h1 h2
    | some s' =>
      have hs : stepFix sys acc v = (s', true) := by simp [stepFix, hf]
      rw [hs]
      have := hμ acc.1 v s' hf
      exact ih (s', true) (by simp only; omega) (fun _ => by simp only; omega)

/-- **loop_terminates**: if every successful fix strictly decreases a measure, `μ s + 1` rounds suffice:
the loop returns. -/
theorem loop_terminates (sys : Sys S V) (μ : S → Nat) (hμ : ∀ s v s', sys.fix s v = some s' → μ s' < μ s)
    (fuel : Nat) (s : S) (hf : μ s < fuel) : ∃ t, loop sys fuel s = some t := by
  induction fuel generalizing s with
  | zero => omega
  | succ f ih =>
    unfold loop
    split
    · exact ⟨s, rfl⟩
    · simp only
      split
      · rename_i hc
        have := (foldl_measure sys μ hμ (sys.lint s) (s, false) (μ s) (Nat.le_refl _) (by simp)).2 hc
        exact ih _ (by unfold pass; omega)
      · exact ⟨_, rfl⟩

/-- **eq_in_head_loops_forever** (the rule before its repair): with the column of the *first* "=" of the line,
each pass on `f("=") = 1` inserts another ':' inside the string; the real operator is never reached, the
violation persists, and the loop never ends (replayed: `regal fix` ran into the 20 s watchdog). -/
def eqColOld (line : Line) : Nat := line.findIdx (· = '=') + 1

/-- one pass of the old rule + fix on the head line -/
def oldPass (l : Line) : Line := (useAssign l (eqColOld l)).getD l

def iterN (f : Line → Line) : Nat → Line → Line
  | 0, l => l
  | n + 1, l => f (iterN f n l)

theorem findIdx_no_eq (p tail : Line) (h : ∀ c ∈ p, c ≠ '=') :
    (p ++ '=' :: tail).findIdx (· = '=') = p.length := by
  induction p with
  | nil => simp [List.findIdx_cons]
  | cons c p ih =>
    have hc : c ≠ '=' := h c (by simp)
    simp only [List.cons_append, List.findIdx_cons, hc, decide_false, cond_false, List.length_cons]
    rw [ih fun d hd => h d (by simp [hd])]

/-- one pass of the old rule on a line whose first "=" is preceded by `p`: a ':' goes in front of THAT "=" -/
theorem oldPass_first_eq (p tail : Line) (h : ∀ c ∈ p, c ≠ '=') :
    oldPass (p ++ '=' :: tail) = p ++ ':' :: '=' :: tail := by
  unfold oldPass eqColOld useAssign
  rw [findIdx_no_eq p tail h]
  have hget : (p ++ '=' :: tail)[p.length + 1 - 1]? = some '=' := by simp
  have hlen : p.length + 1 - 1 < (p ++ '=' :: tail).length := by simp
  simp only [hget, hlen, and_self, Nat.le_add_left, true_and, if_true, Option.getD_some]
  simp

theorem iter_oldPass (p tail : Line) (h : ∀ c ∈ p, c ≠ '=') (n : Nat) :
    iterN oldPass n (p ++ '=' :: tail) = p ++ List.replicate n ':' ++ '=' :: tail := by
  induction n with
  | zero => simp [iterN]
  | succ k ih =>
    simp only [iterN, ih]
    have hp : ∀ c ∈ p ++ List.replicate k ':', c ≠ '=' := by
      intro c hc
      simp only [List.mem_append, List.mem_replicate] at hc
      rcases hc with hc | ⟨_, rfl⟩
      · exact h c hc
      · decide
    rw [oldPass_first_eq _ tail hp, List.replicate_succ']
    simp

/-- **eq_in_head_loops_forever** (the rule before its repair): with the column of the *first* "=" of the
line, the n-th pass on `f("=") = 1` has put n colons inside the string literal; the real operator (the
second "=") never gets one, so the violation persists and the loop never ends (replayed: `regal fix`
ran into the 20 s watchdog). -/
theorem eq_in_head_loops_forever (n : Nat) :
    iterN oldPass n "f(\"=\") = 1".toList = "f(\"".toList ++ List.replicate n ':' ++ "=\") = 1".toList := by
  have h := iter_oldPass "f(\"".toList "\") = 1".toList (by decide) n
  exact h

end RegalModel.TextFix
