import RegalModel.Lemmas.Merge
import RegalModel.Lemmas.Directive
import Std.Data.String.ToNat
/-!
# C06 — Inline ignore directives suppress exactly the named rules, same or next line

`ast.ignore_directives` stores the rule names of a directive comment on row `c` under key `c + 1`;
`_ignored` looks up `row` and `row + 1`.  All theorems are `∀ env` and `∀` directive sets.
-/
namespace RegalModel.Kernel
open List

/-- directives object built from the directive comments `(row of the comment, names)` -/
def directivesOfComments (cs : List (Nat × List String)) : Directives := cs.map fun c => (c.1 + 1, c.2)

/-- **ignored_iff**: a violation is suppressed iff it has a row and some directive comment naming
its rule sits on the same line or on the line directly above. -/
theorem ignored_iff (v : Violation) (cs : List (Nat × List String)) :
    ignored v (directivesOfComments cs) = true ↔
      ∃ row, v.row = some row ∧ ∃ c ∈ cs, v.title ∈ c.2 ∧ (c.1 = row ∨ c.1 + 1 = row) := by
  unfold ignored directivesOfComments
  cases hv : v.row with
  | none => simp
  | some r =>
    simp only [List.any_map, List.any_eq_true, Function.comp, Bool.and_eq_true, Bool.or_eq_true,
      decide_eq_true_eq, Option.some.injEq, exists_eq_left']
    constructor
    · rintro ⟨c, hc, h1, h2⟩
      refine ⟨c, hc, h2, ?_⟩
      rcases h1 with h1 | h1
      · right; exact h1
      · left; omega
    · rintro ⟨c, hc, h2, h1⟩
      refine ⟨c, hc, ?_, h2⟩
      rcases h1 with h1 | h1
      · right; omega
      · left; exact h1

/-- a violation without a position is never suppressed -/
theorem no_row_never_ignored (v : Violation) (d : Directives) (h : v.row = none) : ignored v d = false := by
  simp [ignored, h]

/-- exact-name membership: a directive that names only other rules (e.g. a prefix of the name, or
another rule) never suppresses -/
theorem other_name_never_ignores (v : Violation) (d : Directives) (h : ∀ e ∈ d, v.title ∉ e.2) :
    ignored v d = false := by
  unfold ignored
  cases v.row with
  | none => rfl
  | some r =>
    simp only [List.any_eq_false, Bool.and_eq_true, Bool.or_eq_true, decide_eq_true_eq, not_and]
    intro e he _
    exact h e he

/-- the violations a file evaluation would report if it had no directives at all -/
def rawFileViolations (env : Env) (gm : Matcher) (cfg : Cfg) (p : Params) (f : File) : List Violation :=
  ((rulesToRun gm cfg p f.name).flatMap fun r =>
    if r ∈ env.builtin && (noticesOf env r f).isEmpty then (env.report r f).map (stamp cfg p r) else [])
  ++ (env.custom.flatMap fun r =>
    if !ignoredRule cfg p r && !excluded gm cfg p r (Glob.regoRelCustom f.name cfg.pathPrefix) then
      (env.report r f).map (stamp cfg p r) else [])

theorem filter_flatMap_if {α β} (l : List α) (c : α → Bool) (g : α → List β) (q : β → Bool) :
    (l.flatMap fun r => if c r then (g r).filter q else []) =
      (l.flatMap fun r => if c r then g r else []).filter q := by
  induction l with
  | nil => simp
  | cons a l ih =>
    simp only [List.flatMap_cons, List.filter_append, ih]
    by_cases h : c a <;> simp [h]

/-- **suppress_exact**: what a file reports is *exactly* its undirected report minus the violations
the directives name on their row / next row — nothing else changes, for built-in and custom rules. -/
theorem suppress_exact (env : Env) (gm : Matcher) (cfg : Cfg) (p : Params) (f : File) :
    fileViolations env gm cfg p f =
      (rawFileViolations env gm cfg p f).filter fun v => !ignored v (env.directives f) := by
  unfold rawFileViolations fileViolations reportBuiltin reportCustom
  rw [List.filter_append, ← filter_flatMap_if, ← filter_flatMap_if]

/-- the undirected report does not depend on the directives at all -/
theorem raw_independent_of_directives (env : Env) (d : File → Directives) (gm : Matcher) (cfg : Cfg) (p : Params)
    (f : File) : rawFileViolations { env with directives := d } gm cfg p f = rawFileViolations env gm cfg p f := rfl

/-- adding one directive comment removes precisely the violations it names on its row / next row -/
theorem add_directive_removes_exactly (env : Env) (gm : Matcher) (cfg : Cfg) (p : Params) (f : File)
    (c : Nat × List String) (v : Violation)
    (env' : Env) (henv : env' = { env with directives := fun g => (c.1 + 1, c.2) :: env.directives g }) :
    v ∈ fileViolations env' gm cfg p f ↔
      v ∈ fileViolations env gm cfg p f ∧
        ¬ (∃ row, v.row = some row ∧ v.title ∈ c.2 ∧ (c.1 = row ∨ c.1 + 1 = row)) := by
  subst henv
  rw [suppress_exact, suppress_exact]
  have hraw : rawFileViolations { env with directives := fun g => (c.1 + 1, c.2) :: env.directives g } gm cfg p f
      = rawFileViolations env gm cfg p f := rfl
  rw [hraw]
  simp only [List.mem_filter, Bool.not_eq_true', and_assoc]
  apply and_congr_right
  intro _
  unfold ignored
  cases hv : v.row with
  | none => simp
  | some r =>
    simp only [List.any_cons, Bool.or_eq_false_iff, Bool.and_eq_false_imp, Bool.or_eq_true, decide_eq_true_eq,
      decide_eq_false_iff_not, Option.some.injEq, exists_eq_left']
    constructor
    · rintro ⟨h1, h2⟩
      refine ⟨h2, ?_⟩
      rintro ⟨ht, hr⟩
      apply h1 _ ht
      rcases hr with hr | hr
      · right; omega
      · left; omega
    · rintro ⟨h2, h1⟩
      refine ⟨?_, h2⟩
      intro hr ht
      apply h1
      refine ⟨ht, ?_⟩
      rcases hr with hr | hr
      · right; omega
      · left; omega

/-- **aggregate_same**: both aggregate branches apply the very same predicate, with the directives
of the violation's own source file. -/
theorem aggregate_same (env : Env) (gm : Matcher) (cfg : Cfg) (p : Params)
    (aggs : List (String × List Agg)) (dirs : List (Glob.Str × Directives)) (v : Violation)
    (h : v ∈ aggregateViolations env gm cfg p aggs dirs) : ignored v (dirLookup dirs v.file) = false := by
  unfold aggregateViolations aggReportBuiltin aggReportCustom at h
  simp only [List.mem_append, List.mem_flatMap] at h
  rcases h with ⟨r, _, h⟩ | ⟨r, _, h⟩
  · split at h
    · simpa using (List.mem_filter.1 h).2
    · cases h
  · split at h
    · cases h
    · split at h
      · simpa using (List.mem_filter.1 h).2
      · cases h

/-- `util.keys_to_numbers` ∘ JSON string keys: the round trip of a row number through its decimal
string is the identity (Go re-keys `IgnoreDirectives` as strings, Rego converts back). -/
theorem keys_roundtrip (n : Nat) : (toString n).toNat? = some n := Nat.toNat?_repr n

/-! non-vacuity -/
example : ignored { category := "c", title := "t", level := "error", file := [], row := some 5 }
    (directivesOfComments [(4, ["t"])]) = true := by decide
example : ignored { category := "c", title := "t", level := "error", file := [], row := some 5 }
    (directivesOfComments [(3, ["t"])]) = false := by decide
example : ignored { category := "c", title := "t", level := "error", file := [], row := some 5 }
    (directivesOfComments [(5, ["tt", "x"])]) = false := by decide

end RegalModel.Kernel

namespace RegalModel.Directive
open List

/-- **names_spelling**: however a directive is spelled — any Go-whitespace before `regal ignore:`, any whitespace
(`\s`) before and after every name and comma — the parser yields exactly the listed names, in order. For every
non-empty list of names (non-empty, free of whitespace and commas) and all whitespace runs. -/
theorem names_spelling (lead : Str) (items : List (Str × Str × Str))
    (hl : ∀ c ∈ lead, isGoSpace c = true) (hne : items ≠ [])
    (h : ∀ it ∈ items, CleanName it.2.1 ∧ AllWs it.1 ∧ AllWs it.2.2) :
    names (lead ++ marker ++ spaced items) = some (items.map (·.2.1)) := by
  obtain ⟨core, x, tail, he, hx, ht⟩ := spaced_end items hne h
  have hm : marker = 'r' :: "egal ignore:".toList := by decide
  -- left trim
  have h1 : (lead ++ marker ++ spaced items).dropWhile isGoSpace = marker ++ spaced items := by
    rw [List.append_assoc, hm]
    exact dropWhile_prefix isGoSpace lead 'r' _ hl (by decide)
  -- right trim
  have h2 : trimSpace (lead ++ marker ++ spaced items) = marker ++ (core ++ [x]) := by
    unfold trimSpace
    rw [h1, he]
    have : marker ++ (core ++ [x] ++ tail) = ((marker ++ core) ++ [x]) ++ tail := by simp
    rw [this, trimRight_spec (marker ++ core) tail x hx (fun c hc => reWs_goSpace c (ht c hc))]
    simp
  unfold names
  simp only [h2]
  rw [findSub_prefix marker _ (by decide)]
  simp only [Option.map_some, Nat.zero_add]
  have hd : (marker ++ (core ++ [x])).drop 13 = core ++ [x] := by
    have : marker.length = 13 := by decide
    rw [← this, List.drop_left]
  rw [hd]
  have hs : stripWs (core ++ [x]) = stripWs (spaced items) := by
    rw [he, stripWs_append (core ++ [x]) tail, stripWs_ws tail ht, List.append_nil]
  rw [hs, stripWs_spaced items h]
  rw [splitOn_joined _ (by simpa using hne)]
  intro n hn c hc
  simp only [List.mem_map] at hn
  obtain ⟨it, hit, rfl⟩ := hn
  exact ((h it hit).1.2 c hc).2

/-- **names_rule_iff_listed**: a directive names a rule exactly when the rule's title is one of the listed names —
a prefix of a name, or another rule's name, names nothing else. -/
theorem names_rule_iff_listed (lead : Str) (items : List (Str × Str × Str)) (title : Str)
    (hl : ∀ c ∈ lead, isGoSpace c = true) (hne : items ≠ [])
    (h : ∀ it ∈ items, CleanName it.2.1 ∧ AllWs it.1 ∧ AllWs it.2.2) :
    namesRule (lead ++ marker ++ spaced items) title = true ↔ title ∈ items.map (·.2.1) := by
  unfold namesRule
  rw [names_spelling lead items hl hne h]
  simp

/-- a comment without the marker is no directive -/
example : names " just a comment".toList = none := by decide
/-- non-vacuity: "  regal ignore: a ,b" lists a and b; the prefix "li" of "line-length" is not named -/
example : names (" ".toList ++ marker ++ spaced [(" ".toList, "a".toList, " ".toList), ([], "b".toList, [])]) =
    some ["a".toList, "b".toList] := by decide
example : namesRule " regal ignore:line-length".toList "li".toList = false := by decide

end RegalModel.Directive
