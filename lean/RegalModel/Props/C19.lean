import RegalModel.Lemmas.Merge
import RegalModel.Model.Caps
/-!
# C19 — Rules needing a missing engine capability are skipped, never misfire
-/
namespace RegalModel.Kernel
open List

/-- **noticed_rule_silent**: every violation of the built-in report clause comes from a rule that
runs for this file and has no notice — a rule with a notice contributes nothing. (∀ env, config, flags) -/
theorem noticed_rule_silent (env : Env) (gm : Matcher) (cfg : Cfg) (p : Params) (f : File) (v : Violation)
    (h : v ∈ reportBuiltin env gm cfg p f) :
    ∃ r ∈ rulesToRun gm cfg p f.name, r ∈ env.builtin ∧ noticesOf env r f = [] ∧
      v.category = r.1 ∧ v.title = r.2 := by
  unfold reportBuiltin at h
  simp only [List.mem_flatMap] at h
  obtain ⟨r, hr, hv⟩ := h
  split at hv
  · rename_i hc
    simp only [Bool.and_eq_true, decide_eq_true_eq, List.isEmpty_iff] at hc
    simp only [List.mem_filter, List.mem_map] at hv
    obtain ⟨⟨v0, _, rfl⟩, _⟩ := hv
    exact ⟨r, hr, hc.1, hc.2, rfl, rfl⟩
  · cases hv

/-- a rule with a notice never reports, stated contrapositively -/
theorem gated_rule_reports_nothing (env : Env) (gm : Matcher) (cfg : Cfg) (p : Params) (f : File) (r : RuleId)
    (hn : noticesOf env r f ≠ []) (v : Violation) (h : v ∈ reportBuiltin env gm cfg p f) :
    ¬ (v.category = r.1 ∧ v.title = r.2) := by
  obtain ⟨r', _, _, hn', hc, ht⟩ := noticed_rule_silent env gm cfg p f v h
  rintro ⟨h1, h2⟩
  have : r' = r := by
    cases r'; cases r; simp_all
  subst this
  exact hn hn'

/-- **notices_only_from_running_rules**: the notices of a file come from rules that are enabled and
not excluded for it. -/
theorem notices_only_from_running_rules (env : Env) (gm : Matcher) (cfg : Cfg) (p : Params) (f : File) (n : Notice)
    (h : n ∈ fileNotices env gm cfg p f) :
    ∃ r ∈ rulesToRun gm cfg p f.name, r ∈ env.builtin ∧ n ∈ env.notices r f := by
  unfold fileNotices noticesOf at h
  simp only [List.mem_flatMap] at h
  obtain ⟨r, hr, hn⟩ := h
  split at hn
  · rename_i hb; exact ⟨r, hr, hb, hn⟩
  · cases hn

/-- **skipped_count_spec**: `rules_skipped` is the number of *distinct* notices with severity ≠ none. -/
theorem skipped_count_spec (env : Env) (gm : Matcher) (cfg : Cfg) (p : Params) (o : LintOpts) (n : Nat)
    (rr : RegoReport) :
    (finish env gm cfg p o n rr).summary.rulesSkipped =
      ((dedup rr.notices).filter fun x => x.severity ≠ "none").length ∧
    (finish env gm cfg p o n rr).notices = dedup rr.notices ∧ (dedup rr.notices).Nodup ∧
    ∀ x, x ∈ dedup rr.notices ↔ x ∈ rr.notices :=
  ⟨rfl, rfl, dedup_nodup _, dedup_mem _⟩

theorem foldl_dedup_absorb {α} [DecidableEq α] (b acc : List α) (h : ∀ n ∈ b, n ∈ acc) :
    b.foldl (fun acc n => if n ∈ acc then acc else acc ++ [n]) acc = acc := by
  induction b generalizing acc with
  | nil => rfl
  | cons x b ih =>
    simp only [List.foldl_cons, h x (by simp), if_true]
    exact ih acc fun n hn => h n (by simp [hn])

theorem dedup_append_absorb {α} [DecidableEq α] (a b : List α) (h : ∀ n ∈ b, n ∈ a) :
    dedup (a ++ b) = dedup a := by
  unfold dedup
  rw [List.foldl_append]
  exact foldl_dedup_absorb b _ fun n hn => (dedup_mem a n).2 (h n hn)

/-- **skipped_independent_of_files**: when every file yields the same notices `N` (the gating
conditions depend on the capabilities only), linting one file or many gives the same notices and the
same skipped count. -/
theorem skipped_independent_of_files (N : List Notice) (frs : List FileResult) (hne : frs ≠ [])
    (h : ∀ fr ∈ frs, fr.notices = N) :
    dedupNotices (mergeAll frs).notices = dedupNotices N := by
  rw [mergeAll_notices]
  unfold dedupNotices
  induction frs with
  | nil => exact absurd rfl hne
  | cons fr frs ih =>
    simp only [List.flatMap_cons, h fr (by simp)]
    apply dedup_append_absorb
    intro n hn
    simp only [List.mem_flatMap] at hn
    obtain ⟨fr', hfr', hn'⟩ := hn
    rw [h fr' (by simp [hfr'])] at hn'
    exact hn'

/-- recorded gap (holds today because no gated rule aggregates): `aggregate` — unlike `report` — is
not guarded by notices in main.rego; the model shows a gated rule's aggregate entries are collected. -/
theorem aggregate_not_guarded_by_notices :
    let env : Env := { builtin := [("c", "t")], custom := [], report := fun _ _ => [],
                       notices := fun _ _ => [{ category := "c", title := "t", severity := "warning" }],
                       hasAggregate := fun _ => true, aggregate := fun _ f => [{ src := f.name, data := "x" }],
                       aggReport := fun _ _ => [], directives := fun _ => [] }
    let cfg : Cfg := { rules := [(("c", "t"), { level := some "error" })] }
    (fileAggregates env (fun _ _ => false) cfg {} { name := "a".toList }) ≠ [] := by decide

end RegalModel.Kernel

namespace RegalModel.Caps

/-- **caps_plus_minus**: target built-ins = (from ∖ minus) ∪ plus. -/
theorem caps_plus_minus (base : Caps) (minus plus : List String) (b : String) :
    b ∈ (resolve base minus plus).builtins ↔ (b ∈ base.builtins ∧ b ∉ minus) ∨ b ∈ plus := by
  simp [resolve]

theorem resolve_keeps_keywords (base : Caps) (minus plus : List String) :
    (resolve base minus plus).futureKeywords = base.futureKeywords ∧
    (resolve base minus plus).features = base.features := ⟨rfl, rfl⟩

/-- the two notices of `use-if` / `use-contains`-style gates cannot both hold: a rule gated on
`has_if` is skipped exactly when none of the three sources provides `if`. -/
theorem hasIf_spec (c : Caps) :
    hasIf c = false ↔ "if" ∉ c.futureKeywords ∧ "rego_v1_import" ∉ c.features ∧ "rego_v1" ∉ c.features := by
  simp [hasIf, hasRegoV1Feature, isOpaV1, and_assoc]

/-- **keyword_gates_need_the_keyword**: a rule advising the `if` keyword is in `mustSkip` exactly when the target
provides `if` through none of: future keyword `if`, feature `rego_v1_import`, feature `rego_v1` — in particular a
target that has the keyword `in` but not `if` (OPA v0.34–v0.41) must skip them. For all capability sets. -/
theorem keyword_gates_need_the_keyword (c : Caps) (r : String × String)
    (hr : r ∈ [("bugs", "if-object-literal"), ("bugs", "if-empty-object"), ("custom", "one-liner-rule"), ("idiomatic", "use-if")]) :
    r ∈ mustSkip c ↔ ("if" ∉ c.futureKeywords ∧ "rego_v1_import" ∉ c.features ∧ "rego_v1" ∉ c.features) := by
  rw [← hasIf_spec]
  simp only [List.mem_cons, List.not_mem_nil, or_false] at hr
  rcases hr with rfl | rfl | rfl | rfl <;>
    cases h : hasIf c <;> simp [mustSkip, gatingTable, h]

example : ("idiomatic", "use-if") ∈ mustSkip { builtins := [], futureKeywords := ["in", "every"], features := [] } := by decide

/-- removing a built-in with `capabilities.minus` puts exactly the rules that need it into `mustSkip` -/
theorem minus_strings_count_skips (base : Caps) (plus : List String) (h : "strings.count" ∉ plus) :
    ("idiomatic", "use-strings-count") ∈ mustSkip (resolve base ["strings.count"] plus) := by
  have : hasStringsCount (resolve base ["strings.count"] plus) = false := by
    simp [hasStringsCount, hasBuiltin, resolve, h]
  simp [mustSkip, gatingTable, this]

example : hasStringsCount (resolve { builtins := ["strings.count", "count"], futureKeywords := [], features := [] }
    ["strings.count"] []) = false := by decide

end RegalModel.Caps
