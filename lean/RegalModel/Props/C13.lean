import RegalModel.Model.FileProvider
import RegalModel.Model.Cleanup
/-!
# C13 — Fixing conserves files: nothing lost or overwritten, conflicts honoured
-/
namespace RegalModel.FileProvider
open List

/-- well-formedness of a provider: distinct paths -/
def PathsNodup (p : Provider) : Prop := (p.files.map (·.path)).Nodup

theorem has_iff (p : Provider) (f : String) : p.has f = true ↔ f ∈ p.files.map (·.path) := by
  simp [Provider.has, List.any_eq_true]

/-- **rename_no_overwrite**: `Rename` onto an existing path fails and changes nothing. -/
theorem rename_no_overwrite (p : Provider) (s d : String) (h : p.has d = true) :
    p.rename s d = none ∧ step p (.rename s d) = p := by
  have : p.rename s d = none := by
    unfold Provider.rename
    cases p.get s <;> simp [h]
  exact ⟨this, by simp [step, this]⟩

theorem get_some_mem (p : Provider) (f : String) (e : Entry) (h : p.get f = some e) : e ∈ p.files ∧ e.path = f := by
  unfold Provider.get at h
  exact ⟨List.mem_of_find?_eq_some h, by simpa using List.find?_some h⟩

theorem filter_ne_perm_of_nodup (l : List Entry) (hn : (l.map (·.path)).Nodup) (e : Entry) (he : e ∈ l) :
    l ~ e :: l.filter (·.path ≠ e.path) := by
  induction l with
  | nil => cases he
  | cons x l ih =>
    simp only [List.map_cons, List.nodup_cons] at hn
    simp only [List.mem_cons] at he
    rcases he with rfl | he
    · have : l.filter (fun a => decide (a.path ≠ e.path)) = l := by
        rw [List.filter_eq_self]
        intro a ha
        have : a.path ≠ e.path := fun h => hn.1 (by rw [← h]; exact List.mem_map_of_mem ha)
        simp [this]
      have h1 : (e :: l).filter (fun a => decide (a.path ≠ e.path)) = l := by
        rw [List.filter_cons]
        simp only [ne_eq, not_true_eq_false, decide_false, Bool.false_eq_true, if_false]
        exact this
      rw [h1]
    · have hx : x.path ≠ e.path := fun h => hn.1 (by rw [h]; exact List.mem_map_of_mem he)
      simp only [List.filter_cons, hx, ne_eq, not_false_eq_true, decide_true, if_true]
      exact ((ih hn.2 he).cons x).trans (Perm.swap e x _)

/-- **origins_preserved** (one step): every operation the fixer can issue keeps the bag of origins —
each original file is still represented exactly once — and keeps paths distinct. -/
theorem step_preserves (p : Provider) (op : Op) (hn : PathsNodup p) :
    (step p op).files.map (·.origin) ~ p.files.map (·.origin) ∧ PathsNodup (step p op) := by
  cases op with
  | put f c =>
    by_cases hh : p.has f = true
    · have hs : step p (.put f c) = p.putContent f c := by simp [step, hh]
      rw [hs]
      have e1 : (p.putContent f c).files.map (·.origin) = p.files.map (·.origin) := by
        show (p.files.map fun e => if e.path = f then { e with content := c } else e).map (·.origin) = _
        rw [List.map_map]
        apply List.map_congr_left; intro e _; simp only [Function.comp]; split <;> rfl
      have e2 : (p.putContent f c).files.map (·.path) = p.files.map (·.path) := by
        show (p.files.map fun e => if e.path = f then { e with content := c } else e).map (·.path) = _
        rw [List.map_map]
        apply List.map_congr_left; intro e _; simp only [Function.comp]; split <;> rfl
      exact ⟨Perm.of_eq e1, by unfold PathsNodup; rw [e2]; exact hn⟩
    · have hs : step p (.put f c) = p := by simp [step, hh]
      rw [hs]; exact ⟨Perm.refl _, hn⟩
  | rename s d =>
    cases hr : p.rename s d with
    | none =>
      have hs : step p (.rename s d) = p := by simp [step, hr]
      rw [hs]; exact ⟨Perm.refl _, hn⟩
    | some q =>
      have hs : step p (.rename s d) = q := by simp [step, hr]
      rw [hs]
      unfold Provider.rename at hr
      cases hg : p.get s with
      | none => simp [hg] at hr
      | some e =>
        simp only [hg] at hr
        split at hr
        · cases hr
        · rename_i hd
          simp only [Option.some.injEq] at hr
          subst hr
          obtain ⟨hem, hep⟩ := get_some_mem p s e hg
          have hdn : d ∉ p.files.map (·.path) := fun h => hd ((has_iff p d).2 h)
          have hsd : ¬ d = s := fun h => hdn (by rw [h, ← hep]; exact List.mem_map_of_mem hem)
          have hfiles : (Provider.delete { p with files := p.files ++ [{ e with path := d }],
                                                  modified := addSet p.modified d } s).files =
              p.files.filter (fun x : Entry => decide (x.path ≠ s)) ++ [{ e with path := d }] := by
            show (p.files ++ [{ e with path := d }]).filter (fun x : Entry => decide (x.path ≠ s)) = _
            rw [List.filter_append]
            congr 1
            simp [hsd]
          have hperm := filter_ne_perm_of_nodup p.files hn e hem
          rw [hep] at hperm
          unfold PathsNodup
          rw [hfiles]
          simp only [List.map_append, List.map_cons, List.map_nil]
          constructor
          · have h1 : (p.files.filter (fun x : Entry => decide (x.path ≠ s))).map Entry.origin ++ [e.origin] ~
                e.origin :: (p.files.filter (fun x : Entry => decide (x.path ≠ s))).map Entry.origin := perm_append_singleton _ _
            have h2 : e.origin :: (p.files.filter (fun x : Entry => decide (x.path ≠ s))).map Entry.origin ~
                p.files.map Entry.origin := by simpa using (hperm.map Entry.origin).symm
            exact h1.trans h2
          · rw [List.nodup_append]
            refine ⟨(hn.sublist ((List.filter_sublist).map _)), by simp, ?_⟩
            intro a ha b hb
            simp only [List.mem_singleton] at hb
            subst hb
            intro hab
            apply hdn
            rw [← hab]
            exact (List.filter_sublist.map _).subset ha

/-- **contents_bijection**: after *any* sequence of fixes and moves, the files of the provider
correspond one-to-one to the original files (bag of origins unchanged, paths distinct). -/
theorem contents_bijection (init : List (String × String)) (hn : (init.map (·.1)).Nodup) (ops : List Op) :
    (ops.foldl step (load init)).files.map (·.origin) ~ init.map (·.1) ∧
    PathsNodup (ops.foldl step (load init)) := by
  have base : (load init).files.map (·.origin) ~ init.map (·.1) ∧ PathsNodup (load init) := by
    unfold load PathsNodup
    simp only [List.map_map]
    exact ⟨Perm.of_eq (List.map_congr_left fun x _ => rfl), by
      have : (init.map ((·.path) ∘ fun x : String × String => ({ path := x.1, origin := x.1, content := x.2 } : Entry))) = init.map (·.1) :=
        List.map_congr_left fun x _ => rfl
      rw [this]; exact hn⟩
  suffices ∀ (p : Provider), ((p.files.map (·.origin)) ~ init.map (·.1) ∧ PathsNodup p) →
      ((ops.foldl step p).files.map (·.origin) ~ init.map (·.1) ∧ PathsNodup (ops.foldl step p)) from this _ base
  induction ops with
  | nil => intro p h; exact h
  | cons op ops ih =>
    intro p h
    simp only [List.foldl_cons]
    apply ih
    have := step_preserves p op h.2
    exact ⟨this.1.trans h.1, this.2⟩

/-! ### renameCandidate -/

theorem iter_counter (n : Name) (k : Nat) (hk : k > 0) :
    (iter n k).counter = some ((match n.counter with | none => 0 | some c => c) + k) ∧
    (iter n k).dir = n.dir ∧ (iter n k).stem = n.stem ∧ (iter n k).test = n.test ∧ (iter n k).ext = n.ext := by
  induction k with
  | zero => omega
  | succ k ih =>
    by_cases h0 : k = 0
    · subst h0
      simp only [iter, candidate]
      cases n.counter <;> simp
    · have := ih (by omega)
      simp only [iter, candidate, this.1]
      refine ⟨by simp; omega, this.2⟩

/-- **rename_candidate_injective_iter**: successive candidates are pairwise different names. -/
theorem rename_candidate_injective_iter (n : Name) (j k : Nat) (hj : 0 < j) (hjk : j < k) :
    iter n j ≠ iter n k := by
  intro h
  have h1 := (iter_counter n j hj).1
  have h2 := (iter_counter n k (by omega)).1
  rw [h] at h1
  rw [h1] at h2
  simp only [Option.some.injEq] at h2
  omega

/-- **handleRename_terminates_fresh**: with `--on-conflict=rename`, among the first `|taken| + 1`
candidates there is one that no existing file has — the loop ends, with a name that is not taken. -/
theorem handleRename_terminates_fresh (n : Name) (taken : List Name) :
    ∃ k, 0 < k ∧ k ≤ taken.length + 1 ∧ iter n k ∉ taken := by
  apply Classical.byContradiction
  intro hne
  have h : ∀ k, 0 < k → k ≤ taken.length + 1 → iter n k ∈ taken := fun k hk0 hk1 =>
    Classical.byContradiction fun hnot => hne ⟨k, hk0, hk1, hnot⟩
  have hnd : ((List.range (taken.length + 1)).map fun i => iter n (i + 1)).Nodup := by
    rw [List.nodup_iff_pairwise_ne]
    exact List.pairwise_lt_range.map (fun i => iter n (i + 1))
      (fun a b hab => rename_candidate_injective_iter n (a + 1) (b + 1) (by omega) (by omega))
  have hsub : ((List.range (taken.length + 1)).map fun i => iter n (i + 1)) ⊆ taken := by
    intro x hx
    simp only [List.mem_map, List.mem_range] at hx
    obtain ⟨i, hi, rfl⟩ := hx
    exact h (i + 1) (by omega) (by omega)
  have := hnd.length_le_of_subset hsub
  simp only [List.length_map, List.length_range] at this
  omega

/-! ### roots -/

theorem closestRoot_fold (l : List (List String)) (best : Option (List String)) (path : List String)
    (hl : ∀ r ∈ l, r <+: path) (hb : ∀ b, best = some b → b <+: path) :
    ∀ r, l.foldl (fun best r => match best with
        | none => some r
        | some b => if r.length > b.length then some r else some b) best = some r → r <+: path := by
  induction l generalizing best with
  | nil => intro r h; exact hb r h
  | cons x l ih =>
    intro r h
    simp only [List.foldl_cons] at h
    refine ih _ (fun r hr => hl r (by simp [hr])) ?_ r h
    intro b hbb
    cases best with
    | none => simp only [Option.some.injEq] at hbb; subst hbb; exact hl x (by simp)
    | some b0 =>
      simp only at hbb
      split at hbb
      · simp only [Option.some.injEq] at hbb; subst hbb; exact hl x (by simp)
      · simp only [Option.some.injEq] at hbb; subst hbb; exact hb b0 rfl

/-- **closest_root_is_ancestor**: the project root a file is moved relative to is an ancestor-or-self
of the file by whole path components — a sibling directory sharing a name prefix is never chosen. -/
theorem closest_root_is_ancestor (roots : List (List String)) (path r : List String)
    (h : closestRoot roots path = some r) : r <+: path ∧ r ∈ roots := by
  unfold closestRoot at h
  split at h
  · simp only [Option.some.injEq] at h; subst h; exact ⟨List.prefix_refl _, by assumption⟩
  · have hl : ∀ x ∈ roots.filter (fun r => r.isPrefixOf path && decide (r.length < path.length)), x <+: path := by
      intro x hx
      simp only [List.mem_filter, Bool.and_eq_true, List.isPrefixOf_iff_prefix] at hx
      exact hx.2.1
    refine ⟨closestRoot_fold _ none path hl (by simp) r h, ?_⟩
    -- the result is one of the filtered roots
    have hmem : ∀ (l : List (List String)) (best : Option (List String)) (r : List String),
        l.foldl (fun best r => match best with
          | none => some r
          | some b => if r.length > b.length then some r else some b) best = some r → r ∈ l ∨ best = some r := by
      intro l
      induction l with
      | nil => intro best r h; exact Or.inr h
      | cons x l ih =>
        intro best r h
        simp only [List.foldl_cons] at h
        rcases ih _ r h with h1 | h1
        · exact Or.inl (by simp [h1])
        · cases best with
          | none => simp only [Option.some.injEq] at h1; subst h1; exact Or.inl (by simp)
          | some b0 =>
            simp only at h1
            split at h1
            · simp only [Option.some.injEq] at h1; subst h1; exact Or.inl (by simp)
            · exact Or.inr h1
    rcases hmem _ none r h with h1 | h1
    · exact (List.mem_filter.1 h1).1
    · cases h1

example : closestRoot [["w"], ["w", "foo"]] ["w", "foobar", "x.rego"] = some ["w"] := by decide
example : closestRoot [["w"], ["w", "foo"]] ["w", "foo", "x.rego"] = some ["w", "foo"] := by decide

/-! ### write-out -/

theorem find_filter_ne (d : Disk) (f g : String) (h : ¬ g = f) :
    (d.filter (fun x => decide (x.1 ≠ f))).find? (fun x => decide (x.1 = g)) = d.find? (fun x => decide (x.1 = g)) := by
  induction d with
  | nil => rfl
  | cons x d ih =>
    by_cases hx : x.1 = f
    · have hxg : ¬ x.1 = g := fun e => h (by rw [← e, hx])
      have e1 : (x :: d).filter (fun x => decide (x.1 ≠ f)) = d.filter (fun x => decide (x.1 ≠ f)) := by
        rw [List.filter_cons]; simp [hx]
      have e2 : (x :: d).find? (fun x => decide (x.1 = g)) = d.find? (fun x => decide (x.1 = g)) := by
        rw [List.find?_cons]; simp [hxg]
      rw [e1, e2, ih]
    · have e1 : (x :: d).filter (fun x => decide (x.1 ≠ f)) = x :: d.filter (fun x => decide (x.1 ≠ f)) := by
        rw [List.filter_cons]; simp [hx]
      rw [e1, List.find?_cons, List.find?_cons, ih]

theorem diskGet_remove (d : Disk) (f g : String) :
    diskGet (diskRemove d f) g = if g = f then none else diskGet d g := by
  unfold diskGet diskRemove
  by_cases h : g = f
  · subst h
    simp only [if_true, Option.map_eq_none_iff, List.find?_eq_none]
    intro x hx
    simp only [List.mem_filter, decide_eq_true_eq] at hx
    simp [hx.2]
  · simp only [h, if_false]
    rw [find_filter_ne d f g h]

theorem diskGet_write (d : Disk) (f c g : String) :
    diskGet (diskWrite d f c) g = if g = f then some c else diskGet d g := by
  unfold diskWrite
  have hr := diskGet_remove d f g
  unfold diskGet at hr ⊢
  rw [List.find?_append]
  by_cases h : g = f
  · subst h
    simp only [if_true] at hr ⊢
    rw [Option.map_eq_none_iff] at hr
    simp [hr]
  · simp only [h, if_false] at hr ⊢
    have hf : ¬ f = g := fun e => h e.symm
    cases hx : (diskRemove d f).find? (fun x => decide (x.1 = g)) with
    | none => rw [hx] at hr; simp [hf, ← hr]
    | some y => rw [hx] at hr; simp [← hr]

/-- **writeout_untouched**: a path that is neither deleted nor modified keeps its bytes — in
particular every file that is not among the files to fix (the command refuses beforehand when a
modified path collides with such a file). -/
theorem writeout_untouched (p : Provider) (d : Disk) (g : String) (hm : g ∉ p.modified) (hd : g ∉ p.deleted) :
    diskGet (writeOut p d) g = diskGet d g := by
  unfold writeOut
  have h1 : ∀ (l : List String) (d : Disk), g ∉ l → diskGet (l.foldl diskRemove d) g = diskGet d g := by
    intro l
    induction l with
    | nil => intros; rfl
    | cons x l ih =>
      intro d hn
      simp only [List.mem_cons, not_or] at hn
      simp only [List.foldl_cons]
      rw [ih _ hn.2, diskGet_remove]
      simp [hn.1]
  have h2 : ∀ (l : List String) (d : Disk), g ∉ l →
      diskGet (l.foldl (writeStep p) d) g = diskGet d g := by
    intro l
    induction l with
    | nil => intros; rfl
    | cons x l ih =>
      intro d hn
      simp only [List.mem_cons, not_or] at hn
      simp only [List.foldl_cons]
      rw [ih _ hn.2]
      unfold writeStep
      cases p.get x with
      | none => rfl
      | some e => simp only; rw [diskGet_write]; simp [hn.1]
  rw [h2 _ _ hm, h1 _ _ hd]

/-- **writeout_written**: every modified path ends up with exactly the provider's content
(deletes happen before writes, so a path that was vacated and re-occupied is written, not lost). -/
theorem writeout_written (p : Provider) (d : Disk) (g : String) (e : Entry) (hm : g ∈ p.modified)
    (hmn : p.modified.Nodup) (hg : p.get g = some e) :
    diskGet (writeOut p d) g = some e.content := by
  unfold writeOut
  generalize p.deleted.foldl diskRemove d = d0
  have : ∀ (l : List String) (d : Disk), l.Nodup → g ∈ l →
      diskGet (l.foldl (writeStep p) d) g = some e.content := by
    intro l
    induction l with
    | nil => intro d _ h; cases h
    | cons x l ih =>
      intro d hn hmem
      simp only [List.nodup_cons] at hn
      simp only [List.mem_cons] at hmem
      simp only [List.foldl_cons]
      rcases hmem with rfl | hmem
      · -- written now, never touched again
        have h2 : ∀ (l : List String) (d : Disk), g ∉ l →
            diskGet (l.foldl (writeStep p) d) g = diskGet d g := by
          intro l
          induction l with
          | nil => intros; rfl
          | cons y l ih2 =>
            intro d hn2
            simp only [List.mem_cons, not_or] at hn2
            simp only [List.foldl_cons]
            rw [ih2 _ hn2.2]
            unfold writeStep
            cases p.get y with
            | none => rfl
            | some e' => simp only; rw [diskGet_write]; simp [hn2.1]
        rw [h2 _ _ hn.1]
        unfold writeStep
        rw [hg]
        simp [diskGet_write]
      · exact ih _ hn.2 hmem
  exact this _ _ hmn hm

end RegalModel.FileProvider

namespace RegalModel.Cleanup
open List

/-- **cleanup_entries**: every entry of a directory that `DirCleanUpPaths` returns is the moved file itself or a
directory returned before it — so removing the file and then the directories in the returned order never removes a
directory that still contains anything else ("emptied directories are removed only if really empty"). For every
file system, target and preserve list. -/
theorem cleanLoop_entries (fs : FS) (target : Path) (pres : List Path) :
    ∀ fuel dir last, ∀ d ∈ cleanLoop fs target pres fuel dir last, ∀ e ∈ entries fs d,
      e = target ∨ some e = last ∨ e ∈ cleanLoop fs target pres fuel dir last := by
  intro fuel
  induction fuel with
  | zero => intro dir last d hd; simp [cleanLoop] at hd
  | succ f ih =>
    intro dir last d hd e he
    unfold cleanLoop at hd ⊢
    split at hd
    · cases hd
    · split at hd
      · rename_i hp hall
        simp only [hp, hall, if_true, Bool.false_eq_true, if_false]
        simp only [List.mem_cons] at hd
        rcases hd with rfl | hd
        · have := (List.all_eq_true.1 hall) e he
          simp only [Bool.or_eq_true, beq_iff_eq] at this
          rcases this with h | h
          · exact Or.inl h
          · exact Or.inr (Or.inl h)
        · rcases ih (parent dir) (some dir) d hd e he with h | h | h
          · exact Or.inl h
          · right; right
            simp only [Option.some.injEq] at h
            rw [h]; exact List.mem_cons_self
          · right; right; exact List.mem_cons_of_mem _ h
      · cases hd

theorem cleanup_entries (fs : FS) (target : Path) (preserve : List Path) :
    ∀ d ∈ dirCleanUpPaths fs target preserve, ∀ e ∈ entries fs d, e = target ∨ e ∈ dirCleanUpPaths fs target preserve := by
  intro d hd e he
  rcases cleanLoop_entries fs target (preserveDirs preserve) _ _ none d hd e he with h | h | h
  · exact Or.inl h
  · cases h
  · exact Or.inr h

/-- **cleanup_never_preserved**: no returned directory is a preserved one (a project root or an ancestor of one) -/
theorem cleanLoop_not_preserved (fs : FS) (target : Path) (pres : List Path) :
    ∀ fuel dir last, ∀ d ∈ cleanLoop fs target pres fuel dir last, pres.contains d = false := by
  intro fuel
  induction fuel with
  | zero => intro dir last d hd; simp [cleanLoop] at hd
  | succ f ih =>
    intro dir last d hd
    unfold cleanLoop at hd
    split at hd
    · cases hd
    · rename_i hp
      split at hd
      · simp only [List.mem_cons] at hd
        rcases hd with rfl | hd
        · simpa using hp
        · exact ih _ _ d hd
      · cases hd

theorem mem_ancestors (p q : Path) : q ∈ ancestors p ↔ q ≠ [] ∧ q <+: p := by
  unfold ancestors
  simp only [List.mem_map, List.mem_range]
  constructor
  · rintro ⟨i, hi, rfl⟩
    refine ⟨?_, List.take_prefix _ _⟩
    intro h
    have := congrArg List.length h
    simp only [List.length_take, List.length_nil] at this
    omega
  · rintro ⟨hne, t, rfl⟩
    refine ⟨t.length, ?_, ?_⟩
    · have : q.length ≠ 0 := fun h => hne (List.length_eq_zero_iff.1 h)
      simp only [List.length_append]; omega
    · simp only [List.length_append, Nat.add_sub_cancel]
      simp

/-- a returned directory is never a project root nor an ancestor of one (the root directory `/` aside, which the Go
code does not put into the preserve set) -/
theorem cleanup_never_preserved (fs : FS) (target : Path) (preserve : List Path) (r : Path) (hr : r ∈ preserve) :
    ∀ d ∈ dirCleanUpPaths fs target preserve, d ≠ [] → ¬ d <+: r := by
  intro d hd hne hpre
  have h1 := cleanLoop_not_preserved fs target (preserveDirs preserve) _ _ none d hd
  have h2 : d ∈ preserveDirs preserve := by
    unfold preserveDirs
    rw [List.mem_flatMap]
    exact ⟨r, hr, (mem_ancestors r d).2 ⟨hne, hpre⟩⟩
  have : (preserveDirs preserve).contains d = true := by simpa using h2
  rw [this] at h1; cases h1

/-- **cleanup_chain**: the returned directories are the successive parents of the target, deepest first -/
theorem cleanLoop_chain (fs : FS) (target : Path) (pres : List Path) :
    ∀ fuel dir last i, ∀ d, (cleanLoop fs target pres fuel dir last)[i]? = some d → d = dir.take (dir.length - i) := by
  intro fuel
  induction fuel with
  | zero => intro dir last i d h; simp [cleanLoop] at h
  | succ f ih =>
    intro dir last i d h
    unfold cleanLoop at h
    split at h
    · simp at h
    · split at h
      · cases i with
        | zero => simp at h; subst h; simp
        | succ i =>
          simp only [List.getElem?_cons_succ] at h
          have := ih (parent dir) (some dir) i d h
          rw [this]
          unfold parent
          rw [List.dropLast_eq_take, List.take_take, List.length_take]
          congr 1
          omega
      · simp at h

/-! non-vacuity: a/b/t.rego is moved away; a/b is emptied, a still holds a/x.rego, root a/ preserved anyway -/
example : dirCleanUpPaths { files := [["w", "a", "b", "t.rego"], ["w", "e", "x.rego"]], dirs := [] } ["w", "a", "b", "t.rego"] [["w", "e"]] =
    [["w", "a", "b"], ["w", "a"]] := by decide

end RegalModel.Cleanup
