import RegalModel.Model.TextFix
/-!
# C11 — Automatic fixes never change what a policy means (text-fix level)

What is proved: each text fix changes exactly the addressed line, only when the guard character is at
the addressed column, and by exactly the documented edit.  That the column *is* the operator / comment /
literal is the rule's (Env side) business; the repaired rules are sampled end to end.
-/
namespace RegalModel.TextFix
open List

/-- **useAssign_local**: the only possible change is one ':' inserted directly before an '=' that
really is at the reported column. -/
theorem useAssign_spec (line l' : Line) (col : Nat) (h : useAssign line col = some l') :
    line[col - 1]? = some '=' ∧ l' = line.take (col - 1) ++ ':' :: line.drop (col - 1) ∧
    l'.length = line.length + 1 ∧ l'.eraseIdx (col - 1) = line := by
  unfold useAssign at h
  split at h
  · rename_i hc
    simp only [Option.some.injEq] at h
    subst h
    refine ⟨hc.2.2, rfl, ?_, ?_⟩
    · simp only [List.length_append, List.length_take, List.length_cons, List.length_drop]; omega
    · have hlen : (line.take (col - 1)).length = col - 1 := by simp; omega
      rw [List.eraseIdx_append_of_length_le (by omega)]
      simp [hlen]
  · cases h

theorem useAssign_guard (line : Line) (col : Nat) (h : line[col - 1]? ≠ some '=') : useAssign line col = none := by
  simp [useAssign, h]

/-- **noWs_local** -/
theorem noWs_spec (line l' : Line) (col : Nat) (h : noWs line col = some l') :
    line[col - 1]? = some '#' ∧ l' = line.take col ++ ' ' :: line.drop col ∧ l'.eraseIdx col = line := by
  unfold noWs at h
  split at h
  · rename_i hc
    simp only [Option.some.injEq] at h
    subst h
    refine ⟨hc.2.2, rfl, ?_⟩
    have hlen : (line.take col).length = col := by simp; omega
    rw [List.eraseIdx_append_of_length_le (by omega)]
    simp [hlen]
  · cases h

/-- **noWs_progress**: after the fix the comment starts with whitespace, whatever followed the '#'. -/
theorem noWs_progress (text : Line) : whitespaceComment (' ' :: text) = true := by
  simp [whitespaceComment, List.dropWhile]

/-- **fix_local**: a fix at (row, col) leaves every other line and the number of lines unchanged. -/
theorem fixAt_local (f : Line → Nat → Option Line) (lines lines' : List Line) (row col : Nat)
    (h : fixAt f lines row col = some lines') :
    lines'.length = lines.length ∧ ∀ i, i ≠ row - 1 → lines'[i]? = lines[i]? := by
  unfold fixAt at h
  split at h
  · cases h
  · cases hl : lines[row - 1]? with
    | none => simp [hl] at h
    | some l =>
      simp only [hl, Option.map_eq_some_iff] at h
      obtain ⟨l', _, rfl⟩ := h
      refine ⟨by simp, fun i hi => ?_⟩
      rw [List.getElem?_set]
      simp [Ne.symm hi]

/-- a fix whose guard fails (wrong character at the column, column or row out of range) changes nothing -/
theorem fixAt_guard (f : Line → Nat → Option Line) (lines : List Line) (row col : Nat)
    (h : ∀ l, lines[row - 1]? = some l → f l col = none) : fixAt f lines row col = none := by
  unfold fixAt
  split
  · rfl
  · cases hl : lines[row - 1]? with
    | none => rfl
    | some l => simp [h l hl]

theorem collapse_interp (b : Bool) (content v : Line) (h : interpS b content = some v) : collapseS b content = v := by
  induction content generalizing b v with
  | nil =>
    cases b
    · simp [interpS] at h; subst h; rfl
    · simp [interpS] at h
  | cons c rest ih =>
    cases b
    · simp only [interpS] at h
      simp only [collapseS]
      split at h
      · rename_i hc; simp only [hc, if_true]; exact ih true v h
      · rename_i hc
        split at h
        · cases h
        · simp only [Option.map_eq_some_iff] at h
          obtain ⟨v', hv', rfl⟩ := h
          simp [hc, ih false v' hv']
    · simp only [interpS] at h
      simp only [collapseS]
      split at h
      · rename_i hc
        simp only [Option.map_eq_some_iff] at h
        obtain ⟨v', hv', rfl⟩ := h
        simp [hc, ih false v' hv']
      · cases h

/-- **nonRaw_pattern_preserved**: for a pattern whose only escape sequence is `\\\\` (the case the rule is
about: `"\\\\d+"`), the raw string written by the fix has exactly the value of the interpreted string. -/
theorem nonRaw_pattern_preserved (content v : Line) (h : interpSimple content = some v) : collapse content = v :=
  collapse_interp false content v h

/-- the closing quote found is a '"' at or after the scan start, inside the line (the repaired code
cannot panic on `line[endIdx]`) -/
theorem closingFrom_spec (b : Bool) (rest : Line) (i e : Nat) (h : closingFrom b rest i = some e) :
    i ≤ e ∧ rest[e - i]? = some '"' := by
  induction rest generalizing b i with
  | nil => cases b <;> simp [closingFrom] at h
  | cons c rest ih =>
    cases b
    · simp only [closingFrom] at h
      split at h
      · obtain ⟨h1, h2⟩ := ih true (i + 1) h
        refine ⟨by omega, ?_⟩
        have : e - i = (e - (i + 1)) + 1 := by omega
        rw [this]; simpa using h2
      · split at h
        · rename_i hq
          simp only [Option.some.injEq] at h; subst h
          simp [hq]
        · obtain ⟨h1, h2⟩ := ih false (i + 1) h
          refine ⟨by omega, ?_⟩
          have : e - i = (e - (i + 1)) + 1 := by omega
          rw [this]; simpa using h2
    · simp only [closingFrom] at h
      obtain ⟨h1, h2⟩ := ih false (i + 1) h
      refine ⟨by omega, ?_⟩
      have : e - i = (e - (i + 1)) + 1 := by omega
      rw [this]; simpa using h2

theorem closingQuote_spec (line : Line) (start e : Nat) (h : closingQuote line start = some e) :
    line[start]? = some '"' ∧ start < e ∧ line[e]? = some '"' := by
  unfold closingQuote at h
  split at h
  · rename_i hs
    obtain ⟨h1, h2⟩ := closingFrom_spec false _ _ e h
    refine ⟨hs, by omega, ?_⟩
    rw [List.getElem?_drop] at h2
    have : start + 1 + (e - (start + 1)) = e := by omega
    rw [this] at h2; exact h2
  · cases h

/-! non-vacuity and the replayed inputs -/
example : useAssign "f(\"=\") = 1".toList 8 = some "f(\"=\") := 1".toList := by decide
example : useAssign "f(\"=\") = 1".toList 4 = some "f(\":=\") = 1".toList := by decide   -- what the old column did
example : noWs "x := 1 #c".toList 8 = some "x := 1 # c".toList := by decide
example : nonRaw "m(\"é\\\\d+\", x)".toList 3 = some "m(`é\\d+`, x)".toList := by decide

end RegalModel.TextFix
