import RegalModel.Lemmas.Merge
import RegalModel.Model.Walk
import RegalModel.Props.C05
/-!
# C02 — No file is silently skipped; per-file verdicts compose
-/
namespace RegalModel.Walk

mutual
theorem skipped_empty (path : String) : ∀ n : Node,
    ((allFiles path true n).filter fun e => !e.2 && e.1.endsWith ".rego") = []
  | .file _ => by simp [allFiles]
  | .dir name children => by
    simp only [allFiles, Bool.true_or]
    exact skippedList_empty path children
theorem skippedList_empty (path : String) : ∀ l : List Node,
    ((allFilesList path true l).filter fun e => !e.2 && e.1.endsWith ".rego") = []
  | [] => by simp [allFilesList]
  | c :: cs => by
    simp only [allFilesList, List.filter_append, skipped_empty (join path c.name) c, skippedList_empty path cs,
      List.append_nil]
end

mutual
/-- **walk_spec**: for every tree (any size, any depth) the walk returns exactly the `.rego` files
that have no `.git` / `.idea` / `node_modules` directory between the argument and themselves, in
directory order — nothing else is skipped, nothing is added. -/
theorem walk_spec (path : String) : ∀ n : Node, walk path n = spec path n
  | .file name => by
    unfold spec
    by_cases h : path.endsWith ".rego" <;> simp [walk, allFiles, h]
  | .dir name children => by
    unfold spec
    by_cases h : skipName name
    · simp only [walk, h, if_true, allFiles, Bool.false_or]
      rw [skippedList_empty]; rfl
    · simp only [walk, h, allFiles, Bool.false_or]
      have := walkList_spec path children
      simpa using this
theorem walkList_spec (path : String) : ∀ l : List Node,
    walkList path l = ((allFilesList path false l).filter fun e => !e.2 && e.1.endsWith ".rego").map (·.1)
  | [] => by simp [walkList, allFilesList]
  | c :: cs => by
    simp only [walkList, allFilesList, List.filter_append, List.map_append]
    rw [walkList_spec path cs, walk_spec (join path c.name) c]
    rfl
end

/-- a missing path argument fails the whole discovery (no silent skip) -/
theorem missing_arg_fails (args : List (String × Option Node)) (a : String) (h : (a, none) ∈ args) :
    walkArgs args = none := by
  induction args with
  | nil => cases h
  | cons x rest ih =>
    obtain ⟨arg, n⟩ := x
    simp only [List.mem_cons, Prod.mk.injEq] at h
    cases n with
    | none => cases hr : walkArgs rest <;> simp [walkArgs, hr]
    | some n =>
      rcases h with ⟨_, h⟩ | h
      · cases h
      · simp [walkArgs, ih h]

end RegalModel.Walk

namespace RegalModel.Kernel
open List

/-- **summary_consistent**: the summary is computed from the final violation list. -/
theorem summary_consistent (env : Env) (gm : Matcher) (cfg : Cfg) (p : Params) (o : LintOpts) (n : Nat)
    (rr : RegoReport) :
    let r := finish env gm cfg p o n rr
    r.summary.numViolations = r.violations.length ∧
    r.summary.filesFailed = (dedup (r.violations.map (·.file))).length ∧
    r.summary.filesScanned = n := ⟨rfl, rfl, rfl⟩

/-- a file's own violations do not depend on the `collect` operation nor on any other file -/
theorem lintFile_violations (env : Env) (gm : Matcher) (cfg : Cfg) (p : Params) (c : Bool) (f : File) :
    (lintFile env gm cfg p c f).violations = fileViolations env gm cfg p f := rfl

/-- **per_file_compose**: in a run over any file list, the non-aggregate violations are exactly the
concatenation of what each file reports when linted alone (same configuration), in any completion
order; the aggregate violations are appended after them. -/
theorem per_file_compose (env : Env) (gm : Matcher) (cfg : Cfg) (p : Params) (o : LintOpts) (files : List File) :
    ∃ aggV, (lint env gm cfg p o files).violations =
      files.flatMap (fun f => fileViolations env gm cfg p f) ++ aggV := by
  have hv : (mergeAll (lintResults env gm cfg p o files)).violations =
      files.flatMap (fun f => fileViolations env gm cfg p f) := by
    simp only [mergeAll_violations, lintResults, List.flatMap_map, lintFile_violations]
  unfold lint lintOrdered finish
  simp only [hv]
  exact ⟨_, rfl⟩

/-- linting one file alone (no supplied aggregates) reports exactly that file's own violations -/
theorem single_file_run (env : Env) (gm : Matcher) (cfg : Cfg) (p : Params) (o : LintOpts) (f : File)
    (ho : o.overridden = []) :
    (lint env gm cfg p o [f]).violations = fileViolations env gm cfg p f := by
  unfold lint lintOrdered finish
  simp [mergeAll_violations, lintResults, lintFile_violations, ho]

/-- every input file is accounted for: `files_scanned` is the number of per-file evaluations merged -/
theorem scanned_eq (env : Env) (gm : Matcher) (cfg : Cfg) (p : Params) (o : LintOpts) (files : List File) :
    (lint env gm cfg p o files).summary.filesScanned = files.length ∧
    (lintResults env gm cfg p o files).length = files.length := by
  simp [lint, lintOrdered, finish, lintResults]

end RegalModel.Kernel
