import RegalModel.Props.C15
/-!
# C17 — The language server survives any message sequence (partial)

Proved here, on the pipeline model of `Model/Lsp.lean` and a decision model of the didSave guard:
no worker step is ever blocked (every queue has a consumer that can always run), the queues drain when the
client stops sending, and the CRLF branch of `textDocument/didSave` dereferences the configuration only when
there is one.  NOT proved: absence of panics and data races in the ~25 handlers over arbitrary documents —
explored by the message-sequence harness (evidence `assumption_sampling`).
-/
namespace RegalModel.Lsp

/-- a worker step is always enabled when its queue is not empty: nothing in the pipeline waits for the client -/
theorem worker_never_blocked (s : St) :
    (s.fileJobs ≠ [] → step true s .fileWorker ≠ s) ∧ (s.wsJobs > 0 → step true s .wsWorker ≠ s) := by
  constructor
  · intro h
    cases hj : s.fileJobs with
    | nil => exact absurd hj h
    | cons u rest =>
      intro he
      have : (step true s .fileWorker).fileJobs = rest := by simp [step, hj]
      rw [he, hj] at this
      exact absurd this (by simp)
  · intro h he
    have : (step true s .wsWorker).wsJobs = s.wsJobs - 1 := by
      simp only [step]; split <;> simp_all
    rw [he] at this
    omega

/-- the number of worker steps needed to drain the queues once the client is silent -/
def pending (s : St) : Nat := 2 * s.fileJobs.length + s.wsJobs

/-- **idle_reached**: each worker step strictly decreases `pending`; after at most `pending s` worker steps
the server is quiescent (and then, by `converges`, current). -/
theorem idle_reached (s : St) :
    (s.fileJobs ≠ [] → pending (step true s .fileWorker) < pending s) ∧
    (s.wsJobs > 0 → pending (step true s .wsWorker) < pending s) := by
  constructor
  · intro h
    cases hj : s.fileJobs with
    | nil => exact absurd hj h
    | cons u rest => simp [pending, step, hj]; omega
  · intro h
    have h1 : (step true s .wsWorker).wsJobs = s.wsJobs - 1 := by
      simp only [step]; split <;> simp_all
    have h2 : (step true s .wsWorker).fileJobs = s.fileJobs := by
      simp only [step]; split <;> simp_all
    simp only [pending, h1, h2]; omega

/-- decision model of `handleTextDocumentDidSave`: what the handler does with (text present?, config loaded?,
text contains CRLF?) — `derefConfig` is the `*cfg` dereference -/
structure SaveIn where
  hasText : Bool
  hasConfig : Bool
  crlf : Bool

def didSaveDerefs (fixed : Bool) (i : SaveIn) : Bool :=
  let guard := if fixed then i.hasConfig else !i.hasConfig      -- `!= nil` (repaired) / `== nil` (as it was)
  i.hasText && guard && i.crlf

/-- **didSave_guard_sound**: the repaired handler dereferences the configuration only when one is loaded. -/
theorem didSave_guard_sound (i : SaveIn) (h : didSaveDerefs true i = true) : i.hasConfig = true := by
  simp only [didSaveDerefs, if_true, Bool.and_eq_true] at h
  exact h.1.2

/-- the handler as it was: with no configuration loaded and CRLF text it dereferenced nil (SIGSEGV, replayed) -/
theorem didSave_nil_deref_witness :
    didSaveDerefs false { hasText := true, hasConfig := false, crlf := true } = true := by decide

end RegalModel.Lsp
