import RegalModel.Model.Report
/-!
# C10 — Exit code and every output format faithfully reflect the report
-/
namespace RegalModel.Report
open List

/-- **exit_code_spec**: 1 if linting failed; else 3 if any error-level violation; else 2 if the fail
level is `warning` and there is a warning; else 0 — for every report. -/
theorem exit_code_spec (fl : FailLevel) (levels : List String) (failed : Bool) :
    exitCode fl levels failed =
      if failed then 1
      else if "error" ∈ levels then 3
      else if fl = .warning ∧ "warning" ∈ levels then 2
      else 0 := by
  have hpos : ∀ (s : String), (levels.filter (· = s)).length > 0 ↔ s ∈ levels := by
    intro s
    show 0 < _ ↔ _
    rw [List.length_pos_iff_exists_mem]
    constructor
    · rintro ⟨a, ha⟩; simp only [List.mem_filter, decide_eq_true_eq] at ha; exact ha.2 ▸ ha.1
    · intro h; exact ⟨s, by simp [h]⟩
  unfold exitCode
  cases failed
  · simp only [Bool.false_eq_true, if_false, hpos]
    cases fl <;> by_cases he : "error" ∈ levels <;> by_cases hw : "warning" ∈ levels <;> simp [he, hw]
  · simp

/-- **exit_monotone**: adding a violation never lowers the exit code. -/
theorem exit_monotone (fl : FailLevel) (levels : List String) (l : String) :
    exitCode fl levels false ≤ exitCode fl (l :: levels) false := by
  rw [exit_code_spec, exit_code_spec]
  simp only [Bool.false_eq_true, if_false, List.mem_cons]
  by_cases he : "error" ∈ levels
  · simp [he]
  · by_cases hl : "error" = l
    · simp only [he, hl, if_false, true_or, if_true]
      by_cases hw : fl = .warning ∧ "warning" ∈ levels <;> simp [hw] <;> split <;> omega
    · simp only [he, hl, or_self, if_false, false_or]
      by_cases hw : fl = .warning ∧ "warning" ∈ levels
      · have : fl = .warning ∧ ("warning" = l ∨ "warning" ∈ levels) := ⟨hw.1, Or.inr hw.2⟩
        simp [hw, this]
      · simp only [hw, if_false]; split <;> omega

/-! ### every violation exactly once -/

theorem filter_disjoint_perm {α} (l : List α) (p q : α → Bool) (h : ∀ a, ¬ (p a = true ∧ q a = true)) :
    l.filter p ++ l.filter q ~ l.filter (fun a => p a || q a) := by
  induction l with
  | nil => simp
  | cons a l ih =>
    by_cases hp : p a = true
    · have hq : q a = false := by
        cases hqa : q a
        · rfl
        · exact absurd ⟨hp, hqa⟩ (h a)
      simp only [List.filter_cons, hp, hq, if_true, Bool.true_or, List.cons_append, Bool.false_eq_true, if_false]
      exact ih.cons a
    · have hp' : p a = false := by cases hpa : p a <;> simp_all
      by_cases hq : q a = true
      · simp only [List.filter_cons, hp', hq, Bool.false_eq_true, if_false, if_true, Bool.false_or]
        exact (perm_middle).trans (ih.cons a)
      · have hq' : q a = false := by cases hqa : q a <;> simp_all
        simp only [List.filter_cons, hp', hq', Bool.false_eq_true, if_false, Bool.or_self]
        exact ih

theorem group_by_nodup_keys (vs : List V) (fs : List String) (hn : fs.Nodup) :
    (fs.flatMap fun f => vs.filter (·.file = f)) ~ vs.filter (fun v => fs.contains v.file) := by
  induction fs with
  | nil => simp
  | cons f fs ih =>
    simp only [List.nodup_cons] at hn
    simp only [List.flatMap_cons]
    have h1 := (Perm.refl (vs.filter (·.file = f))).append (ih hn.2)
    refine h1.trans ?_
    have := filter_disjoint_perm vs (fun v => decide (v.file = f)) (fun v => fs.contains v.file) (by
      intro a ⟨h1, h2⟩
      simp only [decide_eq_true_eq] at h1
      simp only [List.contains_iff_mem] at h2
      exact hn.1 (h1 ▸ h2))
    refine this.trans ?_
    apply Perm.of_eq
    apply List.filter_congr
    intro v _
    simp only [List.contains_cons]
    by_cases hv : v.file = f
    · simp [hv]
    · have : (v.file == f) = false := by simp [hv]
      simp [hv, this]

theorem dedup_foldl_mem {α} [DecidableEq α] (ns acc : List α) (n : α) :
    n ∈ ns.foldl (fun acc n => if n ∈ acc then acc else acc ++ [n]) acc ↔ n ∈ acc ∨ n ∈ ns := by
  induction ns generalizing acc with
  | nil => simp
  | cons a ns ih =>
    simp only [List.foldl_cons, List.mem_cons]
    rw [ih]
    by_cases h : a ∈ acc
    · simp only [h, if_true]
      constructor
      · rintro (h1 | h1); exact Or.inl h1; exact Or.inr (Or.inr h1)
      · rintro (h1 | h1 | h1)
        · exact Or.inl h1
        · subst h1; exact Or.inl h
        · exact Or.inr h1
    · simp only [h, if_false, List.mem_append, List.mem_singleton]
      constructor
      · rintro ((h1 | h1) | h1)
        · exact Or.inl h1
        · exact Or.inr (Or.inl h1)
        · exact Or.inr (Or.inr h1)
      · rintro (h1 | h1 | h1)
        · exact Or.inl (Or.inl h1)
        · exact Or.inl (Or.inr h1)
        · exact Or.inr h1

theorem dedup_foldl_nodup {α} [DecidableEq α] (ns acc : List α) (h : acc.Nodup) :
    (ns.foldl (fun acc n => if n ∈ acc then acc else acc ++ [n]) acc).Nodup := by
  induction ns generalizing acc with
  | nil => simpa
  | cons a ns ih =>
    simp only [List.foldl_cons]
    apply ih
    by_cases h1 : a ∈ acc
    · simp [h1, h]
    · simp only [h1, if_false]
      rw [List.nodup_append]
      refine ⟨h, by simp, ?_⟩
      intro x hx y hy
      simp only [List.mem_singleton] at hy
      subst hy
      intro e; subst e; exact h1 hx

/-- **records_perm_junit**: the JUnit output presents every violation of the report exactly once
(as a permutation grouped by file), for every report and any sorting function. -/
theorem records_perm_junit (sortFn : List String → List String) (hs : ∀ l, sortFn l ~ l) (vs : List V) :
    recordsJUnit sortFn vs ~ vs := by
  unfold recordsJUnit
  have hn : (dedup (sortFn (vs.map (·.file)))).Nodup := by
    unfold dedup; exact dedup_foldl_nodup _ _ (by simp)
  refine (group_by_nodup_keys vs _ hn).trans ?_
  apply Perm.of_eq
  rw [List.filter_eq_self]
  intro v hv
  simp only [List.contains_iff_mem]
  unfold dedup
  rw [dedup_foldl_mem]
  right
  exact (hs _).mem_iff.2 (List.mem_map_of_mem hv)

theorem records_perm_linear (vs : List V) : recordsLinear vs ~ vs := Perm.refl _

/-- **junit_old_witness**: before the repair a file with two violations produced two suites of two
test cases (n² in general): every violation was presented n times. -/
theorem junit_old_witness :
    let v1 : V := { file := "a.rego", row := 1, col := 1, title := "r", level := "error" }
    let v2 : V := { file := "a.rego", row := 2, col := 1, title := "r", level := "error" }
    (recordsJUnitOld id [v1, v2]).length = 4 ∧ (recordsJUnit id [v1, v2]).length = 2 := by decide

end RegalModel.Report
