import RegalModel.Model.Version
/-!
# C20 — A file's Rego version comes from its nearest configured dir, however spelled
-/
namespace RegalModel.Version
open List

def Clean (cs : List Str) : Prop := ∀ c ∈ cs, c ≠ [] ∧ '/' ∉ c

/-- two slash-free words followed by '/' : prefix forces equality of the words -/
theorem word_prefix (a b x y : Str) (ha : '/' ∉ a) (hb : '/' ∉ b)
    (h : (a ++ '/' :: x) <+: (b ++ '/' :: y)) : a = b ∧ x <+: y := by
  induction a generalizing b with
  | nil =>
    cases b with
    | nil => simpa using h
    | cons c b =>
      simp only [List.nil_append, List.cons_append, List.cons_prefix_cons] at h
      exact absurd (by rw [← h.1]; simp) hb
  | cons c a ih =>
    cases b with
    | nil =>
      simp only [List.cons_append, List.nil_append, List.cons_prefix_cons] at h
      exact absurd (by rw [h.1]; simp) ha
    | cons d b =>
      simp only [List.cons_append, List.cons_prefix_cons] at h
      have := ih b (fun hm => ha (by simp [hm])) (fun hm => hb (by simp [hm])) h.2
      exact ⟨by rw [h.1, this.1], this.2⟩

theorem flat_prefix_iff (ks cs : List Str) (hk : Clean ks) (hc : Clean cs) :
    (ks.flatMap (· ++ ['/'])) <+: (cs.flatMap (· ++ ['/'])) ↔ ks <+: cs := by
  induction ks generalizing cs with
  | nil => simp
  | cons k ks ih =>
    cases cs with
    | nil =>
      simp only [List.flatMap_cons, List.flatMap_nil, List.prefix_nil, List.append_eq_nil_iff]
      constructor
      · rintro ⟨⟨_, h⟩, _⟩; cases h
      · intro h; cases h
    | cons c cs =>
      have hk1 := hk k (by simp)
      have hc1 := hc c (by simp)
      have hks : Clean ks := fun x hx => hk x (by simp [hx])
      have hcs : Clean cs := fun x hx => hc x (by simp [hx])
      simp only [List.flatMap_cons, List.append_assoc, List.singleton_append, List.cons_prefix_cons]
      constructor
      · intro h
        have := word_prefix k c _ _ hk1.2 hc1.2 h
        exact ⟨this.1, (ih cs hks hcs).1 this.2⟩
      · rintro ⟨rfl, h⟩
        exact (List.prefix_append_right_inj k).2 (by
          simp only [List.cons_prefix_cons, true_and]
          exact (ih cs hks hcs).2 h)

/-- **match_iff_component_prefix**: after the repair, a configured directory matches a file's
directory iff it is an ancestor-or-self *by path components* — a directory whose name merely starts
with a configured root's name (`foo` vs `foobar`) is unaffected. For all clean paths of any depth. -/
theorem match_iff_component_prefix (key dirc : List Str) (hk : Clean key) (hd : Clean dirc) :
    matchesKey key dirc = true ↔ key <+: dirc := by
  unfold matchesKey renderDir render
  rw [List.isPrefixOf_iff_prefix]
  by_cases h : dirc = []
  · subst h
    simp only [if_true, List.cons_prefix_cons, true_and, List.prefix_nil]
    cases key with
    | nil => simp
    | cons k ks =>
      have := (hk k (by simp)).1
      simp only [List.flatMap_cons, List.append_assoc, List.singleton_append, reduceCtorEq, iff_false]
      cases k with
      | nil => exact absurd rfl this
      | cons c k =>
        simp only [List.cons_append, List.cons_prefix_cons, List.prefix_nil, List.append_eq_nil_iff,
          reduceCtorEq, and_false, not_false_eq_true]
  · simp only [h, if_false, List.cons_prefix_cons, true_and]
    exact flat_prefix_iff key dirc hk hd

/-- **sibling_prefix_not_captured**: the concrete case of the property statement. (Before the repair
`path.Join` dropped the trailing "/" and `foo` captured `foobar`; replay in known-findings.json.) -/
theorem sibling_prefix_not_captured :
    matchesKey ["foo".toList] ["foobar".toList] = false ∧ matchesKey ["foo".toList] ["foo".toList, "x".toList] = true := by
  decide

/-- the project-wide entry (key "") matches every file, the root directory included -/
theorem root_matches_all (dirc : List Str) : matchesKey [] dirc = true := by
  unfold matchesKey renderDir render
  by_cases h : dirc = [] <;> simp [h, List.isPrefixOf]

theorem rawLen_mono (a b : List Str) (hb : Clean b) (h : a <+: b) (hne : a.length < b.length) :
    rawLen a < rawLen b := by
  obtain ⟨t, rfl⟩ := h
  unfold rawLen
  simp only [List.map_append, List.sum_append]
  cases t with
  | nil => simp at hne
  | cons c t =>
    have hc := (hb c (by simp)).1
    have : c.length ≥ 1 := by
      cases c with
      | nil => exact absurd rfl hc
      | cons _ _ => simp
    simp only [List.map_cons, List.sum_cons]
    omega

/-- fold invariant of the lookup loop: either nothing was taken (and then no matching entry reaches the
start length), or the result is a matching entry of maximal raw length -/
theorem lookup_best (entries : List (List Str × Ver)) (dirc : List Str) (n : Nat) (v : Ver) :
    ((entries.foldl (step dirc) (n, v) = (n, v) ∧ ∀ e ∈ entries, matchesKey e.1 dirc = true → rawLen e.1 < n) ∨
      ∃ e ∈ entries, matchesKey e.1 dirc = true ∧ entries.foldl (step dirc) (n, v) = (rawLen e.1, e.2)) ∧
    (entries.foldl (step dirc) (n, v)).1 ≥ n ∧
    ∀ e ∈ entries, matchesKey e.1 dirc = true → rawLen e.1 ≤ (entries.foldl (step dirc) (n, v)).1 := by
  induction entries generalizing n v with
  | nil => simp
  | cons e es ih =>
    simp only [List.foldl_cons]
    by_cases hm : matchesKey e.1 dirc = true ∧ rawLen e.1 ≥ n
    · have hs : step dirc (n, v) e = (rawLen e.1, e.2) := by simp [step, hm.1, hm.2]
      rw [hs]
      obtain ⟨h1, h2, h3⟩ := ih (rawLen e.1) e.2
      refine ⟨Or.inr ?_, by omega, ?_⟩
      · rcases h1 with ⟨h1, _⟩ | ⟨e', he', hm', h1⟩
        · exact ⟨e, by simp, hm.1, h1⟩
        · exact ⟨e', by simp [he'], hm', h1⟩
      · intro e' he' hm'
        simp only [List.mem_cons] at he'
        rcases he' with rfl | he'
        · exact h2
        · exact h3 e' he' hm'
    · have hs : step dirc (n, v) e = (n, v) := by
        unfold step
        by_cases h1 : matchesKey e.1 dirc = true
        · have : ¬ rawLen e.1 ≥ n := fun h2 => hm ⟨h1, h2⟩
          simp [h1, this]
        · simp [h1]
      rw [hs]
      obtain ⟨h1, h2, h3⟩ := ih n v
      refine ⟨?_, h2, ?_⟩
      · rcases h1 with ⟨h1, hlt⟩ | ⟨e', he', hm', h1⟩
        · left
          refine ⟨h1, ?_⟩
          intro e' he' hm'
          simp only [List.mem_cons] at he'
          rcases he' with rfl | he'
          · by_cases h4 : rawLen e'.1 ≥ n
            · exact absurd ⟨hm', h4⟩ hm
            · omega
          · exact hlt e' he' hm'
        · exact Or.inr ⟨e', by simp [he'], hm', h1⟩
      · intro e' he' hm'
        simp only [List.mem_cons] at he'
        rcases he' with rfl | he'
        · by_cases h4 : rawLen e'.1 ≥ n
          · exact absurd ⟨hm', h4⟩ hm
          · omega
        · exact h3 e' he' hm'

/-- **lookup_default_when_outside**: a file outside every configured directory gets the default
(its version is then detected from the source), in any map iteration order. -/
theorem lookup_default_when_outside (entries : List (List Str × Ver)) (dirc : List Str) (d : Ver)
    (hk : ∀ e ∈ entries, Clean e.1) (hd : Clean dirc)
    (hno : ∀ e ∈ entries, ¬ e.1 <+: dirc) : lookup entries dirc d = d := by
  unfold lookup
  obtain ⟨h1, _, _⟩ := lookup_best entries dirc 0 d
  rcases h1 with ⟨h1, _⟩ | ⟨e, he, hm, _⟩
  · rw [h1]
  · exact absurd ((match_iff_component_prefix e.1 dirc (hk e he) hd).1 hm) (hno e he)

/-- **lookup_is_deepest_ancestor**: for clean configured directories and any clean file directory
(absolute spelling), in *any* map iteration order: if some configured directory contains the file, the
selected version is that of a configured ancestor-or-self directory such that no configured ancestor is
deeper. -/
theorem lookup_is_deepest_ancestor (entries : List (List Str × Ver)) (dirc : List Str) (d : Ver)
    (hk : ∀ e ∈ entries, Clean e.1) (hd : Clean dirc) (e0 : List Str × Ver) (he0 : e0 ∈ entries)
    (hp0 : e0.1 <+: dirc) :
    ∃ e ∈ entries, e.1 <+: dirc ∧ lookup entries dirc d = e.2 ∧
      ∀ e' ∈ entries, e'.1 <+: dirc → e'.1.length ≤ e.1.length := by
  unfold lookup
  obtain ⟨h1, _, h3⟩ := lookup_best entries dirc 0 d
  have hm0 := (match_iff_component_prefix e0.1 dirc (hk e0 he0) hd).2 hp0
  rcases h1 with ⟨_, hlt⟩ | ⟨e, he, hm, h1⟩
  · exact absurd (hlt e0 he0 hm0) (by omega)
  · have hpe := (match_iff_component_prefix e.1 dirc (hk e he) hd).1 hm
    refine ⟨e, he, hpe, by rw [h1], ?_⟩
    intro e' he' hp'
    have hm' := (match_iff_component_prefix e'.1 dirc (hk e' he') hd).2 hp'
    have hle := h3 e' he' hm'
    rw [h1] at hle
    simp only at hle
    -- both are prefixes of dirc: if e' were strictly deeper its raw key would be strictly longer
    by_cases hlt : e.1.length < e'.1.length
    · have hpp : e.1 <+: e'.1 := List.prefix_of_prefix_length_le hpe hp' (by omega)
      have := rawLen_mono e.1 e'.1 (hk e' he') hpp hlt
      omega
    · omega

/-- consequence: the choice does not depend on the map iteration order when keys are distinct -/
theorem deepest_unique (a b dirc : List Str) (ha : a <+: dirc) (hb : b <+: dirc) (h : a.length = b.length) :
    a = b := by
  have h1 := List.prefix_of_prefix_length_le ha hb (by omega)
  exact h1.eq_of_length h

/-- a relative spelling that is not resolved would match nothing: the repaired `InputFromPaths` makes
the path absolute first, so both spellings reach `lookup` with the same components (checked by the
correspondence run, which addresses every file relatively and absolutely). -/
theorem relative_unresolved_matches_nothing (entries : List (List Str × Ver)) (d : Ver) :
    lookupRelative entries d = d := rfl

/-- **config_beats_manifest / root_beats_project**: key handling of `AllRegoVersions` -/
theorem config_beats_root_manifest :
    lookup (allVersions [([], .v0)] (some .v1) []) ["pol".toList] .undefined = .v1 := by decide

theorem root_beats_project :
    lookup (allVersions [] (some .v1) [(["foo".toList], .v0)]) ["foo".toList, "x".toList] .undefined = .v0 ∧
    lookup (allVersions [] (some .v1) [(["foo".toList], .v0)]) ["foobar".toList] .undefined = .v1 := by decide

theorem config_root_beats_manifest_same_dir :
    lookup (allVersions [(["foo".toList], .v1)] none [(["foo".toList], .v0)]) ["foo".toList] .undefined = .v0 := by
  decide

end RegalModel.Version
