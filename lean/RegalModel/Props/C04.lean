import RegalModel.Model.ConfigMerge
/-!
# C04 — Rule enablement and severity follow the documented precedence

`Spec.decide` is the README chain written as one function.  The theorems say that the Rego
routing (`ignored_rule`, `level_for_rule`, model in `Kernel`) and the Go level merge
(`extractUserRuleLevels`, model in `ConfigMerge`) compute exactly it — for every parameter list
of any length, every name, every level — and where they do not (custom rules and defaults), the
negation is proved with a witness.
-/
namespace RegalModel.C04
open RegalModel.Kernel RegalModel.ConfigMerge

inductive Decision where
  | off
  | on (level : String)
  deriving DecidableEq, Repr

/-- README "Ignoring Rules": the flags `disable`, `enable` beat `disable-category`, `enable-category`, which
beat `disable-all`, `enable-all`, which beat the configured level (CLI "on" means level `error`).  Within one tier the
disable flag is consulted first (the README does not say; this is the code's choice, recorded). -/
def Spec.cli (p : Params) (c t : String) (cfgLevel : Option String) : Decision :=
  if t ∈ p.disable then .off
  else if t ∈ p.enable then .on "error"
  else if c ∈ p.disableCategory then .off
  else if c ∈ p.enableCategory then .on "error"
  else if p.disableAll then .off
  else if p.enableAll then .on "error"
  else match cfgLevel with
    | some l => if l = "ignore" then .off else .on l
    | none => .on "error"

/-- what the kernel does with a rule: run it (and stamp which level) or not -/
def kernelDecision (cfg : Cfg) (p : Params) (r : RuleId) : Decision :=
  if ignoredRule cfg p r then .off else .on (levelForRule cfg p r)

/-- **rego_precedence_exact**: `ignored_rule` + `level_for_rule` implement the CLI tiers of the
documented chain exactly, for every rule (built-in or custom), all flag lists, all levels. -/
theorem rego_precedence_exact (cfg : Cfg) (p : Params) (r : RuleId) :
    kernelDecision cfg p r = Spec.cli p r.1 r.2 (cfg.levelOf r) := by
  unfold kernelDecision Spec.cli ignoredRule levelForRule forceDisabled forceEnabled
  by_cases h1 : r.2 ∈ p.disable <;> by_cases h2 : r.2 ∈ p.enable <;>
  by_cases h3 : r.1 ∈ p.disableCategory <;> by_cases h4 : r.1 ∈ p.enableCategory <;>
  cases h5 : p.disableAll <;> cases h6 : p.enableAll <;>
  simp [h1, h2, h3, h4] <;>
  (cases h7 : cfg.levelOf r <;> simp) <;>
  (rename_i l; by_cases h8 : l = "ignore" <;> simp [h8])

/-- a rule that reports carries exactly the level the chain assigns -/
theorem reported_level (cfg : Cfg) (p : Params) (r : RuleId) (v : Violation) (l : String)
    (h : Spec.cli p r.1 r.2 (cfg.levelOf r) = .on l) : (stamp cfg p r v).level = l := by
  have := rego_precedence_exact cfg p r
  rw [h] at this
  unfold kernelDecision at this
  split at this
  · cases this
  · simp only [Decision.on.injEq] at this; simpa [stamp] using this

/-- a rule the chain switches off never runs (built-in branch and custom branch alike) -/
theorem off_never_runs (cfg : Cfg) (p : Params) (r : RuleId)
    (h : Spec.cli p r.1 r.2 (cfg.levelOf r) = .off) : ignoredRule cfg p r = true := by
  have := rego_precedence_exact cfg p r
  rw [h] at this
  unfold kernelDecision at this
  split at this
  · assumption
  · cases this

/-! ### the configuration tiers (Go: `extractUserRuleLevels`) -/

/-- README chain below the CLI: rule level > category default > global default > built-in default -/
def Spec.configLevel (ruleLevel catDefault globalDefault : String) (builtin : String) : String :=
  if ruleLevel ≠ "" then ruleLevel
  else if catDefault ≠ "" then catDefault
  else if globalDefault ≠ "" then globalDefault
  else builtin

/-- **go_level_chain**: for a rule with a built-in default (`pl`), when every default that is
written has a level, the merged level is the documented chain. -/
theorem go_level_chain (prov : Provided) (u : UserCfg) (r : RuleId) (pl : String) (provLevel : Option String)
    (hp : providedLevelByName prov r.2 = some pl)
    (hcat : ∀ l, catDefault u r.1 = some l → l ≠ "") :
    selectedLevel prov u r provLevel =
      Spec.configLevel (((userRule u r).map (·.level)).getD "") ((catDefault u r.1).getD "") u.globalDefault pl := by
  unfold selectedLevel Spec.configLevel
  simp only [hp]
  by_cases h1 : ((userRule u r).map (·.level)).getD "" ≠ ""
  · simp [h1]
  · simp only [h1, if_false]
    cases hc : catDefault u r.1 with
    | none => simp
    | some cl => simp [hcat cl hc]

/-- recorded deviation (outside the property's quantifier: a `default:` key written without a
level): such a category default shadows the global default. -/
theorem empty_category_default_shadows_global :
    selectedLevel [(("style", "todo-comment"), "error")]
      { catDefaults := [("style", "")], globalDefault := "warning" } ("style", "todo-comment") (some "error")
      = "error" := by decide

/-- **custom_rule_precedence (negation, proved)**: for a rule WITHOUT a built-in default — every
custom rule — category and global defaults are never applied: the level is whatever the user wrote
on the rule itself, even the empty string.  The property demands "identically for built-in and
custom rules"; this is finding C04-custom-defaults. -/
theorem custom_rule_ignores_defaults (prov : Provided) (u : UserCfg) (r : RuleId)
    (hp : providedLevelByName prov r.2 = none) :
    selectedLevel prov u r none = ((userRule u r).map (·.level)).getD "" := by
  unfold selectedLevel mergoLevel
  simp only [hp]
  cases userRule u r with
  | none => simp
  | some x => by_cases h : x.level = "" <;> simp [h]

/-- concrete witness: `rules.default.level: ignore` + a custom rule configured without level
⇒ merged level "" ⇒ the rule runs and stamps level "" (neither error nor warning). -/
theorem custom_rule_witness :
    let u : UserCfg := { rules := [(("vcat", "rule-x"), {})], globalDefault := "ignore" }
    let cfg := mergeCfg [] (some u) []
    kernelDecision cfg {} ("vcat", "rule-x") = .on "" := by decide

/-- with the user's own level written, custom rules follow the same chain as built-in ones -/
theorem custom_rule_own_level (prov : Provided) (u : UserCfg) (r : RuleId) (x : UserRule)
    (hu : userRule u r = some x) (hl : x.level ≠ "") (provLevel : Option String) :
    selectedLevel prov u r provLevel = x.level := by
  unfold selectedLevel mergoLevel
  cases providedLevelByName prov r.2 <;> simp [hu, hl]

/-! ### the "enabled rules" list -/

/-- **enabled_list_exact**: `DetermineEnabledRules` lists exactly the built-in rules the chain
switches on and that have no notice. -/
theorem enabled_list_exact (env : Env) (cfg : Cfg) (p : Params) (f0 : File) (r : RuleId) :
    r ∈ determineEnabled env cfg p f0 ↔
      r ∈ env.builtin ∧ env.notices r f0 = [] ∧ Spec.cli p r.1 r.2 (cfg.levelOf r) ≠ .off := by
  unfold determineEnabled
  have hk := rego_precedence_exact cfg p r
  unfold kernelDecision at hk
  simp only [List.mem_filter, Bool.and_eq_true, List.isEmpty_iff, Bool.not_eq_true']
  constructor
  · rintro ⟨hb, hn, hi⟩
    refine ⟨hb, hn, ?_⟩
    rw [← hk]; simp [hi]
  · rintro ⟨hb, hn, hs⟩
    refine ⟨hb, hn, ?_⟩
    cases hi : ignoredRule cfg p r
    · rfl
    · rw [← hk] at hs; simp [hi] at hs

/-- custom rules are never in that list although they can report (finding C04-custom-enabled) -/
theorem custom_never_listed (env : Env) (cfg : Cfg) (p : Params) (f0 : File) (r : RuleId)
    (h : r ∉ env.builtin) : r ∉ determineEnabled env cfg p f0 := by
  unfold determineEnabled; simp [h]

/-! ### non-vacuity: every tier is reachable -/
example : Spec.cli { disable := ["r"], enable := ["r"] } "c" "r" (some "error") = .off := by decide
example : Spec.cli { enable := ["r"], disableCategory := ["c"], disableAll := true } "c" "r" (some "ignore") = .on "error" := by decide
example : Spec.cli { enableCategory := ["c"], disableAll := true } "c" "r" (some "ignore") = .on "error" := by decide
example : Spec.cli { disableCategory := ["c"], enableAll := true } "c" "r" (some "error") = .off := by decide
example : Spec.cli { enableAll := true } "c" "r" (some "ignore") = .on "error" := by decide
example : Spec.cli {} "c" "r" (some "warning") = .on "warning" := by decide
example : Spec.cli {} "c" "r" (some "ignore") = .off := by decide
example : Spec.configLevel "" "warning" "ignore" "error" = "warning" := by decide

end RegalModel.C04
