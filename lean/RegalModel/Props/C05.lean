import RegalModel.Model.Glob
/-!
# C05 — Ignored files never produce violations; both matchers agree

Property theorems only.  `gm` (gobwas/glob with separator '/') is universally
quantified: the theorems hold for every matcher both sides share.
-/
namespace RegalModel.Glob

/-- the two trailing-slash case analyses produce the same patterns -/
theorem trailing_agree (p x : Str) : x ∈ goTrailing p ↔ x ∈ regoTrailing p := by
  unfold goTrailing regoTrailing
  by_cases h1 : hasSuffix (s "/") p = true <;> by_cases h2 : hasSuffix (s "**") p = true <;> simp [h1, h2]

theorem leading_agree (p : Str) : goLeading p = regoLeading p := by
  unfold goLeading regoLeading trimPrefix hasPrefix
  split <;> simp_all [s]

/-- **patterns_agree**: for every pattern, Go's `ps1` and Rego's `_pattern_compiler`
contain exactly the same glob patterns. (Go is only ever called with `p ≠ ""`.) -/
theorem patterns_agree (p x : Str) : x ∈ goPatterns p ↔ x ∈ regoPatterns p := by
  unfold goPatterns regoPatterns
  have hi : goInternal p = regoInternal p := rfl
  simp only [hi, leading_agree, List.mem_flatMap]
  constructor
  · rintro ⟨a, ha, hx⟩; exact ⟨a, ha, (trailing_agree a x).1 hx⟩
  · rintro ⟨a, ha, hx⟩; exact ⟨a, ha, (trailing_agree a x).2 hx⟩

/-- **exclude_agree**: the same pattern excludes the same (already relativised) file on both
sides, whatever the glob matcher does. -/
theorem exclude_agree (gm : Str → Str → Bool) (p f q : Str) (hp : p ≠ []) :
    goExclude gm p f q = regoExclude gm p (goRel f q) := by
  unfold goExclude regoExclude
  simp only [ne_eq, hp, not_false_eq_true, decide_true, Bool.true_and]
  rw [Bool.eq_iff_iff]
  simp only [List.any_eq_true]
  constructor
  · rintro ⟨x, hx, h⟩; exact ⟨x, (patterns_agree p x).1 hx, h⟩
  · rintro ⟨x, hx, h⟩; exact ⟨x, (patterns_agree p x).2 hx, h⟩

/-- **rel_agree**: for a project-root prefix `q` that is non-empty and does not end in "/"
(what `regal lint` and the language server pass: a directory path or a `file://` URI),
Go's `TrimPrefix(filename, q + "/")` and Rego's `_file_name_relative_to_root` agree. -/
theorem rel_agree (f q : Str) (hne : q ≠ []) (hslash : hasSuffix (s "/") q = false) :
    goRel f (goNormPrefix q) = regoRel f q := by
  have hq : q ≠ s "/" := by
    intro h; subst h; exact absurd hslash (by decide)
  unfold goRel goNormPrefix regoRel
  simp [hne, hslash, hq]

/-- the custom-rule report clause relativises like the built-in one under the same hypothesis -/
theorem rel_custom_agree (f q : Str) (hq : q ≠ s "/") : regoRelCustom f q = regoRel f q := by
  unfold regoRelCustom regoRel; simp [hq]

/-- **rel_disagree_witness** (outside the hypothesis of `rel_agree`): with no prefix an
absolute file name is matched as-is by Go but without its leading "/" by Rego. -/
theorem rel_disagree_witness :
    goRel (s "/a/b.rego") (goNormPrefix []) ≠ regoRel (s "/a/b.rego") [] := by decide

/-- **global_list_agree**: the CLI list replaces the config list identically on both sides. -/
theorem global_list_agree (cli cfg : List Str) : goGlobalIgnore cli cfg = globalIgnore cli cfg := rfl

/-- **filter_sound_complete**: `filterPaths` keeps exactly the files that no non-empty pattern
excludes … -/
theorem filter_sound_complete (gm : Str → Str → Bool) (paths ignore : List Str) (q f : Str) :
    f ∈ goFilterPaths gm paths ignore q ↔
      f ∈ paths ∧ ∀ pat ∈ ignore, pat ≠ [] → goExclude gm pat f q = false := by
  unfold goFilterPaths
  simp only [List.mem_filter, Bool.not_eq_true', List.any_eq_false, Bool.and_eq_true,
    ne_eq, decide_eq_true_eq, not_and, Bool.not_eq_true]

/-- … never drops a file that matches nothing, never reorders or duplicates. -/
theorem filter_sublist (gm : Str → Str → Bool) (paths ignore : List Str) (q : Str) :
    (goFilterPaths gm paths ignore q).Sublist paths := List.filter_sublist

theorem filter_never_drops_unmatched (gm : Str → Str → Bool) (paths ignore : List Str) (q f : Str)
    (hf : f ∈ paths) (hno : ∀ pat ∈ ignore, ∀ x ∈ goPatterns pat, gm x (goRel f q) = false) :
    f ∈ goFilterPaths gm paths ignore q := by
  rw [filter_sound_complete]
  refine ⟨hf, fun pat hp _ => ?_⟩
  unfold goExclude
  simp only [List.any_eq_false]
  intro x hx; simp [hno pat hp x hx]

/-- **both_matchers_agree** (end to end): with the same (non-empty-pattern) global list and a
well-formed prefix, a file survives Go's collection filter iff Rego's `excluded_file` does not
exclude it globally. -/
theorem both_matchers_agree (gm : Str → Str → Bool) (paths ignore : List Str) (q f : Str)
    (hne : q ≠ []) (hslash : hasSuffix (s "/") q = false) (hpat : ∀ pat ∈ ignore, pat ≠ [])
    (hf : f ∈ paths) :
    f ∈ goFilterPaths gm paths ignore (goNormPrefix q) ↔
      excludedFile gm ignore [] (regoRel f q) = false := by
  rw [filter_sound_complete]
  unfold excludedFile
  simp only [List.any_nil, Bool.or_false, List.any_eq_false]
  constructor
  · rintro ⟨_, h⟩ pat hp
    have := h pat hp (hpat pat hp)
    rw [exclude_agree _ _ _ _ (hpat pat hp), rel_agree f q hne hslash] at this
    simp [this]
  · intro h
    refine ⟨hf, fun pat hp _ => ?_⟩
    rw [exclude_agree _ _ _ _ (hpat pat hp), rel_agree f q hne hslash]
    simpa using h pat hp

/-- **excluded_no_violation** is a kernel theorem (see Props/Kernel); here: a per-rule ignore
pattern excludes through the same `_exclude`. -/
theorem rule_ignore_excludes (gm : Str → Str → Bool) (g r : List Str) (file pat : Str)
    (hp : pat ∈ r) (hm : regoExclude gm pat file = true) : excludedFile gm g r file = true := by
  unfold excludedFile
  simp only [Bool.or_eq_true, List.any_eq_true]
  exact Or.inr ⟨pat, hp, hm⟩

/-- **empty_pattern_skipped**: an empty string in an ignore list excludes nothing on either
side (Go: `if pattern == "" { continue }`; Rego: `pattern != ""` — before the repair recorded in
known-findings.json Rego compiled it to `**/**` and silently excluded every nested file). -/
theorem empty_pattern_skipped (gm : Str → Str → Bool) (paths : List Str) (q f : Str) :
    goFilterPaths gm paths [[]] q = paths ∧ excludedFile gm [[]] [] f = false := by
  constructor
  · simp [goFilterPaths]
  · simp [excludedFile, regoExclude]

/-! non-vacuity: the hypotheses of `rel_agree`/`both_matchers_agree` are met by ordinary prefixes -/
example : s "/w/proj" ≠ [] ∧ hasSuffix (s "/") (s "/w/proj") = false := by decide
example : goPatterns (s "foo") = [s "**/foo", s "**/foo/**", s "foo", s "foo/**"] := by decide
example : goPatterns (s "/a/b/") = [s "a/b/**"] := by decide

end RegalModel.Glob
