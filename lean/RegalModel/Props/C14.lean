import RegalModel.Model.GitGuard
/-!
# C14 — Without --force, fix never destroys work that git cannot restore
-/
namespace RegalModel.GitGuard

/-- **guard_refuses_outside_repo** -/
theorem guard_refuses_outside_repo (g : GuardIn) (hd : g.dryRun = false) (hf : g.force = false)
    (hr : g.repo = none) : guard g = .refuse := by
  simp [guard, hd, hf, hr]

/-- **guard_protects_dirty**: if the command writes without --force, no file it modifies, moves or
deletes has a git status entry (modified, staged or untracked). -/
theorem guard_protects_dirty (g : GuardIn) (hf : g.force = false) (hw : guard g = .write) :
    ∀ f ∈ g.modified ++ g.deleted, f ∉ g.status := by
  unfold guard at hw
  cases hd : g.dryRun
  · simp only [hd, hf, Bool.not_false, Bool.and_self, if_true] at hw
    cases hr : g.repo with
    | none => simp [hr] at hw
    | some r =>
      simp only [hr] at hw
      split at hw
      · rename_i he
        intro f hfm hs
        have : f ∈ conflicting g := by
          unfold conflicting
          simp only [List.mem_filter, List.contains_iff_mem]
          exact ⟨hfm, hs⟩
        rw [List.isEmpty_iff] at he
        rw [he] at this
        cases this
      · cases hw
  · simp [hd, hf] at hw

/-- **refusal_leaves_disk** / **dryrun_noop**: when the command refuses or runs dry, no byte changes. -/
theorem refusal_leaves_disk (g : GuardIn) (content : Path → String) (d : Disk) (h : guard g ≠ .write) :
    apply g content d = d := by
  unfold apply
  cases hg : guard g <;> simp_all

theorem dryrun_noop (g : GuardIn) (content : Path → String) (d : Disk) (h : g.dryRun = true) :
    apply g content d = d := by
  apply refusal_leaves_disk
  simp [guard, h]

/-- a dirty file is left byte-identical whenever --force is not given -/
theorem dirty_untouched (g : GuardIn) (content : Path → String) (d : Disk) (hf : g.force = false)
    (f : Path) (hs : f ∈ g.status) :
    (apply g content d).filter (·.1 = f) = d.filter (·.1 = f) := by
  by_cases hw : guard g = .write
  · have hprot := guard_protects_dirty g hf hw
    have hfm : f ∉ g.modified := fun h => hprot f (by simp [h]) hs
    have hfd : f ∉ g.deleted := fun h => hprot f (by simp [h]) hs
    unfold apply
    simp only [hw]
    have hrem : ∀ (l : List Path) (d : Disk), f ∉ l → (l.foldl diskRemove d).filter (·.1 = f) = d.filter (·.1 = f) := by
      intro l
      induction l with
      | nil => intros; rfl
      | cons p l ih =>
        intro d hn
        simp only [List.mem_cons, not_or] at hn
        simp only [List.foldl_cons]
        rw [ih _ hn.2]
        unfold diskRemove
        rw [List.filter_filter]
        apply List.filter_congr
        intro x _
        by_cases hx : x.1 = f
        · have : x.1 ≠ p := fun e => hn.1 (by rw [← hx, e])
          simp [hx, hn.1]
        · simp [hx]
    have hwr : ∀ (l : List Path) (d : Disk), f ∉ l →
        (l.foldl (fun d p => diskWrite d p (content p)) d).filter (·.1 = f) = d.filter (·.1 = f) := by
      intro l
      induction l with
      | nil => intros; rfl
      | cons p l ih =>
        intro d hn
        simp only [List.mem_cons, not_or] at hn
        simp only [List.foldl_cons]
        rw [ih _ hn.2]
        unfold diskWrite diskRemove
        have hpf : ¬ p = f := fun e => hn.1 e.symm
        simp only [List.filter_append, List.filter_cons, List.filter_nil, hpf, decide_false, Bool.false_eq_true,
          if_false, List.append_nil]
        rw [List.filter_filter]
        apply List.filter_congr
        intro x _
        by_cases hx : x.1 = f
        · have : x.1 ≠ p := fun e => hn.1 (by rw [← hx, e])
          simp [hx, hn.1]
        · simp [hx]
    rw [hwr _ _ hfm, hrem _ _ hfd]
  · rw [refusal_leaves_disk g content d hw]

/-- **findRepo_spec**: the repository used is the nearest ancestor-or-self directory with `.git` -/
theorem findRepo_spec (hasGit : List String → Bool) (dir r : List String) (h : findRepo hasGit dir = some r) :
    hasGit r = true ∧ r <:+ dir := by
  induction dir with
  | nil =>
    unfold findRepo at h
    split at h
    · cases h; exact ⟨by assumption, List.suffix_refl _⟩
    · cases h
  | cons c parent ih =>
    unfold findRepo at h
    split at h
    · cases h; exact ⟨by assumption, List.suffix_refl _⟩
    · have := ih h
      exact ⟨this.1, this.2.trans (List.suffix_cons c parent)⟩

theorem findRepo_none (hasGit : List String → Bool) (dir : List String) (h : findRepo hasGit dir = none) :
    ∀ r, r <:+ dir → hasGit r = false := by
  induction dir with
  | nil =>
    intro r hr
    have : r = [] := List.eq_nil_of_suffix_nil hr
    subst this
    unfold findRepo at h
    split at h
    · cases h
    · simp_all
  | cons c parent ih =>
    intro r hr
    unfold findRepo at h
    split at h
    · cases h
    · rename_i hg
      rw [List.suffix_cons_iff] at hr
      rcases hr with rfl | hr
      · simpa using hg
      · exact ih h r hr

/-- **guard_never_fired (the code before the repair)**: go-git status keys are relative to the
repository root (no leading '/'), the provider's paths are absolute — the sets are disjoint for
every input, so no dirty file was ever protected.  Replayed on the real binary; repaired. -/
theorem guard_never_fired_old (keys modified : List (List Char))
    (hk : ∀ k ∈ keys, k.head? ≠ some '/') (hm : ∀ f ∈ modified, f.head? = some '/') :
    conflictingOld keys modified = [] := by
  unfold conflictingOld
  rw [List.filter_eq_nil_iff]
  intro f hf hc
  simp only [List.contains_iff_mem] at hc
  exact hk f hc (hm f hf)

/-! non-vacuity -/
example : guard { dryRun := false, force := false, repo := some ["w"], status := [["w", "a.rego"]],
                  modified := [["w", "a.rego"]], deleted := [] } = .refuse := by decide
example : guard { dryRun := false, force := false, repo := some ["w"], status := [["w", "b.rego"]],
                  modified := [["w", "a.rego"]], deleted := [] } = .write := by decide
example : guard { dryRun := false, force := false, repo := some ["w"], status := [["w", "a.rego"]],
                  modified := [["w", "p", "a.rego"]], deleted := [["w", "a.rego"]] } = .refuse := by decide

/-- **findRepoMulti_spec**: with several path arguments the gate consults a repository only if it is the repository of
EVERY argument, found by walking up from the argument itself — where `regal fix` was started from plays no role. -/
theorem findRepoMulti_spec (hasGit : List String → Bool) (dirs : List (List String)) (r : List String)
    (h : findRepoMulti hasGit dirs = some r) : ∀ d ∈ dirs, findRepo hasGit d = some r := by
  cases dirs with
  | nil => simp [findRepoMulti] at h
  | cons d ds =>
    simp only [findRepoMulti] at h
    cases hd : findRepo hasGit d with
    | none => rw [hd] at h; cases h
    | some r' =>
      rw [hd] at h
      simp only at h
      split at h
      · rename_i hall
        cases h
        intro x hx
        simp only [List.mem_cons] at hx
        rcases hx with rfl | hx
        · exact hd
        · have := (List.all_eq_true.1 hall) x hx
          simpa using this
      · cases h

example : findRepoMulti (fun r => r == ["w", "tmp"]) [["p", "w", "tmp"], ["q", "w", "tmp"]] = some ["w", "tmp"] := by decide
example : findRepoMulti (fun r => r == ["p", "w", "tmp"]) [["p", "w", "tmp"], ["q", "w", "tmp"]] = none := by decide

end RegalModel.GitGuard
