import RegalModel.Model.Lsp
import RegalModel.Model.LspCache
import RegalModel.Model.LspPublish
/-!
# C15 — Language-server diagnostics converge to a from-scratch workspace lint

Protocol-level proof over the atomic-step model of the diagnostics pipeline: for EVERY history of events and
worker steps (any length, any interleaving, bursts that trip the rate limiter), whenever the server is
quiescent everything it has published is current.  What "current" delivers (the linter's verdicts) is the
kernel's business (C01/C02/C09); finer-grained interleavings of the real goroutines are sampled.
-/
namespace RegalModel.Lsp
open List

/-- the pipeline invariant: stale single-file data has a file job queued; stale cross-file data has a file job
or an aggregate-capable workspace job queued -/
def Inv (s : St) : Prop :=
  (∀ u ∈ s.fileStale, u ∈ s.fileJobs) ∧ (s.aggStale = true → s.fileJobs ≠ [] ∨ s.wsJobs > 0)

theorem inv_init (files : List Uri) : Inv (init files) := by simp [Inv, init]

/-- **inv_step**: every event and every worker step of the repaired server preserves the invariant. -/
theorem inv_step (s : St) (e : Ev) (h : Inv s) : Inv (step true s e) := by
  obtain ⟨h1, h2⟩ := h
  cases e with
  | change u =>
    refine ⟨?_, ?_⟩
    · intro v hv
      simp only [step] at hv ⊢
      split at hv
      · exact List.mem_append_left _ (h1 v hv)
      · simp only [List.mem_append, List.mem_singleton] at hv ⊢
        rcases hv with hv | hv
        · exact Or.inl (h1 v hv)
        · exact Or.inr hv
    · intro _; left; simp [step]
  | delete u =>
    refine ⟨?_, ?_⟩
    · intro v hv
      simp only [step, List.mem_filter] at hv ⊢
      exact h1 v hv.1
    · intro _; right; simp [step]
  | config => exact ⟨h1, fun _ => Or.inr (by simp [step])⟩
  | fileWorker =>
    cases hj : s.fileJobs with
    | nil => simpa [step, hj, Inv] using ⟨fun u hu => by simpa [hj] using h1 u hu, fun ha => by simpa [hj] using h2 ha⟩
    | cons u rest =>
      simp only [step, hj]
      refine ⟨?_, fun _ => Or.inr (by simp)⟩
      intro v hv
      simp only at hv ⊢
      split at hv
      · rename_i hc
        have := h1 v hv
        rw [hj] at this
        simp only [List.mem_cons] at this
        rcases this with rfl | this
        · simpa using hc
        · exact this
      · simp only [List.mem_filter, decide_eq_true_eq] at hv
        have := h1 v hv.1
        rw [hj] at this
        simp only [List.mem_cons] at this
        rcases this with rfl | this
        · exact absurd rfl hv.2
        · exact this
  | dispatchDrop =>
    simp only [step]
    split
    · rename_i hgt
      refine ⟨h1, fun ha => ?_⟩
      right
      simp only
      omega
    · exact ⟨h1, h2⟩
  | wsWorker =>
    simp only [step]
    split
    · exact ⟨h1, h2⟩
    · refine ⟨h1, fun ha => ?_⟩
      simp only [decide_eq_true_eq] at ha
      exact Or.inl ha

inductive Reachable (fixed : Bool) (files : List Uri) : St → Prop
  | init : Reachable fixed files (init files)
  | step {s : St} (e : Ev) : Reachable fixed files s → Reachable fixed files (step fixed s e)

theorem inv_reachable (files : List Uri) (s : St) (h : Reachable true files s) : Inv s := by
  induction h with
  | init => exact inv_init files
  | step e _ ih => exact inv_step _ e ih

/-- **converges**: in every reachable state of the repaired server in which both queues are empty, nothing
published is stale — for all histories, of any length, under every interleaving of handler, file worker,
dispatcher (with its rate limiter) and workspace worker. -/
theorem converges (files : List Uri) (s : St) (h : Reachable true files s) (hq : quiescent s = true) :
    current s = true := by
  obtain ⟨h1, h2⟩ := inv_reachable files s h
  simp only [quiescent, Bool.and_eq_true, List.isEmpty_iff, decide_eq_true_eq] at hq
  simp only [current, Bool.and_eq_true, List.isEmpty_iff, Bool.not_eq_true']
  constructor
  · cases hf : s.fileStale with
    | nil => rfl
    | cons u rest =>
      have := h1 u (by rw [hf]; simp)
      rw [hq.1] at this
      cases this
  · cases ha : s.aggStale with
    | false => rfl
    | true =>
      rcases h2 ha with h | h
      · exact absurd hq.1 h
      · omega

/-- **rate_limit_safe**: the dispatcher only drops an aggregate job while more than five runs are queued, so a
later run is always left to pick up the latest aggregates. -/
theorem rate_limit_safe (s : St) (h : (step true s .dispatchDrop).wsJobs < s.wsJobs) :
    (step true s .dispatchDrop).wsJobs ≥ rateLimit := by
  by_cases hgt : s.wsJobs > 5
  · have : step true s .dispatchDrop = { s with wsJobs := s.wsJobs - 1 } := by simp [step, hgt]
    rw [this]; simp only [rateLimit]; omega
  · have : step true s .dispatchDrop = s := by simp [step, hgt]
    rw [this] at h; omega

/-- **quiescence_reachable**: from every state the queues drain in `|fileJobs| + wsJobs + |fileJobs|` worker
steps (no step is blocked; each file job adds one workspace job). -/
theorem drain_measure (s : St) :
    (s.fileJobs ≠ [] → (step true s .fileWorker).fileJobs.length + 1 = s.fileJobs.length) ∧
    (s.wsJobs > 0 → (step true s .wsWorker).wsJobs + 1 = s.wsJobs) := by
  constructor
  · intro h
    cases hj : s.fileJobs with
    | nil => exact absurd hj h
    | cons u rest => simp [step, hj]
  · intro h
    simp only [step]
    split
    · omega
    · simp only; omega

/-- **delete_leaves_stale_aggregate** (the code before the repair): `didDeleteFiles` removed the file's
aggregates from the cache but queued nothing — a quiescent state with stale cross-file diagnostics is
reachable in one event (the importer of a deleted package never gets `unresolved-import`). -/
theorem delete_leaves_stale_aggregate :
    ∃ s, Reachable false ["a", "b"] s ∧ quiescent s = true ∧ current s = false := by
  refine ⟨step false (init ["a", "b"]) (.delete "b"), Reachable.step _ Reachable.init, ?_, ?_⟩ <;> decide

/-! ### the cache merge -/

/-- **merge_by_rule_disjoint**: updating the diagnostics of one rule set never clobbers the diagnostics of a
disjoint rule set (file results vs. aggregate results), in either order. -/
theorem merge_by_rule_disjoint (cur : List Diag) (A B : List String) (dA dB : List Diag)
    (hdisj : ∀ r, r ∈ A → r ∉ B) (hA : ∀ d ∈ dA, d.code ∈ A) (hB : ∀ d ∈ dB, d.code ∈ B) :
    (setForRules (setForRules cur A dA) B dB).filter (fun d => A.contains d.code) = dA := by
  unfold setForRules
  simp only [List.filter_append, List.filter_filter]
  have h1 : cur.filter (fun d => A.contains d.code && (!B.contains d.code && !A.contains d.code)) = [] := by
    rw [List.filter_eq_nil_iff]; intro d _; cases A.contains d.code <;> simp
  have h2 : dA.filter (fun d => A.contains d.code && !B.contains d.code) = dA := by
    rw [List.filter_eq_self]
    intro d hd
    have := hA d hd
    simp [this, hdisj d.code this]
  have h3 : dB.filter (fun d => A.contains d.code) = [] := by
    rw [List.filter_eq_nil_iff]
    intro d hd
    have hb := hB d hd
    simp only [List.contains_iff_mem]
    intro ha
    exact hdisj d.code ha hb
  rw [h1, h2, h3]; simp

end RegalModel.Lsp

namespace RegalModel.LspCache
open List

theorem clean_init (files : List Uri) : Clean (init files) := by simp [Clean, init]

/-- **clean_step**: with the repaired stores, no event and no (non-atomic) worker step caches anything for a file that
is not in the workspace — whatever happens between reading a file and storing its results. -/
theorem clean_step (s : St) (e : Ev) (h : Clean s) : Clean (step true s e) := by
  obtain ⟨hm, ha⟩ := h
  cases e with
  | change u =>
    simp only [step]
    constructor
    · intro v hv
      have := hm v hv
      split
      · exact this
      · exact List.mem_cons_of_mem _ this
    · intro v hv
      have := ha v hv
      split
      · exact this
      · exact List.mem_cons_of_mem _ this
  | delete u =>
    simp only [step]
    constructor
    · intro v hv
      rw [List.mem_filter] at hv ⊢
      exact ⟨hm v hv.1, hv.2⟩
    · intro v hv
      rw [List.mem_filter] at hv ⊢
      exact ⟨ha v hv.1, hv.2⟩
  | start =>
    simp only [step]
    split
    · split <;> exact ⟨hm, ha⟩
    · exact ⟨hm, ha⟩
  | storeModule =>
    simp only [step]
    split
    · rename_i u _
      by_cases hc : s.files.contains u = true
      · simp only [Bool.not_true, Bool.false_or, hc, if_true]
        refine ⟨?_, ha⟩
        intro v hv
        simp only [List.mem_cons] at hv
        rcases hv with rfl | hv
        · simpa using hc
        · exact hm v hv
      · simp only [Bool.not_true, Bool.false_or, hc, Bool.false_eq_true, if_false]
        exact ⟨hm, ha⟩
    · exact ⟨hm, ha⟩
  | storeAggs =>
    simp only [step]
    split
    · rename_i u _
      by_cases hc : s.files.contains u = true
      · simp only [Bool.not_true, Bool.false_or, hc, if_true]
        refine ⟨hm, ?_⟩
        intro v hv
        simp only [List.mem_cons] at hv
        rcases hv with rfl | hv
        · simpa using hc
        · exact ha v hv
      · simp only [Bool.not_true, Bool.false_or, hc, Bool.false_eq_true, if_false]
        exact ⟨hm, ha⟩
    · exact ⟨hm, ha⟩

/-- **cache_never_outlives_file**: for EVERY history (any length, any interleaving of the handlers with the three
phases of the file worker) of the repaired server: every cached module and every cached aggregate entry belongs to a
file of the workspace. -/
theorem cache_never_outlives_file (files : List Uri) (evs : List Ev) : Clean (run true (init files) evs) := by
  unfold run
  generalize hs : init files = s
  have h : Clean s := hs ▸ clean_init files
  clear hs
  induction evs generalizing s with
  | nil => exact h
  | cons e rest ih => exact ih _ (clean_step s e h)

/-- **inflight_delete_resurrects** (the code before the repairs, /repo a316f0a and 180f173): open a file, let the
worker read it, delete the file, let the worker finish — its module and its aggregates are back in the cache although
the file is gone, and nothing ever removes them. The schedule the C15 check found with `VERIF_SEED=3`. -/
theorem inflight_delete_resurrects :
    let s := run false (init ["p0", "p1"]) [.change "p2", .start, .delete "p2", .storeModule, .storeAggs]
    "p2" ∉ s.files ∧ "p2" ∈ s.modules ∧ "p2" ∈ s.aggs := by decide

/-- the same schedule on the repaired server leaves nothing behind -/
example : let s := run true (init ["p0", "p1"]) [.change "p2", .start, .delete "p2", .storeModule, .storeAggs]
    "p2" ∉ s.files ∧ "p2" ∉ s.modules ∧ "p2" ∉ s.aggs := by decide

/-- **check_then_store_resurrects** (the code between a316f0a/180f173 and 8be5692): the stores were guarded, but the
check and the store were two steps. Open a file, let the worker read it and pass its check, delete the file, let the
worker store — module and aggregates of the removed file are back. The schedule the C15 check hit under load with
`VERIF_SEED=9` (`change p1/f1; delete p1/f1` with no pause). -/
theorem check_then_store_resurrects :
    let t := run2 ⟨init ["p0", "p1"], false⟩
      [.ev (.change "p2"), .ev .start, .check, .ev (.delete "p2"), .ev .storeModule, .ev .storeAggs]
    "p2" ∉ t.s.files ∧ "p2" ∈ t.s.modules ∧ "p2" ∈ t.s.aggs := by decide

/-- **atomic_is_check_then_store_without_gap**: when nothing happens between the check and the stores, the two-step
worker is the one-step worker of `step true` — which is what holding the lock of `Delete` across both achieves. -/
theorem atomic_is_check_then_store_without_gap (s : St) (c : Bool) :
    (run2 ⟨s, c⟩ [.check, .ev .storeModule]).s = step true s .storeModule ∧
    (run2 ⟨s, c⟩ [.check, .ev .storeAggs]).s = step true s .storeAggs := by
  constructor <;>
  · simp only [run2, List.foldl_cons, List.foldl_nil, step2, step]
    cases s.inflight with
    | none => rfl
    | some u => by_cases h : u ∈ s.files <;> simp [h]

end RegalModel.LspCache

namespace RegalModel.LspPublish

theorem inv_init : Inv init := by simp [Inv, init]

/-- **publish_inv_step**: with guarded stores and serialized publications every step preserves the invariant. -/
theorem publish_inv_step (s : St) (e : Ev) (he : Serialized e = true) (h : Inv s) : Inv (step true s e) := by
  obtain ⟨hh, h⟩ := h
  cases e with
  | change => exact ⟨hh, fun hp => by simp [step] at hp⟩
  | store d =>
    by_cases hp : s.present = true
    · have : step true s (.store d) = { s with cache := d } := by simp [step, hp]
      rw [this]
      exact ⟨hh, fun hp' => by simp [hp] at hp'⟩
    · have : step true s (.store d) = s := by simp [step, hp]
      rw [this]
      exact ⟨hh, h⟩
  | delete => exact ⟨hh, fun _ => ⟨rfl, Or.inl rfl⟩⟩
  | handlerPublish =>
    simp only [step]
    cases hq : s.pending with
    | true =>
      refine ⟨hh, fun hp => ?_⟩
      have := h hp
      simp only [if_true]
      exact ⟨this.1, Or.inr this.1⟩
    | false => simpa using ⟨hh, h⟩
  | publish =>
    refine ⟨hh, fun hp => ?_⟩
    have := h hp
    exact ⟨this.1, Or.inr this.1⟩
  | workerRead => simp [Serialized] at he
  | workerNotify => simp [Serialized] at he

theorem publish_inv_run (s : St) (evs : List Ev) (hs : ∀ e ∈ evs, Serialized e = true) (h : Inv s) :
    Inv (run true s evs) := by
  unfold run
  induction evs generalizing s with
  | nil => exact h
  | cons e rest ih =>
    exact ih _ (fun e' he' => hs e' (List.mem_cons_of_mem _ he'))
      (publish_inv_step s e (hs e (List.mem_cons_self ..)) h)

/-- **removed_uri_shows_nothing**: for EVERY history of changes, guarded stores, deletes and serialized publications
(any length, any interleaving of the handlers with the workers): whenever no handler is between its delete and its
clearing notification, the client shows no diagnostics for a uri that is not in the workspace. -/
theorem removed_uri_shows_nothing (evs : List Ev) (hs : ∀ e ∈ evs, Serialized e = true)
    (hq : quiescent (run true init evs) = true) (hp : (run true init evs).present = false) :
    (run true init evs).published = [] := by
  obtain ⟨_, h⟩ := publish_inv_run init evs hs inv_init
  rcases (h hp).2 with h' | h'
  · simp [quiescent, h'] at hq
  · exact h'

/-- **unserialized_publish_resurrects** (the code before /repo 792e3f5, stores already guarded): a worker reads the
diagnostics, the file is deleted and the handler clears the client, then the worker's notification goes out. -/
theorem unserialized_publish_resurrects :
    let s := run true init [.store ["todo-comment@4"], .workerRead, .delete, .handlerPublish, .workerNotify]
    s.present = false ∧ quiescent s = true ∧ s.published = ["todo-comment@4"] := by decide

/-- **unguarded_store_resurrects** (before /repo 8be5692 when the delete lands inside the worker's gap): the store
re-creates the diagnostics of the removed uri and a serialized publication shows them. -/
theorem unguarded_store_resurrects :
    let s := run false init [.delete, .handlerPublish, .store ["opa-fmt@0"], .publish]
    s.present = false ∧ quiescent s = true ∧ s.published = ["opa-fmt@0"] := by decide

/-- the hypotheses of `removed_uri_shows_nothing` are met by a non-trivial history -/
example : let evs : List Ev := [.store ["a"], .publish, .delete, .store ["b"], .publish, .handlerPublish]
    (∀ e ∈ evs, Serialized e = true) ∧ quiescent (run true init evs) = true ∧ (run true init evs).present = false := by
  decide

end RegalModel.LspPublish
