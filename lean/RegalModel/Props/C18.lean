import RegalModel.Model.ConfigFind
import RegalModel.Model.ConfigMerge
/-!
# C18 — Nearest configuration wins; merging only overrides what the user set
-/
namespace RegalModel.ConfigFind

theorem findUp_spec (p : Level → Bool) (chain : List Level) (n : Nat) (h : findUp p chain = some n) :
    (∃ l, chain[n]? = some l ∧ p l = true) ∧ ∀ m, m < n → ∀ l, chain[m]? = some l → p l = false := by
  induction chain generalizing n with
  | nil => simp [findUp] at h
  | cons l rest ih =>
    unfold findUp at h
    by_cases hp : p l = true
    · simp only [hp, if_true, Option.some.injEq] at h
      subst h
      exact ⟨⟨l, rfl, hp⟩, fun m hm => by omega⟩
    · simp only [hp, Bool.false_eq_true, if_false, Option.map_eq_some_iff] at h
      obtain ⟨k, hk, rfl⟩ := h
      obtain ⟨⟨l', hl', hpl'⟩, hmin⟩ := ih k hk
      refine ⟨⟨l', by simpa using hl', hpl'⟩, ?_⟩
      intro m hm l0 hl0
      cases m with
      | zero => simp only [List.getElem?_cons_zero, Option.some.injEq] at hl0; subst hl0; simpa using hp
      | succ m' => exact hmin m' (by omega) l0 (by simpa using hl0)

theorem findUp_none (p : Level → Bool) (chain : List Level) (h : findUp p chain = none) :
    ∀ l ∈ chain, p l = false := by
  induction chain with
  | nil => intro l hl; cases hl
  | cons x rest ih =>
    unfold findUp at h
    by_cases hp : p x = true
    · simp [hp] at h
    · simp only [hp, Bool.false_eq_true, if_false, Option.map_eq_none_iff] at h
      intro l hl
      simp only [List.mem_cons] at hl
      rcases hl with rfl | hl
      · simpa using hp
      · exact ih h l hl

/-- **findUpwards_nearest** (any depth): the `.regal` directory / `.regal.yaml` file found is the one
in the closest ancestor that has one. -/
theorem findUpwards_nearest (p : Level → Bool) (chain : List Level) :
    match findUp p chain with
    | some n => (∃ l, chain[n]? = some l ∧ p l = true) ∧ ∀ m, m < n → ∀ l, chain[m]? = some l → p l = false
    | none => ∀ l ∈ chain, p l = false := by
  cases h : findUp p chain with
  | some n => exact findUp_spec p chain n h
  | none => exact findUp_none p chain h

/-- **findConfig_spec**: if a config file is returned it sits in a directory `n` such that no nearer
directory has a `.regal` directory or a `.regal.yaml` file — the closest ancestor wins, for chains of any
depth.  Both kinds in that directory is the conflict error. -/
theorem findConfig_spec (chain : List Level) :
    (∀ d, findConfig chain = .dirConfig d →
        (∃ l, chain[d]? = some l ∧ l.regalDir = true ∧ l.configYaml = true ∧ l.regalYaml = false) ∧
        ∀ m, m < d → ∀ l, chain[m]? = some l → l.regalDir = false ∧ l.regalYaml = false) ∧
    (∀ f, findConfig chain = .fileConfig f →
        (∃ l, chain[f]? = some l ∧ l.regalYaml = true ∧ l.regalDir = false) ∧
        ∀ m, m < f → ∀ l, chain[m]? = some l → l.regalDir = false ∧ l.regalYaml = false) := by
  unfold findConfig
  constructor
  · intro d h
    cases hd : findUp (·.regalDir) chain with
    | none => cases hf : findUp (·.regalYaml) chain <;> simp [hd, hf] at h
    | some d0 =>
      obtain ⟨⟨ld, hld, hpd⟩, hmind⟩ := findUp_spec _ chain d0 hd
      cases hf : findUp (·.regalYaml) chain with
      | none =>
        simp only [hd, hf] at h
        split at h
        · rename_i hc
          simp only [Found.dirConfig.injEq] at h; subst h
          have hnf := findUp_none _ chain hf
          rw [hld] at hc
          refine ⟨⟨ld, hld, hpd, by simpa using hc, hnf ld (List.mem_of_getElem? hld)⟩, ?_⟩
          intro m hm l hl
          exact ⟨hmind m hm l hl, hnf l (List.mem_of_getElem? hl)⟩
        · cases h
      | some f0 =>
        obtain ⟨⟨lf, hlf, hpf⟩, hminf⟩ := findUp_spec _ chain f0 hf
        simp only [hd, hf] at h
        split at h
        · cases h
        · split at h
          · cases h
          · rename_i hne hlt
            split at h
            · rename_i hc
              simp only [Found.dirConfig.injEq] at h; subst h
              rw [hld] at hc
              have hdf : d0 < f0 := by omega
              refine ⟨⟨ld, hld, hpd, by simpa using hc, hminf d0 hdf ld hld⟩, ?_⟩
              intro m hm l hl
              exact ⟨hmind m hm l hl, hminf m (by omega) l hl⟩
            · cases h
  · intro f h
    cases hd : findUp (·.regalDir) chain with
    | none =>
      cases hf : findUp (·.regalYaml) chain with
      | none => simp [hd, hf] at h
      | some f0 =>
        simp only [hd, hf, Found.fileConfig.injEq] at h; subst h
        obtain ⟨⟨lf, hlf, hpf⟩, hminf⟩ := findUp_spec _ chain f0 hf
        have hnd := findUp_none _ chain hd
        refine ⟨⟨lf, hlf, hpf, hnd lf (List.mem_of_getElem? hlf)⟩, ?_⟩
        intro m hm l hl
        exact ⟨hnd l (List.mem_of_getElem? hl), hminf m hm l hl⟩
    | some d0 =>
      obtain ⟨⟨ld, hld, hpd⟩, hmind⟩ := findUp_spec _ chain d0 hd
      cases hf : findUp (·.regalYaml) chain with
      | none =>
        simp only [hd, hf] at h
        split at h <;> cases h
      | some f0 =>
        obtain ⟨⟨lf, hlf, hpf⟩, hminf⟩ := findUp_spec _ chain f0 hf
        simp only [hd, hf] at h
        split at h
        · cases h
        · split at h
          · rename_i hne hlt
            simp only [Found.fileConfig.injEq] at h; subst h
            refine ⟨⟨lf, hlf, hpf, hmind f0 hlt lf hlf⟩, ?_⟩
            intro m hm l hl
            exact ⟨hmind m (by omega) l hl, hminf m hm l hl⟩
          · split at h <;> cases h

/-- both kinds in the nearest configured directory is an error of `FindConfig` -/
theorem conflict_is_error (chain : List Level) (n : Nat)
    (hd : findUp (·.regalDir) chain = some n) (hf : findUp (·.regalYaml) chain = some n) :
    findConfig chain = .errConflict := by
  simp [findConfig, hd, hf]

/-- **no config anywhere ⇒ user-level file, else defaults** -/
theorem fallback_chain (chain : List Level) (g : Bool) (h : ∀ l ∈ chain, l.regalDir = false ∧ l.regalYaml = false) :
    configUsed chain g = if g then .global else .defaults := by
  have hnone : ∀ (p : Level → Bool) (c : List Level), (∀ l ∈ c, p l = false) → findUp p c = none := by
    intro p c
    induction c with
    | nil => intro _; rfl
    | cons x rest ih =>
      intro hc
      simp only [findUp, hc x (by simp), Bool.false_eq_true, if_false, Option.map_eq_none_iff]
      exact ih fun l hl => hc l (by simp [hl])
  have h1 : findUp (·.regalDir) chain = none := hnone _ chain fun l hl => (h l hl).1
  have h2 : findUp (·.regalYaml) chain = none := hnone _ chain fun l hl => (h l hl).2
  simp [configUsed, findConfig, h1, h2]

/-- **recorded deviations (proved on the model, replayed on the binary; known findings)**:
(1) the conflict error is not surfaced by `regal lint`: the run silently continues with the user-level
file or the defaults;  (2) a nearer `.regal/` directory *without* config.yaml hides a farther, valid
`.regal.yaml` (again silently falling back). -/
theorem conflict_swallowed :
    configUsed [{ regalDir := true, configYaml := true, regalYaml := true }] false = .defaults := by decide

theorem empty_regal_dir_shadows :
    configUsed [{ regalDir := true, configYaml := false, regalYaml := false },
                { regalDir := false, configYaml := false, regalYaml := true }] false = .defaults := by decide

end RegalModel.ConfigFind

namespace RegalModel.ConfigMerge
open RegalModel.Kernel

/-- **merge_keeps_defaults**: every rule of the provided (default) configuration survives the merge. -/
theorem merge_keeps_defaults (prov : Provided) (u : UserCfg) (q : Glob.Str) (r : RuleId) (l : String)
    (h : (r, l) ∈ prov) : r ∈ (mergeCfg prov (some u) q).rules.map (·.1) := by
  simp only [mergeCfg, List.map_map]
  have : r ∈ ruleIds prov u := by
    unfold ruleIds
    exact List.mem_append_left _ (List.mem_map_of_mem (f := (·.1)) h)
  exact List.mem_map.2 ⟨r, this, rfl⟩

/-- **merge_only_overrides** (levels): a rule the user did not mention, in a category without default and
with no global default, keeps its provided level. -/
theorem merge_only_overrides (prov : Provided) (u : UserCfg) (r : RuleId) (pl : String)
    (hp : providedLevelByName prov r.2 = some pl) (hu : userRule u r = none)
    (hc : catDefault u r.1 = none) (hg : u.globalDefault = "") :
    selectedLevel prov u r (some pl) = pl := by
  simp [selectedLevel, hp, hu, hc, hg]

/-- the global ignore list is the user's when the user wrote one (the provided config has none) -/
theorem merge_ignore (prov : Provided) (u : UserCfg) (q : Glob.Str) :
    (mergeCfg prov (some u) q).ignoreFiles = u.ignoreFiles := rfl

end RegalModel.ConfigMerge
