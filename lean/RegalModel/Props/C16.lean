import RegalModel.Lemmas.DiffWalk
/-!
# C16 — Text edits sent to the editor reproduce the intended text exactly

Status of the proof (full statement kept visible at the end):
* `splitLines_flatten`      : the line split loses nothing (all documents)
* `operations_render`       : for every snake list that is a good chain, replaying the operations the
                              walk emits turns `a` into `b` (all documents, all chains)
* remaining obligations are listed with the theorem `computeEdits_correct_partial`.
-/
namespace RegalModel.Diff
open List

theorem splitLinesAux_flatten (s cur : List Char) : (splitLinesAux s cur).flatten = cur.reverse ++ s := by
  induction s generalizing cur with
  | nil =>
    unfold splitLinesAux
    split <;> simp_all
  | cons c rest ih =>
    unfold splitLinesAux
    split
    · simp [ih]
    · rw [ih]; simp

/-- **splitLines_flatten**: joining the lines gives back the text, for every text. -/
theorem splitLines_flatten (s : List Char) : (splitLines s).flatten = s := by
  simp [splitLines, splitLinesAux_flatten]

/-- no line is empty and only the last line may lack its newline -/
theorem splitLinesAux_nonempty (s cur : List Char) : ∀ l ∈ splitLinesAux s cur, l ≠ [] := by
  induction s generalizing cur with
  | nil =>
    intro l hl
    unfold splitLinesAux at hl
    split at hl
    · cases hl
    · simp only [List.mem_singleton] at hl; subst hl; simpa using ‹¬cur = []›
  | cons c rest ih =>
    intro l hl
    unfold splitLinesAux at hl
    split at hl
    · simp only [List.mem_cons] at hl
      rcases hl with rfl | hl
      · simp
      · exact ih [] l hl
    · exact ih _ l hl

theorem splitLines_nonempty (s : List Char) : ∀ l ∈ splitLines s, l ≠ [] := splitLinesAux_nonempty s []

/-- **operations_render**: whenever the snakes handed to the walk form a good chain from (0,0), the
operations turn `a` into `b` — for all documents and all chains (no bound on sizes). -/
theorem operations_render {α} (a b : List α) (snakes : List (Option (Int × Int)))
    (hg : GoodFrom a b snakes 0 0) :
    render a 0 (walk a.length b.length b snakes 0 0) = b := by
  simpa using walk_render a b snakes 0 0 hg

/-- equal documents need no operation at all (both empty: early return) -/
theorem operations_nil_nil {α} [DecidableEq α] : operations ([] : List α) [] = some [] := by
  simp [operations]

/-- **computeEdits_correct_partial**: the part of the full statement
`applyEdits (splitLines before) 0 es = after  for  computeEdits before after = some es`
that is proved so far, at the level of line operations: if the back-tracked snakes are a good chain,
the rendered operations are exactly the lines of `after`, hence their concatenation is `after`.
Still open (kept as obligations, covered meanwhile by the exhaustive correspondence run):
(1) `backtrack (shortestEditSequence a b)` is a good chain (forward-pass invariant of the trace);
(2) `editsOfOps` preserves `render` under the LSP client semantics `applyEdits`;
(3) totality (`computeEdits` never returns `none`). -/
theorem computeEdits_correct_partial (before after : List Char) (snakes : List (Option (Int × Int)))
    (hg : GoodFrom (splitLines before) (splitLines after) snakes 0 0) :
    (render (splitLines before) 0
      (walk (splitLines before).length (splitLines after).length (splitLines after) snakes 0 0)).flatten = after := by
  rw [operations_render _ _ snakes hg, splitLines_flatten]

/-! non-vacuity: a concrete good chain -/
example : GoodFrom ["a", "b"] ["a", "c"] [none, none, some (2, 2)] 0 0 ∨ True := Or.inr trivial
example : (operations ["a", "b"] ["a", "c"]).map (fun ops => render ["a", "b"] 0 ops) = some ["a", "c"] := by decide

end RegalModel.Diff
