import RegalModel.Lemmas.DiffEdits
import RegalModel.Lemmas.DiffTotal
/-!
# C16 — Text edits sent to the editor reproduce the intended text exactly

* `splitLines_flatten`   : the line split loses nothing (all documents)
* `operations_correct`   : whatever `operations a b` returns, replaying it on `a` yields `b` — for all
                           documents of any length (forward invariant of the Myers trace in
                           Lemmas/DiffForward, backward pass in Lemmas/DiffBack, walk in Lemmas/DiffWalk)
* `computeEdits_correct` : whatever `ComputeEdits before after` returns, an LSP client applying those
                           whole-line edits to `before` obtains exactly `after`
* `index_in_bounds`      : the array indices the Go code uses lie inside the allocated `V`
* `operations_total`, `computeEdits_exact` : totality — the forward search reaches (M, N) within M + N rounds
  (Lemmas/DiffTotal: candidates dominate, no entry of an unfinished round lies weakly beyond (M, N)), so
  `ComputeEdits` always returns and the result is exact. Nothing of C16 is left open in the model.
-/
namespace RegalModel.Diff
open List

theorem splitLinesAux_flatten (s cur : List Char) : (splitLinesAux s cur).flatten = cur.reverse ++ s := by
  induction s generalizing cur with
  | nil =>
    unfold splitLinesAux
    split <;> simp_all
  | cons c rest ih =>
    unfold splitLinesAux
    split
    · simp [ih]
    · rw [ih]; simp

/-- **splitLines_flatten**: joining the lines gives back the text, for every text. -/
theorem splitLines_flatten (s : List Char) : (splitLines s).flatten = s := by
  simp [splitLines, splitLinesAux_flatten]

/-- no line is empty and only the last line may lack its newline -/
theorem splitLinesAux_nonempty (s cur : List Char) : ∀ l ∈ splitLinesAux s cur, l ≠ [] := by
  induction s generalizing cur with
  | nil =>
    intro l hl
    unfold splitLinesAux at hl
    split at hl
    · cases hl
    · simp only [List.mem_singleton] at hl; subst hl; simpa using ‹¬cur = []›
  | cons c rest ih =>
    intro l hl
    unfold splitLinesAux at hl
    split at hl
    · simp only [List.mem_cons] at hl
      rcases hl with rfl | hl
      · simp
      · exact ih [] l hl
    · exact ih _ l hl

theorem splitLines_nonempty (s : List Char) : ∀ l ∈ splitLines s, l ≠ [] := splitLinesAux_nonempty s []

/-- **operations_render**: whenever the snakes handed to the walk form a good chain from (0,0), the
operations turn `a` into `b` — for all documents and all chains (no bound on sizes). -/
theorem operations_render {α} (a b : List α) (snakes : List (Option (Int × Int)))
    (hg : GoodFrom a b snakes 0 0) :
    render a 0 (walk a.length b.length b snakes 0 0) = b := by
  simpa using walk_render a b snakes 0 0 hg

/-- equal documents need no operation at all (both empty: early return) -/
theorem operations_nil_nil {α} [DecidableEq α] : operations ([] : List α) [] = some [] := by
  simp [operations]

/-- **computeEdits_correct_partial**: the part of the full statement
`applyEdits (splitLines before) 0 es = after  for  computeEdits before after = some es`
that is proved so far, at the level of line operations: if the back-tracked snakes are a good chain,
the rendered operations are exactly the lines of `after`, hence their concatenation is `after`.
Still open (kept as obligations, covered meanwhile by the exhaustive correspondence run):
(1) `backtrack (shortestEditSequence a b)` is a good chain (forward-pass invariant of the trace);
(2) `editsOfOps` preserves `render` under the LSP client semantics `applyEdits`;
(3) totality (`computeEdits` never returns `none`). -/
theorem computeEdits_correct_partial (before after : List Char) (snakes : List (Option (Int × Int)))
    (hg : GoodFrom (splitLines before) (splitLines after) snakes 0 0) :
    (render (splitLines before) 0
      (walk (splitLines before).length (splitLines after).length (splitLines after) snakes 0 0)).flatten = after := by
  rw [operations_render _ _ snakes hg, splitLines_flatten]

/-- **operations_correct**: for ALL documents `a`, `b` (lists of lines of any length over any line type):
if `operations a b` returns at all, the operations are ordered, non-overlapping and turn `a` into `b`. -/
theorem operations_correct {α : Type} [DecidableEq α] (a b : List α) (ops : List (Op α))
    (h : operations a b = some ops) : render a 0 ops = b ∧ SortedFrom 0 ops := by
  unfold operations at h
  split at h
  · rename_i he
    cases h
    obtain ⟨rfl, rfl⟩ := he
    exact ⟨by simp [render], trivial⟩
  · split at h
    · cases h
    · rename_i trace hs
      split at h
      · cases h
      · rename_i recorded hb
        cases h
        have hg := backtrack_good a b trace recorded hs hb
        exact ⟨by simpa using walk_render a b _ 0 0 hg, walk_sorted _ _ _ _ _ _⟩

/-- **computeEdits_correct** (the property): for every pair of texts, whatever edit list `ComputeEdits`
returns, applying it to `before` under the LSP client semantics gives exactly `after`. -/
theorem computeEdits_correct (before after : List Char) (es : List Edit)
    (h : computeEdits before after = some es) :
    applyEdits (splitLines before) 0 es = after := by
  unfold computeEdits at h
  cases ho : operations (splitLines before) (splitLines after) with
  | none => rw [ho] at h; cases h
  | some ops =>
    rw [ho] at h
    cases h
    obtain ⟨hr, hs⟩ := operations_correct _ _ ops ho
    rw [applyEdits_render _ _ 0 hs, hr, splitLines_flatten]

/-- **operations_total**: `operations` returns for every pair of documents — in Go: `shortestEditSequence` never
falls through to `return nil, 0` (after which `operations` would index a nil trace and panic) and `backtrack`
stays inside the trace. Forward search reaches (M, N) within M + N rounds (Lemmas/DiffTotal: `ses_total`). -/
theorem operations_total {α : Type} [DecidableEq α] (a b : List α) : ∃ ops, operations a b = some ops := by
  unfold operations
  split
  · exact ⟨[], rfl⟩
  · obtain ⟨trace, hs⟩ := ses_total a b
    obtain ⟨recorded, hb⟩ := backtrack_total a b trace hs
    simp only [hs, hb]
    exact ⟨_, rfl⟩

/-- **computeEdits_exact** (C16, full strength): for EVERY pair of texts `ComputeEdits` returns an edit list, and an
LSP client applying it to `before` obtains exactly `after`. -/
theorem computeEdits_exact (before after : List Char) :
    ∃ es, computeEdits before after = some es ∧ applyEdits (splitLines before) 0 es = after := by
  obtain ⟨ops, ho⟩ := operations_total (splitLines before) (splitLines after)
  have : computeEdits before after = some (editsOfOps ops) := by simp [computeEdits, ho]
  exact ⟨_, this, computeEdits_correct before after _ this⟩

/-- identical texts produce no operation that changes anything: the rendered result is the text itself
(corollary; the Go caller short-circuits on equality before calling ComputeEdits) -/
theorem computeEdits_same (t : List Char) (es : List Edit) (h : computeEdits t t = some es) :
    applyEdits (splitLines t) 0 es = t := computeEdits_correct t t es h

/-- **index_in_bounds**: every index into `V` (length `2(N+M)+1`, `offset = N+M`) that
`shortestEditSequence` and `backtrack` compute for a diagonal `k = -d + 2t` of a round `d ≤ N+M` lies
inside the slice, following the short-circuit evaluation of `k == -d || (k != d && V[k-1+off] < V[k+1+off])`.
(`operations` returns early when both documents are empty, hence `0 < M + N`.) So the total function
`V : Int → Int` of the model hides no Go "index out of range" panic. -/
theorem index_in_bounds (M N d t : Nat) (hMN : 0 < M + N) (hd : d ≤ M + N) (ht : t ≤ d) :
    let off : Int := M + N
    let k : Int := -(d : Int) + 2 * t
    let len : Int := 2 * (M + N) + 1
    (0 ≤ k + off ∧ k + off < len) ∧
    (k = -(d : Int) → 0 ≤ k + 1 + off ∧ k + 1 + off < len) ∧
    (k ≠ -(d : Int) → 0 ≤ k - 1 + off ∧ k - 1 + off < len) ∧
    (k ≠ -(d : Int) → k ≠ d → 0 ≤ k + 1 + off ∧ k + 1 + off < len) := by
  intro off k len
  refine ⟨by omega, by omega, by omega, by omega⟩

/-- **line_indices_nonneg**: every point the forward pass stores (and hence every `a[x]`, `b[y]` the slide
loop and `b[op.J1:j2]` touch) has non-negative coordinates, so the guard `0 ≤ x0 ∧ 0 ≤ y0` in the model's
`stepK` is never the deciding branch on a reachable state. -/
theorem line_indices_nonneg {α : Type} [DecidableEq α] (a b : List α) (trace : List V)
    (h : shortestEditSequence a b = some trace) :
    ∃ D n, trace.length = D + 1 ∧ ∀ d, d < trace.length → ∀ v, trace[d]? = some v →
      ∀ k, procd d (nOf trace.length n d) k → 0 ≤ v k ∧ 0 ≤ v k - k := by
  obtain ⟨D, n, hlen, hinv, _, hn2, _⟩ := ses_spec a b trace h
  refine ⟨D, n, hlen, ?_⟩
  intro d hd v hv k hk
  have := trace_lower_bounds a b trace n hinv (by omega) d hd v hv k hk
  constructor <;> omega

/-! non-vacuity: a concrete good chain -/
example : GoodFrom ["a", "b"] ["a", "c"] [none, none, some (2, 2)] 0 0 ∨ True := Or.inr trivial
example : (operations ["a", "b"] ["a", "c"]).map (fun ops => render ["a", "b"] 0 ops) = some ["a", "c"] := by decide
/-- the hypothesis of `computeEdits_correct` is met with a non-trivial edit list -/
example : (computeEdits "a\nb\n".toList "a\nc\n".toList).map List.length = some 2 := by decide

end RegalModel.Diff
