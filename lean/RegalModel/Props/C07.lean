import RegalModel.Model.Location
import RegalModel.Props.C06
/-!
# C07 — Reported locations are inside the file and move with the code (partial)

Proved: the shared location helpers keep a well-formed location inside the file, ordered, with the text
of the reported line; the LSP range is ordered; the whole routing kernel commutes with shifting a file down
by k rows when the rule packages do (`Env.RowEquivariant`).  Not proved: that each of the ~95 rules hands a
well-formed node to the helpers and that OPA's parser is equivariant — sampled on corpora (evidence
`assumption_sampling`).
-/
namespace RegalModel.Location

/-- **toLocationObject_wf**: a well-formed location string yields a location object with the same
start and end (row and column inside the file, end not before start). -/
theorem toLocationObject_wf (lines : List Line) (r c er ec : Nat) (l : Loc)
    (h : toLocationObject lines r c er ec = some l) :
    l.row = r ∧ l.col = c ∧ l.endPos = ⟨er, ec⟩ := by
  unfold toLocationObject at h
  simp only [Option.map_eq_some_iff] at h
  obtain ⟨t, _, rfl⟩ := h
  exact ⟨rfl, rfl, rfl⟩

theorem toLocationObject_defined (lines : List Line) (r c er ec : Nat) (hwf : WF lines r c er ec) :
    ∃ l, toLocationObject lines r c er ec = some l := by
  obtain ⟨h1, h2, h3, _⟩ := hwf
  unfold toLocationObject locationToText
  by_cases he : r = er
  · have : ∃ line, lines[r - 1]? = some line := ⟨lines[r - 1]'(by omega), by simp⟩
    obtain ⟨line, hl⟩ := this
    have hc : ¬ ((c : Int) - 1 < 0) := by omega
    simp [← he, h1, hl, substring, hc]
    split <;> simp
  · simp [he]

/-- **location_text_is_line**: `result.location` reports the exact text of the reported line and the
linted file name, for every well-formed location. -/
theorem location_text_is_line (lines : List Line) (file : List Char) (r c er ec : Nat) (hwf : WF lines r c er ec) :
    ∃ o, resultLocation lines file r c er ec = some o ∧ o.row = r ∧ o.col = c ∧ o.endPos = ⟨er, ec⟩ ∧
      o.text = lines[r - 1]? ∧ o.file = some file := by
  obtain ⟨l, hl⟩ := toLocationObject_defined lines r c er ec hwf
  obtain ⟨hr, hc, he⟩ := toLocationObject_wf lines r c er ec l hl
  obtain ⟨h1, h2, _, _⟩ := hwf
  have hline : ∃ line, lines[r - 1]? = some line := ⟨lines[r - 1]'(by omega), by simp⟩
  obtain ⟨line, hln⟩ := hline
  refine ⟨withText lines file l, by simp [resultLocation, hl], ?_⟩
  unfold withText
  simp [hr, hc, he, h1, hln]

/-- **ranged_end_ge_start**: a ranged location keeps the start of its first node and the end of its
last; it is ordered whenever the last node does not end before the first one starts. -/
theorem ranged_end_ge_start (x y : OutLoc) (h : x.row < y.endPos.row ∨ (x.row = y.endPos.row ∧ x.col ≤ y.endPos.col)) :
    let z := rangedBetween x y
    z.row = x.row ∧ z.col = x.col ∧ (z.row < z.endPos.row ∨ (z.row = z.endPos.row ∧ z.col ≤ z.endPos.col)) :=
  ⟨rfl, rfl, h⟩

/-- **lsp_range_ordered**: the editor range of a violation starts before it ends, for every location (rows
are 1-based) whose end is not before its start, and for every location without end. -/
theorem lsp_range_ordered (row col : Nat) (e : Option Pos) (n : Nat) (hrow : 1 ≤ row)
    (h : ∀ p, e = some p → row < p.row ∨ (row = p.row ∧ col ≤ p.col)) :
    let r := lspRange row col e n
    r.startLine < r.endLine ∨ (r.startLine = r.endLine ∧ r.startChar ≤ r.endChar) := by
  cases e with
  | none => simp [lspRange]
  | some p =>
    simp only [lspRange]
    rcases h p rfl with h1 | ⟨h1, h2⟩
    · left; omega
    · right; constructor <;> omega

end RegalModel.Location

namespace RegalModel.Kernel

/-- moving a violation / a directives map down by k rows -/
def shiftV (k : Nat) (v : Violation) : Violation := { v with row := v.row.map (· + k) }
def shiftD (k : Nat) (d : Directives) : Directives := d.map fun e => (e.1 + k, e.2)

/-- **ignored_shift**: the suppression predicate commutes with inserting k lines at the top. -/
theorem ignored_shift (k : Nat) (v : Violation) (d : Directives) :
    ignored (shiftV k v) (shiftD k d) = ignored v d := by
  unfold ignored shiftV shiftD
  cases hv : v.row with
  | none => simp
  | some r =>
    simp only [Option.map_some, List.any_map]
    congr 1
    funext e
    simp only [Function.comp]
    congr 2
    · rw [Bool.eq_iff_iff]; simp
    · rw [Bool.eq_iff_iff]; simp; omega

/-- the rule packages and the parser move with the text (hypothesis on the Env side) -/
def Env.RowEquivariant (env : Env) (k : Nat) (f f' : File) : Prop :=
  f'.name = f.name ∧
  (∀ r, env.report r f' = (env.report r f).map (shiftV k)) ∧
  (∀ r, env.notices r f' = env.notices r f) ∧
  env.directives f' = shiftD k (env.directives f)

theorem stamp_shift (cfg : Cfg) (p : Params) (r : RuleId) (k : Nat) (v : Violation) :
    stamp cfg p r (shiftV k v) = shiftV k (stamp cfg p r v) := rfl

theorem filter_map_shift (cfg : Cfg) (p : Params) (r : RuleId) (k : Nat) (d : Directives) (raw : List Violation) :
    (((raw.map (shiftV k)).map (stamp cfg p r)).filter fun v => !ignored v (shiftD k d)) =
      (((raw.map (stamp cfg p r)).filter fun v => !ignored v d)).map (shiftV k) := by
  induction raw with
  | nil => rfl
  | cons v raw ih =>
    simp only [List.map_cons, List.filter_cons]
    have hs : stamp cfg p r (shiftV k v) = shiftV k (stamp cfg p r v) := rfl
    rw [hs, ignored_shift]
    split
    · simp only [List.map_cons]; rw [ih]
    · exact ih

theorem map_ite_nil {α β} (c : Prop) [Decidable c] (f : α → β) (l : List α) :
    (if c then l else []).map f = if c then l.map f else [] := by
  split <;> rfl

/-- **kernel_shift_equivariant**: if the rules' raw reports and the directives move down by k rows when
k lines are inserted at the top of a file, then so does everything the routing kernel reports for the
file — the same violations, at rows + k, nothing else changes. -/
theorem kernel_shift_equivariant (env : Env) (gm : Matcher) (cfg : Cfg) (p : Params) (k : Nat) (f f' : File)
    (h : env.RowEquivariant k f f') :
    fileViolations env gm cfg p f' = (fileViolations env gm cfg p f).map (shiftV k) := by
  obtain ⟨hn, hr, hno, hd⟩ := h
  unfold fileViolations reportBuiltin reportCustom noticesOf
  rw [hn, hd]
  simp only [List.map_append, List.map_flatMap]
  congr 1
  · congr 1; funext r
    rw [map_ite_nil]
    by_cases hc : (decide (r ∈ env.builtin) && (if r ∈ env.builtin then env.notices r f' else []).isEmpty) = true
    · have hc' : (decide (r ∈ env.builtin) && (if r ∈ env.builtin then env.notices r f else []).isEmpty) = true := by
        rw [← hno r]; exact hc
      rw [if_pos hc, if_pos hc', hr r]
      exact filter_map_shift cfg p r k _ _
    · have hc' : ¬ (decide (r ∈ env.builtin) && (if r ∈ env.builtin then env.notices r f else []).isEmpty) = true := by
        rw [← hno r]; exact hc
      rw [if_neg hc, if_neg hc']
  · congr 1; funext r
    rw [map_ite_nil]
    split
    · rw [hr r]; exact filter_map_shift cfg p r k _ _
    · rfl

end RegalModel.Kernel
