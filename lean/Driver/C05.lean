import Driver.Util
import RegalModel.Model.Glob
open Lean RegalModel.Glob

namespace Driver.C05

/-- the matcher is a parameter of the model; the driver never needs it: it outputs pattern
lists and relativised names, and the harness applies the *real* gobwas matcher to them. -/
def handle (op : String) (j : Json) : Except String Json := do
  match op with
  | "c05.patterns" =>
    let p ← getChars j "pattern"
    -- `rego`: what `_pattern_compiler` returns; `goEff`/`regoEff`: the patterns that take part in
    -- `goFilterPaths` / `regoExclude` (none for the empty pattern, which both sides skip)
    return Json.mkObj [("rego", jstrs (regoPatterns p)),
                       ("goEff", jstrs (if p.isEmpty then [] else goPatterns p)),
                       ("regoEff", jstrs (if p.isEmpty then [] else regoPatterns p))]
  | "c05.rel" =>
    let f ← getChars j "file"
    let q ← getChars j "prefix"
    return Json.mkObj [("go", jstr (goRel f (goNormPrefix q))), ("rego", jstr (regoRel f q)),
                       ("regoCustom", jstr (regoRelCustom f q))]
  | _ => throw s!"unknown op {op}"

end Driver.C05
