import Lean.Data.Json
/-! JSON helpers for the line-protocol driver (core + Lean.Data.Json only). -/
open Lean

namespace Driver

abbrev Str := List Char

def getStr (j : Json) (k : String) : Except String String := do
  let v ← j.getObjVal? k
  v.getStr?

def getChars (j : Json) (k : String) : Except String Str := do
  return (← getStr j k).toList

def getNat (j : Json) (k : String) : Except String Nat := do
  let v ← j.getObjVal? k
  v.getNat?

def getInt (j : Json) (k : String) : Except String Int := do
  let v ← j.getObjVal? k
  v.getInt?

def getBool (j : Json) (k : String) : Except String Bool := do
  let v ← j.getObjVal? k
  v.getBool?

def getArr (j : Json) (k : String) : Except String (Array Json) := do
  let v ← j.getObjVal? k
  v.getArr?

def getStrList (j : Json) (k : String) : Except String (List String) := do
  let a ← getArr j k
  a.toList.mapM (·.getStr?)

def getCharsList (j : Json) (k : String) : Except String (List Str) := do
  return (← getStrList j k).map (·.toList)

def optStr (j : Json) (k : String) : Option String :=
  match j.getObjVal? k with
  | .ok (.str s) => some s
  | _ => none

def jstr (s : Str) : Json := Json.str (String.ofList s)
def jstrs (l : List Str) : Json := Json.arr (l.map jstr).toArray

end Driver
