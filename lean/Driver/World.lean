import RegalModel.Model.Kernel
/-!
The synthetic "marker world": an executable instance of `Env` that mirrors the marker-driven rules of
/verif/harness/synth (and the two real rules style/todo-comment, bugs/if-empty-object on the restricted
file grammar the generators use).  This is *modelled, not verified*: it stands for the rule packages
and OPA's parser on the other side of the Env boundary.
-/
namespace Driver.World
open RegalModel.Kernel RegalModel.Glob

def lines (content : String) : List String := content.splitOn "\n"

/-- index of the first '#' of a line (world lines never have '#' inside string literals) -/
def commentOf (line : String) : Option String :=
  match line.splitOn "#" with
  | [] => none
  | [_] => none
  | _ :: rest => some ("#".intercalate rest)

def codeOf (line : String) : String :=
  match line.splitOn "#" with
  | [] => ""
  | c :: _ => c

def hasSub (s sub : String) : Bool := (s.splitOn sub).length > 1

def isWs (c : Char) : Bool := c = ' ' || c = '\t' || c = '\n' || c = '\r' || c = '\x0c' || c = '\x0b'

def afterFirst (s sub : String) : Option String :=
  match s.splitOn sub with
  | [] => none
  | [_] => none
  | _ :: rest => some (sub.intercalate rest)

/-- `regex.find_n("[a-z0-9]+", s, 1)[0]` -/
def firstWord (s : String) : Option String :=
  let cs := s.toList.dropWhile fun c => !(c.isLower || c.isDigit)
  let w := cs.takeWhile fun c => c.isLower || c.isDigit
  if w.isEmpty then none else some (String.ofList w)

def rowsWith (f : File) (pred : String → Bool) : List Nat :=
  (((lines f.content).zipIdx).filter fun (l, _) => pred l).map fun (_, i) => i + 1

def mk (f : File) (row : Nat) : Violation :=
  { category := "", title := "", level := "", file := f.name, row := some row }

def todoText (t : String) : Bool :=
  let t := String.ofList (t.toList.dropWhile isWs)
  t.startsWith "todo" || t.startsWith "TODO" || t.startsWith "fixme" || t.startsWith "FIXME"

def markerRule (title : String) (f : File) : List Violation :=
  (rowsWith f fun l => hasSub l ("V:" ++ title)).map (mk f)

def report (r : RuleId) (f : File) : List Violation :=
  match r with
  | ("vcat", "rule-x") => markerRule "rule-x" f
  | ("vcat", "rule-y") => markerRule "rule-y" f
  | ("style", "todo-comment") =>
    (rowsWith f fun l => match commentOf l with | some t => todoText t | none => false).map (mk f)
  | ("style", "line-length") => (rowsWith f fun l => l.length > 120).map (mk f)
  | ("bugs", "if-empty-object") => (rowsWith f fun l => hasSub (codeOf l) "if {}").map (mk f)
  | ("idiomatic", "use-strings-count") => (rowsWith f fun l => hasSub (codeOf l) "count(indexof_n(").map (mk f)
  | _ => []

def aggEntries (kinds : List String) (f : File) : List Agg :=
  ((lines f.content).zipIdx).flatMap fun (l, i) =>
    kinds.filterMap fun k =>
      match afterFirst l (k ++ ":") with
      | none => none
      | some rest =>
        match firstWord rest with
        | none => none
        | some w => some { src := f.name, data := s!"{k}|{w}|{i + 1}" }

/-- `import data.<name>` lines of the world grammar: (row, name) -/
def importsOf (f : File) : List (Nat × String) :=
  ((lines f.content).zipIdx).filterMap fun (l, i) =>
    let c := (codeOf l).trimAscii.toString
    if c.startsWith "import data." then some (i + 1, (c.drop 12).toString) else none

def packageOf (f : File) : String :=
  match (lines f.content).find? fun l => l.startsWith "package " with
  | some l => (l.drop 8).trimAscii.toString
  | none => ""

/-- rows of rules annotated `# entrypoint: true` (annotation location = the `# METADATA` line) -/
def entryRows (f : File) : List Nat :=
  let ls := (lines f.content).toArray
  (List.range ls.size).filterMap fun i =>
    if ls[i]! = "# METADATA" && (ls[i+1]?).getD "" = "# entrypoint: true" then some (i + 1) else none

def aggregate (r : RuleId) (f : File) : List Agg :=
  match r with
  | ("vcat", "agg-x") => aggEntries ["HAVEX", "NEEDX"] f
  | ("imports", "unresolved-import") =>
    -- one entry per file: its imports (row:path) and its package
    let imps := (importsOf f).map fun (row, n) => s!"{row}:{n}"
    [{ src := f.name, data := "imports|" ++ ",".intercalate (imps.toArray.qsort (· < ·)).toList ++ "|" ++ packageOf f }]
  | ("idiomatic", "no-defined-entrypoint") => (entryRows f).map fun row => { src := f.name, data := s!"entry|{row}" }
  -- "ghost" rules: real aggregate rules that always collect one entry per file (their reports are not
  -- predicted; only the presence of their keys matters for `len(allAggregates) > 0`)
  | ("imports", "prefer-package-imports") => [{ src := f.name, data := "ghost" }]
  | ("bugs", "impossible-not") => [{ src := f.name, data := "ghost" }]
  | ("custom", "missing-metadata") => [{ src := f.name, data := "ghost" }]
  | ("imports", "circular-import") => if (importsOf f).isEmpty then [] else [{ src := f.name, data := "ghost" }]
  | _ => []

def aggParts (a : Agg) : (String × String × Nat) :=
  match a.data.splitOn "|" with
  | [k, n, r] => (k, n, r.toNat!)
  | _ => ("", "", 0)

def needReport (haveK need : String) (aggs : List Agg) : List Violation :=
  let haves := (aggs.filter fun a => (aggParts a).1 = haveK).map fun a => (aggParts a).2.1
  ((aggs.filter fun a => (aggParts a).1 = need && !haves.contains (aggParts a).2.1).map fun a =>
    ({ category := "", title := "", level := "", file := a.src, row := some (aggParts a).2.2 } : Violation)).eraseDups

def noLoc : Violation := { category := "", title := "", level := "", file := [], row := none }

def unresolved (aggs : List Agg) : List Violation :=
  let parsed := aggs.map fun a =>
    match a.data.splitOn "|" with
    | [_, imps, pkg] => (a.src, (if imps = "" then [] else imps.splitOn ","), pkg)
    | _ => (a.src, [], "")
  let known := parsed.map fun (_, _, pkg) => pkg
  (parsed.flatMap fun (src, imps, _) =>
    imps.filterMap fun e =>
      match e.splitOn ":" with
      | [row, name] =>
        if known.contains name then none
        else some ({ category := "", title := "", level := "", file := src, row := some row.toNat! } : Violation)
      | _ => none).eraseDups

def aggReport (r : RuleId) (aggs : List Agg) : List Violation :=
  match r with
  | ("vcat", "agg-x") => (if aggs.isEmpty then [noLoc] else []) ++ needReport "HAVEX" "NEEDX" aggs
  | ("imports", "unresolved-import") => unresolved aggs
  | ("idiomatic", "no-defined-entrypoint") => if aggs.isEmpty then [noLoc] else []
  | _ => []

/-- `ast.ignore_directives` on the world grammar -/
def directives (f : File) : Directives :=
  ((lines f.content).zipIdx).filterMap fun (l, i) =>
    match commentOf l with
    | none => none
    | some t =>
      let t := t.trimAscii.toString
      match afterFirst t "regal ignore:" with
      | none => none
      | some rest =>
        let list := String.ofList (rest.toList.filter fun c => !isWs c)
        some (i + 2, list.splitOn ",")

/-- `noStringsCount`: the target capabilities lack the built-in `strings.count` -/
def env (noStringsCount : Bool) : Env :=
  { builtin := [("style", "todo-comment"), ("style", "line-length"), ("bugs", "if-empty-object"),
                ("idiomatic", "use-strings-count"), ("imports", "unresolved-import"),
                ("idiomatic", "no-defined-entrypoint"), ("imports", "prefer-package-imports"),
                ("bugs", "impossible-not"), ("custom", "missing-metadata"), ("imports", "circular-import")]
    custom := [("vcat", "rule-x"), ("vcat", "rule-y"), ("vcat", "agg-x")]
    report := report
    notices := fun r _ =>
      if r = ("idiomatic", "use-strings-count") && noStringsCount then
        [{ category := "idiomatic", title := "use-strings-count", severity := "warning" }]
      else []
    hasAggregate := fun r => r = ("imports", "unresolved-import") || r = ("idiomatic", "no-defined-entrypoint")
                             || r = ("vcat", "agg-x") || r = ("imports", "prefer-package-imports")
                             || r = ("bugs", "impossible-not") || r = ("custom", "missing-metadata")
                             || r = ("imports", "circular-import")
    aggregate := aggregate
    aggReport := aggReport
    directives := directives }

end Driver.World
