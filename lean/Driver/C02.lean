import Driver.Util
import RegalModel.Model.Walk
open Lean RegalModel.Walk

namespace Driver.C02

partial def parseNode (j : Json) : Node :=
  let name := (optStr j "name").getD ""
  match j.getObjVal? "children" with
  | .ok (.arr kids) => .dir name (kids.toList.map parseNode)
  | _ => .file name

/-- `os.Stat(filepath.Join(root, arg))` in the forest -/
partial def lookup (forest : List Node) (comps : List String) : Option Node :=
  match comps with
  | [] => none
  | [c] => forest.find? fun n => n.name = c
  | c :: rest =>
    match forest.find? fun n => n.name = c with
    | some (.dir _ kids) => lookup kids rest
    | _ => none

/-- directory entries are visited in lexical order -/
partial def sortNode : Node → Node
  | .file n => .file n
  | .dir n kids => .dir n ((kids.map sortNode).toArray.qsort (fun a b => a.name < b.name)).toList

def handle (op : String) (j : Json) : Except String Json := do
  match op with
  | "c02.walk" =>
    let roots := ((← getArr j "roots").toList.map parseNode).map sortNode
    let args ← getStrList j "args"
    let resolved := args.map fun a => (a, lookup roots ((a.splitOn "/").filter (· ≠ "")))
    match walkArgs resolved with
    | none => return Json.str "error"
    | some l => return Json.arr (l.map Json.str).toArray
  | _ => throw s!"unknown op {op}"

end Driver.C02
