import Driver.Util
import RegalModel.Model.Report
open Lean RegalModel.Report

namespace Driver.C10

def parseV (j : Json) : V :=
  { file := (optStr j "file").getD "", row := (getNat j "row").toOption.getD 0, col := (getNat j "col").toOption.getD 0,
    title := (optStr j "title").getD "", level := (optStr j "level").getD "" }

def jrec (v : V) : Json := Json.arr #[.str v.file, (v.row : Json), (v.col : Json), .str v.title, .str v.level]

/-- `slices.Sort` stand-in for the driver (insertion sort on strings) -/
def sortStrings (l : List String) : List String := (l.toArray.qsort (· < ·)).toList

def handle (op : String) (j : Json) : Except String Json := do
  match op with
  | "c10.exit" =>
    let levels ← getStrList j "levels"
    let fl := if (optStr j "failLevel").getD "error" = "warning" then FailLevel.warning else FailLevel.error
    let failed := (getBool j "failed").toOption.getD false
    return Json.mkObj [("code", exitCode fl levels failed)]
  | "c10.render" =>
    let vs := (← getArr j "violations").toList.map parseV
    let fmt ← getStr j "format"
    let recs := if fmt = "junit" then recordsJUnit sortStrings vs else recordsLinear vs
    return Json.mkObj [("records", Json.arr (recs.map jrec).toArray)]
  | _ => throw s!"unknown op {op}"

end Driver.C10
