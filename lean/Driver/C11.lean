import Driver.Util
import RegalModel.Model.TextFix
open Lean RegalModel.TextFix

namespace Driver.C11

def splitNl (s : String) : List Line := (s.splitOn "\n").map (·.toList)
def joinNl (l : List Line) : String := "\n".intercalate (l.map String.ofList)

def handle (op : String) (j : Json) : Except String Json := do
  match op with
  | "c11.textfix" =>
    let contents ← getStr j "contents"
    let row ← getNat j "row"
    let col ← getNat j "col"
    let f : Line → Nat → Option Line := match (optStr j "fix").getD "" with
      | "useAssign" => useAssign
      | "noWs" => noWs
      | _ => nonRaw
    match fixAt f (splitNl contents) row col with
    | none => return Json.mkObj [("changed", false)]
    | some ls => return Json.mkObj [("changed", true), ("contents", joinNl ls)]
  | _ => throw s!"unknown op {op}"

end Driver.C11
