import Driver.Util
import RegalModel.Model.Diff
open Lean RegalModel.Diff

namespace Driver.C16

def handle (op : String) (j : Json) : Except String Json := do
  match op with
  | "c16.edits" =>
    let before := (← getStr j "before").toList
    let after := (← getStr j "after").toList
    let a := splitLines before
    let b := splitLines after
    match operations a b with
    | none => return Json.mkObj [("none", true)]
    | some ops =>
      let es := editsOfOps ops
      let jops := ops.map fun o => Json.mkObj [("kind", (match o.kind with | .delete => (0 : Nat) | .insert => 1)),
        ("i1", o.i1), ("i2", o.i2), ("j1", o.j1), ("content", Json.arr (o.content.map jstr).toArray)]
      return Json.mkObj [
        ("edits", Json.arr (es.map fun e => Json.arr #[(e.l1 : Json), (0 : Nat), (e.l2 : Json), (0 : Nat), jstr e.text]).toArray),
        ("applied", jstr (applyEdits a 0 es)),
        ("ops", Json.arr jops.toArray),
        ("lines", jstrs a)]
  | _ => throw s!"unknown op {op}"

end Driver.C16
