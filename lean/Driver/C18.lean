import Driver.Util
import RegalModel.Model.ConfigFind
open Lean RegalModel.ConfigFind

namespace Driver.C18

def boolOr (j : Json) (k : String) : Bool := match getBool j k with | .ok b => b | .error _ => false

def jfound : Found → Json
  | .dirConfig d => Json.mkObj [("kind", "dir"), ("depth", d)]
  | .fileConfig d => Json.mkObj [("kind", "file"), ("depth", d)]
  | .errConflict => "errConflict"
  | .errMissing => "errMissing"
  | .errNotFound => "errNotFound"

def handle (op : String) (j : Json) : Except String Json := do
  match op with
  | "c18.find" =>
    let levels := (← getArr j "levels").toList.map fun l =>
      ({ regalDir := boolOr l "regalDir", configYaml := boolOr l "configYaml", regalYaml := boolOr l "regalYaml" } : Level)
    let used := match configUsed levels (boolOr j "global") with
      | .found f => jfound f
      | .global => "global"
      | .defaults => "defaults"
      | .error => "error"
    -- specification: nearest level with a usable config; both kinds there is an error
    let spec : Json := match levels.findIdx? hasConfig with
      | none => if boolOr j "global" then "global" else "defaults"
      | some i => match levels[i]? with
        | some l => if l.regalDir && l.configYaml && l.regalYaml then "error"
                    else if l.regalYaml then Json.mkObj [("kind", "file"), ("depth", i)]
                    else Json.mkObj [("kind", "dir"), ("depth", i)]
        | none => "error"
    return Json.mkObj [("find", jfound (findConfig levels)), ("used", used), ("spec", spec)]
  | _ => throw s!"unknown op {op}"

end Driver.C18
