import Driver.Util
import Driver.Kernel
import RegalModel.Props.C04
open Lean RegalModel.Kernel RegalModel.ConfigMerge RegalModel.C04

namespace Driver.C04

def jdec (d : Decision) : Json :=
  match d with
  | .off => Json.mkObj [("ignored", true)]
  | .on l => Json.mkObj [("ignored", false), ("level", l)]

def handle (op : String) (j : Json) : Except String Json := do
  match op with
  | "c04.fn" =>
    -- model of config.rego on (params, merged level of the rule) ; spec = README chain
    let p := Driver.Kernel.parseParams j
    let c ← getStr j "c"
    let t ← getStr j "t"
    let lvl := optStr j "mlevel"
    let cfg : Cfg := { rules := match lvl with
                                | some l => [((c, t), { level := some l })]
                                | none => (if Driver.Kernel.boolOr j "inConfig" then [((c, t), { level := none })] else []) }
    return Json.mkObj [
      ("model", Json.mkObj [("ignored", ignoredRule cfg p (c, t)), ("level", levelForRule cfg p (c, t))]),
      ("spec", jdec (Spec.cli p c t lvl))]
  | "c04.merge" =>
    let prov := Driver.Kernel.parseProvided j
    let u := Driver.Kernel.parseUser j
    let rules := Driver.Kernel.strsOr j "rules"
    let cfg := mergeCfg prov u []
    let out := rules.map fun k =>
      match k.splitOn "/" with
      | [c, t] =>
        let spec := match u with
          | none => (prov.lookup (c, t)).getD "error"
          | some uc => Spec.configLevel (((userRule uc (c, t)).map (·.level)).getD "") ((catDefault uc c).getD "")
                          uc.globalDefault ((prov.lookup (c, t)).getD "error")
        (k, Json.mkObj [("model", match cfg.levelOf (c, t) with | some l => Json.str l | none => Json.null),
                         ("spec", Json.str spec)])
      | _ => (k, Json.null)
    return Json.mkObj out
  | _ => throw s!"unknown op {op}"

end Driver.C04
