import Driver.Util
import RegalModel.Model.Directive
open Lean RegalModel.Directive

namespace Driver.C06

def handle (op : String) (j : Json) : Except String Json := do
  match op with
  | "c06.names" =>
    let text ← getStr j "text"
    match names text.toList with
    | none => return Json.null
    | some ns => return Json.arr (ns.map fun n => Json.str (String.ofList n)).toArray
  | _ => throw s!"unknown op {op}"

end Driver.C06
