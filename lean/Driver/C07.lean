import Driver.Util
import RegalModel.Model.Location
open Lean RegalModel.Location

namespace Driver.C07

def handle (op : String) (j : Json) : Except String Json := do
  match op with
  | "c07.loc" =>
    let lines := (← getStrList j "lines").map (·.toList)
    let file := (← getStr j "file").toList
    let loc ← getStr j "loc"
    match (loc.splitOn ":").map (·.toNat?) with
    | [some r, some c, some er, some ec] =>
      match resultLocation lines file r c er ec with
      | none => return Json.mkObj [("undefined", true)]
      | some o =>
        let base : List (String × Json) := [("row", o.row), ("col", o.col),
          ("end", Json.mkObj [("row", o.endPos.row), ("col", o.endPos.col)])]
        let t := match o.text with | some t => [("text", jstr t)] | none => []
        let f := match o.file with | some f => [("file", jstr f)] | none => []
        return Json.mkObj [("location", Json.mkObj (base ++ t ++ f))]
    | _ => return Json.mkObj [("undefined", true)]
  | "c07.lsprange" =>
    let row ← getNat j "row"
    let col ← getNat j "col"
    let e : Option Pos := match j.getObjVal? "end" with
      | .ok (Json.arr a) => match a.toList.map (fun x => x.getNat?.toOption) with
        | [some r, some c] => some { row := r, col := c }
        | _ => none
      | _ => none
    let n := match j.getObjVal? "text" with
      | .ok (Json.str t) => t.utf8ByteSize     -- Go: len(*item.Location.Text) counts bytes
      | _ => 0
    let r := lspRange row col e n
    return Json.arr #[r.startLine, r.startChar, r.endLine, r.endChar]
  | _ => throw s!"unknown op {op}"

end Driver.C07
