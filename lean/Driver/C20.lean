import Driver.Util
import RegalModel.Model.Version
open Lean RegalModel.Version

namespace Driver.C20

def comps (s : String) : List Str :=
  ((s.splitOn "/").filter fun c => c ≠ "" && c ≠ ".").map (·.toList)

def verOfJson (j : Json) : Option Ver :=
  match j with
  | .num n => if n == (0 : JsonNumber) then some .v0 else if n == (1 : JsonNumber) then some .v1 else some .undefined
  | _ => none

def verName : Ver → String
  | .v0 => "v0" | .v1 => "v1" | .undefined => "undefined"

def kvs (j : Json) : List (String × Json) := match j with | .obj o => o.toList | _ => []

/-- directory components of a file name; `none` when the name is relative (does not start with "/") -/
def dirOf (file : String) : Option (List Str) :=
  if file.startsWith "/" then some (comps file).dropLast else none

def handle (op : String) (j : Json) : Except String Json := do
  match op with
  | "c20.lookup" =>
    let vs := kvs ((j.getObjVal? "versions").toOption.getD (Json.mkObj []))
    let entries := vs.filterMap fun (k, v) => (verOfJson v).map fun x => (comps k, x)
    let file ← getStr j "file"
    let r := match dirOf file with
      | some d => (lookup entries d .undefined, specLookup entries d .undefined)
      | none => (lookupRelative entries .undefined, Ver.undefined)
    return Json.mkObj [("model", verName r.1), ("spec", verName r.2)]
  | "c20.tree" =>
    -- manifests: {dir: ver}, project: ver|null, roots: [[path, ver|null]], files: [relative names]
    let man := (kvs ((j.getObjVal? "manifests").toOption.getD (Json.mkObj []))).filterMap fun (k, v) =>
      (verOfJson v).map fun x => (comps k, x)
    let project := (j.getObjVal? "project").toOption.bind verOfJson
    let roots := match getArr j "roots" with
      | .ok a => a.toList.filterMap fun r =>
          match r with
          | .arr #[.str p, v] => (verOfJson v).map fun x => (comps p, x)
          | _ => none
      | .error _ => []
    let all := allVersions man project roots
    let files ← getStrList j "files"
    let out := files.map fun f => (f, Json.str (verName (lookup all (comps f).dropLast .undefined)))
    return Json.mkObj [("files", Json.mkObj out),
                       ("versionsMap", Json.mkObj (all.map fun (k, v) => ("/".intercalate (k.map String.ofList), Json.str (verName v))))]
  | _ => throw s!"unknown op {op}"

end Driver.C20
