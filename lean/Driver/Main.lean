import Driver.Util
import Driver.C05
import Driver.Kernel
import Driver.C04
import Driver.C07
import Driver.C11
import Driver.C18
import Driver.C16
import Driver.C13
import Driver.C14
import Driver.C10
import Driver.C20
import Driver.C02
import Driver.C19
import Driver.C06
open Lean

namespace Driver

def dispatch (op : String) (j : Json) : Except String Json :=
  if op.startsWith "c05." then C05.handle op j
  else if op.startsWith "kernel." then Kernel.handle op j
  else if op.startsWith "c04." then C04.handle op j
  else if op.startsWith "c07." then C07.handle op j
  else if op.startsWith "c11." then C11.handle op j
  else if op.startsWith "c18." then C18.handle op j
  else if op.startsWith "c16." then C16.handle op j
  else if op.startsWith "c13." then C13.handle op j
  else if op.startsWith "c14." then C14.handle op j
  else if op.startsWith "c10." then C10.handle op j
  else if op.startsWith "c20." then C20.handle op j
  else if op.startsWith "c02." then C02.handle op j
  else if op.startsWith "c19." then C19.handle op j
  else if op.startsWith "c06." then C06.handle op j
  else throw s!"unknown op {op}"

def handleLine (line : String) : String :=
  match Json.parse line with
  | .error e => (Json.mkObj [("err", Json.str s!"parse: {e}")]).compress
  | .ok j =>
    let id := (j.getObjVal? "id").toOption.getD Json.null
    match (do let op ← getStr j "op"; dispatch op j) with
    | .ok out => (Json.mkObj [("id", id), ("out", out)]).compress
    | .error e => (Json.mkObj [("id", id), ("err", Json.str e)]).compress

partial def loop (h : IO.FS.Stream) (out : IO.FS.Stream) : IO Unit := do
  let line ← h.getLine
  if line.isEmpty then return ()
  let l := line.trimAscii.toString
  if !l.isEmpty then
    out.putStrLn (handleLine l)
  loop h out

end Driver

def main : IO Unit := do
  let stdin ← IO.getStdin
  let stdout ← IO.getStdout
  Driver.loop stdin stdout
  stdout.flush
