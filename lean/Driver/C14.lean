import Driver.Util
import RegalModel.Model.GitGuard
open Lean RegalModel.GitGuard

namespace Driver.C14

def pathOf (s : String) : Path := (s.splitOn "/").filter (· ≠ "")

def handle (op : String) (j : Json) : Except String Json := do
  match op with
  | "c14.guard" =>
    let paths (k : String) : List Path := match getStrList j k with | .ok l => l.map pathOf | .error _ => []
    let gitDirs := paths "gitDirs"                    -- directories that contain a .git directory
    let argDir := pathOf ((optStr j "argDir").getD "")  -- directory the upward walk starts from (absolute form)
    let stop := pathOf ((optStr j "walkStop").getD "")  -- relative arguments stop at the working directory
    -- walk upwards from argDir but not above `stop` (stop = [] for absolute arguments)
    let hasGit := fun (r : List String) => gitDirs.contains r.reverse && stop.isPrefixOf r.reverse
    let argDirs := paths "argDirs"                    -- several path arguments (absolute)
    let walk := if argDirs.isEmpty then findRepo hasGit argDir.reverse
                else findRepoMulti hasGit (argDirs.map List.reverse)
    let g : GuardIn := { dryRun := (getBool j "dryRun").toOption.getD false, force := (getBool j "force").toOption.getD false,
                         repo := walk.map List.reverse, status := paths "status", modified := paths "modified",
                         deleted := paths "deleted" }
    let o := match guard g with | .refuse => "refuse" | .dry => "dry" | .write => "write"
    return Json.mkObj [("outcome", o), ("repo", match g.repo with | some r => Json.str ("/" ++ "/".intercalate r) | none => Json.null)]
  | _ => throw s!"unknown op {op}"

end Driver.C14
