import Driver.Util
import RegalModel.Model.Cleanup
import RegalModel.Model.FileProvider
open Lean RegalModel.FileProvider

namespace Driver.C13

def kvs (j : Json) : List (String × Json) := match j with | .obj o => o.toList | _ => []

def sortS (l : List String) : List String := (l.toArray.qsort (· < ·)).toList

/-- parse `dir/stem[_N][_test].ext` the way renameCandidate does -/
def parseName (s : String) : RegalModel.FileProvider.Name :=
  let parts := s.splitOn "/"
  let baseWithExt := parts.getLast!
  let dir := "/".intercalate parts.dropLast
  -- filepath.Ext: from the last '.' of the last element
  let (base, ext) :=
    match (baseWithExt.splitOn ".") with
    | [b] => (b, "")
    | l => (".".intercalate l.dropLast, "." ++ l.getLast!)
  let (base, test) := if base.endsWith "_test" then ((base.dropEnd 5).toString, true) else (base, false)
  let us := base.splitOn "_"
  let last := us.getLast!
  if us.length ≥ 2 && last.length > 0 && last.all Char.isDigit then
    -- strconv.Atoi overflows to an error for > MaxInt64: the code then uses 0
    let v := last.toNat!
    let v := if v > 9223372036854775807 then 0 else v
    { dir := dir, stem := "_".intercalate us.dropLast, counter := some v, test := test, ext := ext }
  else
    { dir := dir, stem := base, counter := none, test := test, ext := ext }

def renderName (n : RegalModel.FileProvider.Name) : String :=
  let b := n.stem ++ (match n.counter with | some k => "_" ++ toString k | none => "") ++ (if n.test then "_test" else "") ++ n.ext
  if n.dir = "" then b else n.dir ++ "/" ++ b

def relPath (s : String) : List String := "w" :: (s.splitOn "/").filter (· ≠ "")

def handle (op : String) (j : Json) : Except String Json := do
  match op with
  | "c13.cleanup" =>
    let files ← getStrList j "files"
    let dirs ← getStrList j "dirs"
    let preserve ← getStrList j "preserve"
    let target ← getStr j "target"
    let fs : RegalModel.Cleanup.FS := { files := files.map relPath, dirs := dirs.map relPath }
    let res := RegalModel.Cleanup.dirCleanUpPaths fs (relPath target) (preserve.map relPath)
    return Json.arr (res.map fun p => Json.str ("/".intercalate (p.drop 1))).toArray
  | "c13.provider" =>
    let init := (kvs ((j.getObjVal? "files").toOption.getD (Json.mkObj []))).filterMap fun (k, v) =>
      v.getStr?.toOption.map fun c => (k, c)
    let ops := (← getArr j "ops").toList
    let mut p := load init
    let mut results : Array Json := #[]
    for o in ops do
      match optStr o "k" with
      | some "put" =>
        let f := (optStr o "f").getD ""
        if p.has f then
          p := p.putContent f ((optStr o "c").getD "")
          results := results.push "ok"
        else results := results.push "skip"
      | some "rename" =>
        let s := (optStr o "s").getD ""
        let d := (optStr o "d").getD ""
        match p.rename s d with
        | some q => p := q; results := results.push "ok"
        | none => results := results.push (if (p.get s).isNone then "error" else "conflict")
      | _ => pure ()
    let files := (p.files.map fun e => (e.path, e.content)).toArray.qsort (fun a b => a.1 < b.1)
    return Json.mkObj [("files", Json.arr (files.map fun (a, b) => Json.arr #[.str a, .str b])),
                       ("modified", Json.arr ((sortS p.modified).map Json.str).toArray),
                       ("deleted", Json.arr ((sortS p.deleted).map Json.str).toArray),
                       ("results", Json.arr results),
                       ("origins", Json.arr ((sortS (p.files.map (·.origin))).map Json.str).toArray)]
  | "c13.candidate" =>
    let name ← getStr j "name"
    let k ← getNat j "iter"
    let n := parseName name
    -- the string function is re-applied to its own output: re-parse each time, as the code does
    let rec go (cur : String) : Nat → List String
      | 0 => []
      | i + 1 => let nx := renderName (candidate (parseName cur)); nx :: go nx i
    let _ := n
    return Json.arr ((go name k).map Json.str).toArray
  | "c13.root" =>
    let path := ((← getStr j "path").splitOn "/").filter (· ≠ "")
    let roots := (← getStrList j "roots").map fun r => (r.splitOn "/").filter (· ≠ "")
    match closestRoot roots path with
    | some r => return Json.str ("/" ++ "/".intercalate r)
    | none => return Json.str ""
  | _ => throw s!"unknown op {op}"

end Driver.C13
