import Driver.Util
import RegalModel.Model.Caps
open Lean RegalModel.Caps

namespace Driver.C19

/-- the default capabilities contain these of the probed names (the harness probes only names whose
presence in the default set is fixed: real built-ins are there, `verif.*` are not) -/
def defaultHas (n : String) : Bool := !(n.startsWith "verif.")

def handle (op : String) (j : Json) : Except String Json := do
  match op with
  | "c19.resolve" =>
    let minus ← getStrList j "minus"
    let plus ← getStrList j "plus"
    let probe ← getStrList j "probe"
    let base : Caps := { builtins := probe.filter defaultHas, futureKeywords := [], features := [] }
    let r := resolve base minus plus
    return Json.mkObj (probe.map fun n => (n, Json.bool (hasBuiltin r n)))
  | "c19.gating" =>
    let c : Caps := { builtins := ← getStrList j "builtins", futureKeywords := ← getStrList j "futureKeywords",
                      features := ← getStrList j "features" }
    return Json.arr ((mustSkip c).map fun r => Json.arr #[Json.str r.1, Json.str r.2]).toArray
  | _ => throw s!"unknown op {op}"

end Driver.C19
