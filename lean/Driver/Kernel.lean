import Driver.Util
import Driver.World
import RegalModel.Model.ConfigMerge
open Lean RegalModel.Kernel RegalModel.ConfigMerge RegalModel.Glob

namespace Driver.Kernel

def strsOr (j : Json) (k : String) : List String :=
  match getStrList j k with | .ok l => l | .error _ => []

def boolOr (j : Json) (k : String) : Bool :=
  match getBool j k with | .ok b => b | .error _ => false

def objOf (j : Json) (k : String) : Option Json :=
  match j.getObjVal? k with
  | .ok (.obj o) => some (.obj o)
  | _ => none

def kvs (j : Json) : List (String × Json) :=
  match j with
  | .obj o => o.toList
  | _ => []

def parseParams (j : Json) : Params :=
  match objOf j "params" with
  | none => {}
  | some p =>
    { disable := strsOr p "disable", enable := strsOr p "enable",
      disableCategory := strsOr p "disableCategory", enableCategory := strsOr p "enableCategory",
      disableAll := boolOr p "disableAll", enableAll := boolOr p "enableAll",
      ignoreFiles := (strsOr p "ignoreFiles").map (·.toList) }

def levelOfObj (j : Json) : String := (optStr j "level").getD ""

def parseUser (j : Json) : Option UserCfg :=
  match objOf j "user" with
  | none => none
  | some u =>
    let rulesJ := (objOf u "rules").getD (Json.mkObj [])
    let glob := match objOf rulesJ "default" with | some d => levelOfObj d | none => ""
    let cats := (kvs rulesJ).filter fun (k, _) => k ≠ "default"
    let catDefaults := cats.filterMap fun (c, cj) =>
      match objOf cj "default" with | some d => some (c, levelOfObj d) | none => none
    let rules := cats.flatMap fun (c, cj) =>
      ((kvs cj).filter fun (t, _) => t ≠ "default").map fun (t, rj) =>
        ((c, t), ({ level := levelOfObj rj,
                    ignoreFiles := match objOf rj "ignore" with
                      | some ig => (strsOr ig "files").map (·.toList) | none => [] } : UserRule))
    let ign := match objOf u "ignore" with | some ig => (strsOr ig "files").map (·.toList) | none => []
    some { rules := rules, catDefaults := catDefaults, globalDefault := glob, ignoreFiles := ign }

def parseProvided (j : Json) : Provided :=
  match objOf j "provided" with
  | none => []
  | some p => (kvs p).filterMap fun (k, v) =>
      match k.splitOn "/", v with
      | [c, t], .str l => some ((c, t), l)
      | _, _ => none

def parseFiles (j : Json) : List File :=
  match getArr j "files" with
  | .error _ => []
  | .ok a => a.toList.filterMap fun f =>
      match getStr f "name", getStr f "content" with
      | .ok n, .ok c => some { name := n.toList, content := c }
      | _, _ => none

def parseOverridden (j : Json) : List (String × List Agg) :=
  match objOf j "overridden" with
  | none => []
  | some o => (kvs o).map fun (k, v) =>
      (k, match v with
          | .arr a => a.toList.filterMap fun e =>
              match objOf e "aggregate_source", objOf e "aggregate_data" with
              | some s, some d =>
                let fld (k : String) : String := match d.getObjVal? k with
                  | .ok (.str x) => x | .ok (.num n) => toString n | _ => "None"
                let src := ((optStr s "file").getD "").toList
                match d.getObjVal? "imports", d.getObjVal? "entrypoint" with
                | .ok (.arr imps), _ =>
                  let l := imps.toList.filterMap fun im =>
                    match objOf im "location", im.getObjVal? "path" with
                    | some loc, .ok (.arr ps) =>
                      let row := match loc.getObjVal? "row" with | .ok (.num n) => toString n | _ => "0"
                      some (row ++ ":" ++ ".".intercalate (ps.toList.filterMap fun x => x.getStr?.toOption))
                    | _, _ => none
                  let pkg := match s.getObjVal? "package_path" with
                    | .ok (.arr ps) => ".".intercalate (ps.toList.filterMap fun x => x.getStr?.toOption)
                    | _ => ""
                  some { src := src, data := "imports|" ++ ",".intercalate (l.toArray.qsort (· < ·)).toList ++ "|" ++ pkg }
                | _, .ok ep =>
                  let row := match ep.getObjVal? "row" with | .ok (.num n) => toString n | _ => "0"
                  some { src := src, data := "entry|" ++ row }
                | _, _ => some { src := src, data := s!"{fld "kind"}|{fld "name"}|{fld "row"}" }
              | _, _ => none
          | _ => [])

def jviol (v : Violation) (isAgg : Bool) : Json :=
  Json.arr #[.str v.category, .str v.title, .str v.level, jstr v.file,
             (match v.row with | some r => (r : Json) | none => Json.null), .bool isAgg]

/-- stable textual key used only to sort the canonical output -/
def sortKey (j : Json) : String := j.compress

def sortJ (l : List Json) : List Json := (l.toArray.qsort fun a b => sortKey a < sortKey b).toList

/-- the glob matcher of the model run: supplied per case as a table computed by the harness with the real
gobwas matcher over exactly the (pattern,file) pairs the model asks for (two-pass protocol) -/
def matcherOf (j : Json) : Matcher :=
  let tbl : List (String × Bool) := match objOf j "glob" with
    | none => []
    | some g => (kvs g).map fun (k, v) => (k, match v with | .bool b => b | _ => false)
  fun p f => (tbl.lookup (String.ofList p ++ "\u0000" ++ String.ofList f)).getD false

def handle (op : String) (j : Json) : Except String Json := do
  match op with
  | "kernel.lint" =>
    let files := parseFiles j
    let params := parseParams j
    let prefix_ := ((optStr j "prefix").getD "").toList
    let cfg := mergeCfg (parseProvided j) (parseUser j) prefix_
    let env := World.env (boolOr j "noStringsCount")
    let opts : LintOpts := { useCollectQuery := boolOr j "collect", exportAggregates := boolOr j "export",
                             overridden := parseOverridden j }
    let gm := matcherOf j
    -- Go: FilterIgnoredPaths on the input modules' names (checkFileExists=false)
    let ign := goGlobalIgnore params.ignoreFiles cfg.ignoreFiles
    let kept := goFilterPaths gm (files.map (·.name)) ign (goNormPrefix prefix_)
    let files := files.filter fun f => kept.contains f.name
    let results := lintResults env gm cfg params opts files
    -- completion order
    let order := strsOr j "order"
    let ordered := if order.isEmpty then results else
      order.filterMap fun n => results.find? fun r => r.name = n.toList
    let rep := lintOrdered env gm cfg params opts files ordered
    let nFile := (results.flatMap (·.violations)).length
    let vs := (rep.violations.zipIdx).map fun (v, i) => jviol v (i ≥ nFile)
    let ns := rep.notices.map fun n => Json.arr #[.str n.category, .str n.title, .str n.severity]
    let ghosts := ["imports/prefer-package-imports", "bugs/impossible-not", "custom/missing-metadata",
                   "imports/circular-import"]
    let world := ["todo-comment", "line-length", "if-empty-object", "use-strings-count", "unresolved-import",
                  "no-defined-entrypoint"]
    let aggs := (rep.aggregates.filter fun (k, _) => !ghosts.contains k).map fun (k, es) =>
      (k, Json.arr ((es.map fun a => String.ofList a.src ++ "|" ++ a.data).toArray.qsort (· < ·) |>.map Json.str))
    let enabled := ((determineEnabled env cfg params { name := [] }).map (·.2)).filter world.contains
    return Json.mkObj [
      ("violations", Json.arr (sortJ vs).toArray),
      ("notices", Json.arr (sortJ ns).toArray),
      ("aggregates", Json.mkObj aggs),
      ("summary", Json.mkObj [("filesScanned", rep.summary.filesScanned), ("rulesSkipped", rep.summary.rulesSkipped),
                               ("numViolations", rep.summary.numViolations), ("filesFailed", rep.summary.filesFailed)]),
      ("enabled", Json.arr ((enabled.toArray.qsort (· < ·)).map Json.str)),
      ("cfgLevels", Json.mkObj (cfg.rules.map fun (r, rc) => (key r, Json.str (rc.level.getD "<none>"))))]
  | "kernel.twophase" =>
    let files := parseFiles j
    let params := parseParams j
    let prefix_ := ((optStr j "prefix").getD "").toList
    let cfg := mergeCfg (parseProvided j) (parseUser j) prefix_
    let env := World.env (boolOr j "noStringsCount")
    let gm := matcherOf j
    let ign := goGlobalIgnore params.ignoreFiles cfg.ignoreFiles
    let parts : List (List String) := match getArr j "parts" with
      | .ok a => a.toList.map fun pj => match pj.getArr? with
          | .ok ns => ns.toList.filterMap fun n => n.getStr?.toOption
          | .error _ => []
      | .error _ => []
    let order : List Nat := match getArr j "mergeOrder" with
      | .ok a => a.toList.filterMap fun n => n.getNat?.toOption
      | .error _ => []
    let exportsOf (names : List String) : List (String × List Agg) :=
      let fs := names.filterMap fun n => files.find? fun f => f.name = n.toList
      let kept := goFilterPaths gm (fs.map (·.name)) ign (goNormPrefix prefix_)
      let fs := fs.filter fun f => kept.contains f.name
      (mergeAll (fs.map (lintFile env gm cfg params true))).aggregates
    let exports := parts.map exportsOf
    -- Go merges each exported map key by key in sorted key order; per key the order of parts is `order`
    let merged := (order.filterMap fun i => exports[i]?).flatMap id
    let merged := merged.foldl (fun m kv => aggInsert m kv.1 kv.2) []
    if merged.isEmpty then
      return Json.mkObj [("violations", Json.arr #[]), ("nothingToReport", true)]
    let rep := lint env gm cfg params { overridden := merged } []
    let vs := rep.violations.map fun v => jviol v true
    return Json.mkObj [("violations", Json.arr (sortJ vs).toArray)]
  | _ => throw s!"unknown op {op}"

end Driver.Kernel
